"""Entry sets and their iterator (abstract_entry_set.py, transaction_set.py, input_data.py): C10, and the callee contracts of C06/C07/C09.

Abstraction (DESIGN 5.2): an entry set S is (list L = S._entry_list, window [S._from_date, S._to_date]); `iter_view(S)` is what the
verified contract of EntrySetIterator.__next__ yields.  Local date of an entry = calendar date of its own timestamp in its own UTC offset.
"""
import z3
from pyvc import vals as V
from pyvc.spec import contract, external, inline, invariant, And, Or, Not, implies, ite
from .transactions import ts

AES = "rp2.abstract_entry_set.AbstractEntrySet"
ESI = "rp2.abstract_entry_set.EntrySetIterator"
US_PER_DAY = 86400 * 1000000


def entry_ts(s, e):
    """Timestamp of an entry: a transaction's own; a gain/loss fraction's = that of its taxable event (statement of C06/C10: 'own date')."""
    ex = s.ex
    gl = ex.class_q("GainLoss")
    is_gl = ex.isinstance_term(e.some.v, gl)
    own = e.f("AbstractTransaction.__timestamp").t
    ev = e.f("GainLoss.__taxable_event").f("AbstractTransaction.__timestamp").t
    return z3.If(is_gl, ev, own)


def local_day(s, dt_term):
    """Ordinal of the local calendar date of an aware datetime (same uninterpreted function the executor uses for .date())."""
    return s.ex.local_date(dt_term)


def entry_day(s, e):
    return local_day(s, entry_ts(s, e))


def elist(es): return es.f("AbstractEntrySet._entry_list")
def efrom(es): return es.f("AbstractEntrySet._from_date")
def eto(es): return es.f("AbstractEntrySet._to_date")
def it_set(it): return it.f("EntrySetIterator.__entry_set")
def it_size(it): return it.f("EntrySetIterator.__entry_set_size")
def it_index(it): return it.f("EntrySetIterator.__index")


def in_window(s, es, e):
    """Statement of C10: the entry's own calendar date lies in the window, both bounds inclusive."""
    d = entry_day(s, e)
    return And(efrom(es).t <= d, d <= eto(es).t)


def skipped(s, es, e):
    """An entry the iterator steps over without ending: before the window (and not past its end)."""
    d = entry_day(s, e)
    return And(d < efrom(es).t, d <= eto(es).t)


def it_wf(s, it):
    es = it_set(it)
    return And(it_index(it).t >= 0, it_index(it).t <= it_size(it).t, it_size(it).t == elist(es).len)


def stop_post(s):
    """StopIteration: every entry from the old position on was skipped up to the end of the list, or up to the first entry whose own
    date is past the to-date (that entry is consumed)."""
    it = s.a.self
    es = it_set(it)
    i0 = it_index(s.old.a.self).t
    i1 = it_index(it).t
    j = z3.Int("nx_j")
    at_end = And(i1 == it_size(it).t, z3.ForAll([j], implies(And(i0 <= j, j < i1), skipped(s, es, elist(es)[j]))))
    past = And(i0 < i1, i1 <= it_size(it).t, entry_day(s, elist(es)[i1 - 1]) > eto(es).t,
               z3.ForAll([j], implies(And(i0 <= j, j < i1 - 1), skipped(s, es, elist(es)[j]))))
    return Or(at_end, past)


@contract(ESI + ".__next__", props=["C10", "C06", "C09"])
def _(k):
    def post(s):
        it = s.a.self
        es = it_set(it)
        i0 = it_index(s.old.a.self).t
        i1 = it_index(it).t
        j = z3.Int("nx_j")
        return And(i0 < i1, i1 <= it_size(it).t,
                   s.result.t == elist(es)[i1 - 1].t,
                   in_window(s, es, s.result),
                   z3.ForAll([j], implies(And(i0 <= j, j < i1 - 1), skipped(s, es, elist(es)[j]))))

    k.requires("wf", lambda s: it_wf(s, s.a.self))
    k.ensures("yields_next_in_window", post)
    k.ensures("wf", lambda s: it_wf(s, s.a.self))
    k.raises("StopIteration")
    k.modifies("EntrySetIterator.__index", refs=lambda s: [s.a.self])
    k.raises_ensures("StopIteration", "stops_only_at_end_or_past_to_date", stop_post)


@invariant(ESI + ".__next__", loop=0)
def _(iv):
    def inv(s):
        it = s.v.self
        es = it_set(it)
        i0 = s.old.v.self.f("EntrySetIterator.__index").t
        i1 = it_index(it).t
        j = z3.Int("nx_j")
        return And(i0 <= i1, i1 <= it_size(it).t, it_size(it).t == elist(es).len,
                   z3.ForAll([j], implies(And(i0 <= j, j < i1), skipped(s, es, elist(es)[j]))))
    iv.inv("skipped_prefix", inv)
