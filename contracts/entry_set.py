"""Entry sets and their iterator (abstract_entry_set.py, transaction_set.py, input_data.py): C10, and the callee contracts of C06/C07/C09.

Abstraction (DESIGN 5.2): an entry set S is (list L = S._entry_list, window [S._from_date, S._to_date]); `iter_view(S)` is what the
verified contract of EntrySetIterator.__next__ yields.  Local date of an entry = calendar date of its own timestamp in its own UTC offset.
"""
import z3
from pyvc import vals as V
from pyvc.spec import contract, external, inline, invariant, And, Or, Not, implies, ite
from .transactions import ts

AES = "rp2.abstract_entry_set.AbstractEntrySet"
ESI = "rp2.abstract_entry_set.EntrySetIterator"
US_PER_DAY = 86400 * 1000000


def entry_ts(s, e):
    """Timestamp of an entry: a transaction's own; a gain/loss fraction's = that of its taxable event (statement of C06/C10: 'own date')."""
    ex = s.ex
    gl = ex.class_q("GainLoss")
    is_gl = ex.isinstance_term(e.some.v, gl)
    own = e.f("AbstractTransaction.__timestamp").t
    ev = e.f("GainLoss.__taxable_event").f("AbstractTransaction.__timestamp").t
    return z3.If(is_gl, ev, own)


def local_day(s, dt_term):
    """Ordinal of the local calendar date of an aware datetime (same uninterpreted function the executor uses for .date())."""
    return s.ex.local_date(dt_term)


def entry_day(s, e):
    return local_day(s, entry_ts(s, e))


def elist(es): return es.f("AbstractEntrySet._entry_list")
def efrom(es): return es.f("AbstractEntrySet._from_date")
def eto(es): return es.f("AbstractEntrySet._to_date")
def it_set(it): return it.f("EntrySetIterator.__entry_set")
def it_size(it): return it.f("EntrySetIterator.__entry_set_size")
def it_index(it): return it.f("EntrySetIterator.__index")


def in_window(s, es, e):
    """Statement of C10: the entry's own calendar date lies in the window, both bounds inclusive."""
    d = entry_day(s, e)
    return And(efrom(es).t <= d, d <= eto(es).t)


def skipped(s, es, e):
    """An entry the iterator steps over without ending: before the window (and not past its end)."""
    d = entry_day(s, e)
    return And(d < efrom(es).t, d <= eto(es).t)


def it_wf(s, it):
    es = it_set(it)
    return And(it_index(it).t >= 0, it_index(it).t <= it_size(it).t, it_size(it).t == elist(es).len)


def stop_post(s):
    """StopIteration: every entry from the old position on was skipped up to the end of the list, or up to the first entry whose own
    date is past the to-date (that entry is consumed)."""
    it = s.a.self
    es = it_set(it)
    i0 = it_index(s.old.a.self).t
    i1 = it_index(it).t
    j = z3.Int("nx_j")
    at_end = And(i1 == it_size(it).t, z3.ForAll([j], implies(And(i0 <= j, j < i1), skipped(s, es, elist(es)[j]))))
    past = And(i0 < i1, i1 <= it_size(it).t, entry_day(s, elist(es)[i1 - 1]) > eto(es).t,
               z3.ForAll([j], implies(And(i0 <= j, j < i1 - 1), skipped(s, es, elist(es)[j]))))
    return Or(at_end, past)


@contract(ESI + ".__next__", props=["C10", "C06", "C09"])
def _(k):
    def post(s):
        it = s.a.self
        es = it_set(it)
        i0 = it_index(s.old.a.self).t
        i1 = it_index(it).t
        j = z3.Int("nx_j")
        return And(i0 < i1, i1 <= it_size(it).t,
                   s.result.t == elist(es)[i1 - 1].t,
                   in_window(s, es, s.result),
                   z3.ForAll([j], implies(And(i0 <= j, j < i1 - 1), skipped(s, es, elist(es)[j]))))

    def single_step(s):
        # instance of the quantified clause at the old position (redundant, stated for the benefit of callers' proofs)
        it = s.a.self
        i0 = it_index(s.old.a.self).t
        return Or(it_index(it).t == i0 + 1, skipped(s, it_set(it), elist(it_set(it))[i0]))

    def stop_hint(s):
        it = s.a.self
        es = it_set(it)
        i0 = it_index(s.old.a.self).t
        i1 = it_index(it).t
        return Or(And(i1 == i0, i0 == it_size(it).t), skipped(s, es, elist(es)[i0]), And(i1 == i0 + 1, entry_day(s, elist(es)[i0]) > eto(es).t))
    k.requires("wf", lambda s: it_wf(s, s.a.self))
    k.ensures("yields_next_in_window", post)
    k.ensures("one_step_unless_first_skipped", single_step)
    k.raises_ensures("StopIteration", "stop_at_old_position_unless_first_skipped", stop_hint)
    k.ensures("wf", lambda s: it_wf(s, s.a.self))
    k.raises("StopIteration")
    k.modifies("EntrySetIterator.__index", refs=lambda s: [s.a.self])
    k.raises_ensures("StopIteration", "stops_only_at_end_or_past_to_date", stop_post)


@invariant(ESI + ".__next__", loop=0)
def _(iv):
    def inv(s):
        it = s.v.self
        es = it_set(it)
        i0 = s.old.v.self.f("EntrySetIterator.__index").t
        i1 = it_index(it).t
        j = z3.Int("nx_j")
        return And(i0 <= i1, i1 <= it_size(it).t, it_size(it).t == elist(es).len,
                   z3.ForAll([j], implies(And(i0 <= j, j < i1), skipped(s, es, elist(es)[j]))))
    iv.inv("skipped_prefix", inv)


# ------------------------------------------------------------------ the set itself
def eflag(es): return es.f("AbstractEntrySet.__is_sorted")


def inst_of(s, e):
    return V.DT.inst(entry_ts(s, e))


def sorted_inst(s, es):
    """The entry list is in chronological order: instants non-decreasing."""
    L = elist(es)
    i, j = z3.Int("so_i"), z3.Int("so_j")
    return z3.ForAll([i, j], implies(And(0 <= i, i < j, j < L.len), inst_of(s, L[i]) <= inst_of(s, L[j])))


def es_inv(s, es):
    """Representation invariant of an entry set: the 'sorted' flag is truthful."""
    return implies(eflag(es).t, sorted_inst(s, es))


def list_unchanged(s, es_new, es_old_state):
    """Same list object with the same content as in the old state (a stable sort of a sorted list is the identity)."""
    L1, L0 = elist(es_new), elist(es_old_state)
    i = z3.Int("lu_i")
    return And(L1.t == L0.t, L1.len == L0.len, z3.ForAll([i], implies(And(0 <= i, i < L0.len), L1[i].t == L0[i].t)))


GLS = "rp2.gain_loss_set.GainLossSet"
GLS_SORT_FIELDS = ["GainLossSet.__taxable_events_to_fraction", "GainLossSet.__acquired_lots_to_fraction",
                   "GainLossSet.__taxable_events_to_number_of_fractions", "GainLossSet.__acquired_lots_to_number_of_fractions",
                   "GainLossSet.__transaction_type_2_count"]
DICT_KEYS = [("dhas", "Ref"), ("dhas", "txid"), ("dhas", "glkey"), ("dval", "Ref", "Ref"), ("dvaln", "Ref"), ("dval", "txid", "Int"), ("dval", "glkey", "Int"),
             ("dlen",)]


def sort_frame(k, me):
    """What (re)sorting a set may touch: the elements of its list, its flag, its parent map, the per-sort dictionaries of a gain/loss set
    (fresh dictionaries each time), and freshly allocated objects."""
    k.modifies(("lel", "Ref"), refs=lambda s: [elist(me(s))])
    k.modifies("AbstractEntrySet.__is_sorted", refs=lambda s: [me(s)])
    for f in GLS_SORT_FIELDS:
        k.modifies(f, refs=lambda s: [me(s)])
    for key in DICT_KEYS:
        k.modifies(key, refs=lambda s: [me(s).f("AbstractEntrySet._entry_to_parent")], fresh_only=True)
    k.modifies(("alloc",))
    k.modifies(("llen",), refs=lambda s: [], fresh_only=True)


def sort_post(k, me, old_me):
    k.ensures("chronological", lambda s: sorted_inst(s, me(s)))
    k.ensures("same_list_same_length", lambda s: And(elist(me(s)).t == elist(old_me(s)).t, elist(me(s)).len == elist(old_me(s)).len))
    k.ensures("identity_on_sorted_list", lambda s: implies(sorted_inst(s.old, old_me(s)), list_unchanged(s, me(s), old_me(s))))
    k.ensures("window_kept", lambda s: And(efrom(me(s)) == efrom(old_me(s)), eto(me(s)) == eto(old_me(s))))


@contract(AES + "._sort_entries", props=["C10", "C09", "C17"])
def _(k):
    me, old_me = (lambda s: s.a.self), (lambda s: s.old.a.self)
    sort_post(k, me, old_me)
    sort_frame(k, me)
    k.raises_never("Exception")


@contract(GLS + "._sort_entries", props=["C10", "C13"])
def _(k):
    me, old_me = (lambda s: s.a.self), (lambda s: s.old.a.self)
    sort_post(k, me, old_me)
    sort_frame(k, me)
    k.raises("RP2ValueError")          # the sanity errors ("exceeded", "already exhausted"): unreachable on matcher output, C02


@contract(AES + ".__iter__", props=["C10", "C06", "C07", "C09"])
def _(k):
    me, old_me = (lambda s: s.a.self), (lambda s: s.old.a.self)
    k.requires("flag_truthful", lambda s: es_inv(s, s.a.self))
    k.fresh_result = True
    sort_post(k, me, old_me)
    sort_frame(k, me)
    k.ensures("flag_truthful", lambda s: And(eflag(me(s)).t, es_inv(s, me(s))))
    k.ensures("fresh_iterator_at_start", lambda s: And(Not(s.ex.is_alloc(s.oh.heap, s.result.t)), it_set(s.result).t == me(s).t,
                                                       it_index(s.result).t == 0, it_size(s.result).t == elist(me(s)).len, it_wf(s, s.result)))
    k.raises("RP2ValueError")
    for f in ("EntrySetIterator.__entry_set", "EntrySetIterator.__entry_set_size", "EntrySetIterator.__index"):
        k.modifies(f, refs=lambda s: [s.result])


@contract(AES + ".duplicate", props=["C10"])
def _(k):
    me, old_me = (lambda s: s.result), (lambda s: s.old.a.self)
    k.requires("flag_truthful", lambda s: es_inv(s, s.a.self))
    k.fresh_result = True
    k.ensures("fresh_view", lambda s: And(Not(s.ex.is_alloc(s.oh.heap, s.result.t)), V.cls_of(s.result.t) == V.cls_of(s.a.self.t)))
    k.ensures("shares_the_entry_list", lambda s: elist(s.result).t == elist(s.old.a.self).t)          # same objects => same figures (C10 ii)
    k.ensures("window_is_the_requested_one", lambda s: And(efrom(s.result) == s.a.from_date, eto(s.result) == s.a.to_date))
    k.ensures("same_identity_fields", lambda s: And(*[s.result.f(f) == s.old.a.self.f(f) for f in
                                                      ("AbstractEntrySet.__configuration", "AbstractEntrySet.__entry_set_type", "AbstractEntrySet.__asset")]))
    k.ensures("chronological", lambda s: sorted_inst(s, s.result))
    k.ensures("length_kept", lambda s: elist(s.result).len == elist(s.old.a.self).len)
    k.ensures("content_kept_if_sorted", lambda s: implies(sorted_inst(s.old, s.old.a.self), list_unchanged(s, s.result, s.old.a.self)))
    k.ensures("original_window_untouched", lambda s: And(efrom(s.a.self) == efrom(s.old.a.self), eto(s.a.self) == eto(s.old.a.self)))
    k.ensures("flag_truthful", lambda s: And(eflag(s.result).t, es_inv(s, s.result)))
    k.raises("RP2ValueError")
    # frame: the shared list may be re-sorted, the shared parent map rewritten; every instance field only at the fresh copy
    k.modifies(("lel", "Ref"), refs=lambda s: [elist(s.a.self)])
    for key in DICT_KEYS:
        k.modifies(key, refs=lambda s: [s.a.self.f("AbstractEntrySet._entry_to_parent")], fresh_only=True)
    k.modifies(("alloc",))
    k.modifies(("llen",), refs=lambda s: [], fresh_only=True)
    for f in ["AbstractEntrySet.__configuration", "AbstractEntrySet.__entry_set_type", "AbstractEntrySet.__asset", "AbstractEntrySet._from_date",
              "AbstractEntrySet._to_date", "AbstractEntrySet._entry_list", "AbstractEntrySet._entry_set", "AbstractEntrySet._entry_to_parent",
              "AbstractEntrySet.__is_sorted"] + GLS_SORT_FIELDS:
        k.modifies(f, refs=lambda s: [s.result])


inline(AES + "._check_sort", AES + "._force_sort", ESI + ".__init__", AES + ".count", AES + ".from_date", AES + ".to_date")


# ------------------------------------------------------------------ InputData
ID = "rp2.input_data.InputData"
ID_SETS = [("in", "IN"), ("out", "OUT"), ("intra", "INTRA")]


def id_unf(d, which): return d.f(f"InputData.__unfiltered_{which}_transaction_set")
def id_fil(d, which): return d.f(f"InputData.__filtered_{which}_transaction_set")


def input_data_inv(s, d):
    """What InputData.__init__ establishes: each filtered set is a view (same entry list) of the unfiltered one with the requested window."""
    cs = []
    for w, _ in ID_SETS:
        cs += [elist(id_fil(d, w)).t == elist(id_unf(d, w)).t, efrom(id_fil(d, w)) == d.f("InputData.__from_date"), eto(id_fil(d, w)) == d.f("InputData.__to_date"),
               es_inv(s, id_unf(d, w)), es_inv(s, id_fil(d, w)), id_fil(d, w).t != id_unf(d, w).t]
    return And(*cs)


@contract(ID + ".__init__", props=["C10"])
def _(k):
    a = {"in": "unfiltered_in_transaction_set", "out": "unfiltered_out_transaction_set", "intra": "unfiltered_intra_transaction_set"}
    arg = lambda s, w: getattr(s.a, a[w])
    k.requires("sets_wf", lambda s: And(*[es_inv(s, arg(s, w)) for w, _ in ID_SETS]))
    k.requires("distinct_lists", lambda s: And(elist(arg(s, "in")).t != elist(arg(s, "out")).t, elist(arg(s, "in")).t != elist(arg(s, "intra")).t,
                                               elist(arg(s, "out")).t != elist(arg(s, "intra")).t))
    k.ensures("unfiltered_sets_are_the_arguments", lambda s: And(*[id_unf(s.a.self, w).t == arg(s, w).t for w, _ in ID_SETS]))
    k.ensures("unfiltered_windows_untouched", lambda s: And(*[And(efrom(arg(s, w)) == efrom(s.old.sv(arg(s, w).v)), eto(arg(s, w)) == eto(s.old.sv(arg(s, w).v))) for w, _ in ID_SETS]))
    k.ensures("filtered_sets_are_windowed_views", lambda s: And(*[And(elist(id_fil(s.a.self, w)).t == elist(s.old.sv(arg(s, w).v)).t,
                                                                     efrom(id_fil(s.a.self, w)) == s.a.from_date, eto(id_fil(s.a.self, w)) == s.a.to_date,
                                                                     Not(s.ex.is_alloc(s.oh.heap, id_fil(s.a.self, w).t))) for w, _ in ID_SETS]))
    k.ensures("window_stored", lambda s: And(s.a.self.f("InputData.__from_date") == s.a.from_date, s.a.self.f("InputData.__to_date") == s.a.to_date))
    k.ensures("all_chronological", lambda s: And(*[sorted_inst(s, arg(s, w)) for w, _ in ID_SETS]))
    k.ensures("content_kept_if_sorted", lambda s: And(*[implies(sorted_inst(s.old, s.old.sv(arg(s, w).v)), list_unchanged(s, arg(s, w), s.old.sv(arg(s, w).v))) for w, _ in ID_SETS]))
    k.raises("RP2ValueError")
    k.raises("RP2TypeError")
