"""GainLoss (gain_loss.py): C04 (arithmetic), C05 (holding period), C03 (earn entries)."""
import z3
from pyvc import vals as V
from pyvc.spec import contract, inline, And, Or, Not, implies, ite, R
from .common import dt_wf, whole_days, US_PER_DAY, wdays, wdays_def
from .country import COUNTRY_MODULES

from .transactions import (TOL, tx_inv, tx_fmt, out_consistent, earning_spec, taxable_spec, need, cbc_field, taxable_value, ts, i_in, is_in, is_out, is_intra)

GL = "rp2.gain_loss.GainLoss"


def ev_of(g): return g.f("GainLoss.__taxable_event")
def lot_of(g): return g.f("GainLoss.__acquired_lot")
def amt_of(g): return g.f("GainLoss.__crypto_amount")


def valid_gain_loss(s, g):
    """What GainLoss.__init__ establishes (its normal-return postcondition); objects are immutable, so every method may assume it."""
    ev, lot, amt = ev_of(g), lot_of(g), amt_of(g)
    return And(
        tx_inv(s, ev),
        taxable_spec(s, ev),
        lot.is_none == earning_spec(s, ev),
        amt.t > TOL,
        cbc_field(s, ev) >= amt.t - TOL,
        implies(earning_spec(s, ev), And(amt.t - cbc_field(s, ev) <= TOL, cbc_field(s, ev) - amt.t <= TOL)),
        implies(lot.not_none, And(tx_inv(s, lot.some), is_in(lot.some), i_in(lot.some, "crypto_in").t >= amt.t - TOL,
                                  ts(lot.some).inst <= ts(ev).inst)),
    )


def proceeds_spec(s, g):
    """C04: the event's taxable fiat value pro-rated by fraction amount over the event's total outgoing amount."""
    return taxable_value(s, ev_of(g)) * amt_of(g).t / need(s, ev_of(g))


def cost_spec(s, g):
    """C04: the lot's fiat cost including acquisition fee pro-rated by fraction amount over lot amount; zero without a lot."""
    lot = lot_of(g)
    return ite(lot.is_none, R(0), i_in(lot.some, "fiat_in_with_fee").t * amt_of(g).t / i_in(lot.some, "crypto_in").t)


def threshold_reached(s, country, days):
    """Statement of C05: 365 days for US and ES, never for JP and IE, the configured value for the generic country."""
    ex = s.ex
    isa = lambda key: ex.isinstance_term(country.some.v, COUNTRY_MODULES[key])
    generic_value = country.f("Generic.__long_term_capital_gain_period")
    return Or(
        And(Or(isa("us"), isa("es")), days >= 365),
        And(isa("generic"), days >= generic_value.t),
    )


def country_wf(s, country):
    ex = s.ex
    isa = lambda key: ex.isinstance_term(country.some.v, COUNTRY_MODULES[key])
    return implies(isa("generic"), country.f("Generic.__long_term_capital_gain_period") >= 0)


@contract(GL + ".__init__", props=["C02", "C03", "C04", "C05"])
def _(k):
    k.requires("event_inv", lambda s: And(tx_inv(s, s.a.taxable_event), tx_fmt(s, s.a.taxable_event)))
    k.requires("lot_inv", lambda s: implies(s.a.acquired_lot.not_none, tx_inv(s, s.a.acquired_lot.some)))
    k.ensures("fields_stored", lambda s: And(ev_of(s.a.self) == s.a.taxable_event, amt_of(s.a.self) == s.a.crypto_amount,
                                             lot_of(s.a.self).is_none == s.a.acquired_lot.is_none,
                                             implies(s.a.acquired_lot.not_none, lot_of(s.a.self).t == s.a.acquired_lot.t),
                                             s.a.self.f("AbstractEntry.__configuration") == s.a.configuration))
    k.ensures("valid", lambda s: valid_gain_loss(s, s.a.self))
    k.raises("RP2ValueError")
    k.raises("RP2TypeError")


@contract(GL + ".is_long_term_capital_gains", props=["C05", "C06", "C13", "C14"])
def _(k):
    def diff(s):
        g = s.a.self
        return ts(ev_of(g)).inst - ts(lot_of(g).some).inst

    def post(s):
        g = s.a.self
        country = g.f("AbstractEntry.__configuration").f("Configuration.__country")
        return implies(lot_of(g).not_none, s.result.t == threshold_reached(s, country, wdays(s.ex, diff(s))))
    # whole days elapsed = floor((instant(event) - instant(lot)) / 1 day): defining property of the spec function
    k.define("whole_days", lambda s: implies(lot_of(s.a.self).not_none, wdays_def(s.ex, diff(s))))
    k.requires("valid", lambda s: valid_gain_loss(s, s.a.self))
    k.requires("country_wf", lambda s: country_wf(s, s.a.self.f("AbstractEntry.__configuration").f("Configuration.__country")))
    k.ensures("income_is_short_term", lambda s: implies(lot_of(s.a.self).is_none, s.result.t == False))
    k.ensures("long_iff_days_ge_threshold", post)
    k.raises_never("Exception")
    k.modifies()


def gl_fig(ex, prop):
    """Opaque name for a figure of a fraction (callers that only add figures up do not need the formula, DESIGN 'keep each query small').
    Sound because a GainLoss and its transactions are immutable after construction: the figure is a function of the object."""
    return ex.uf("GL_" + prop, V.Ref, z3.RealSort())


def _figure(prop, f, label, props=("C04",), consistent=True):
    @contract(GL + "." + prop, props=list(props))
    def _(k):
        k.requires("valid", lambda s: valid_gain_loss(s, s.a.self))
        if consistent:
            k.requires("out_consistent", lambda s: out_consistent(s, ev_of(s.a.self)))
        k.ensures(label, lambda s: s.result.t == f(s, s.a.self))
        k.define("named_" + label, lambda s: gl_fig(s.ex, prop)(s.a.self.t) == f(s, s.a.self))
        k.ensures("named_" + label, lambda s: s.result.t == gl_fig(s.ex, prop)(s.a.self.t))
        k.raises_never("Exception")          # includes division by zero and the "Internal error" raises
        k.modifies()


_figure("taxable_event_fiat_amount_with_fee_fraction", proceeds_spec, "proceeds_prorated")
_figure("fiat_cost_basis", cost_spec, "cost_prorated", consistent=False)
_figure("acquired_lot_fiat_amount_with_fee_fraction", cost_spec, "cost_prorated", consistent=False)
_figure("fiat_gain", lambda s, g: proceeds_spec(s, g) - cost_spec(s, g), "gain_is_proceeds_minus_cost")
_figure("taxable_event_fraction_percentage", lambda s, g: amt_of(g).t / need(s, ev_of(g)), "fraction_of_event")
_figure("acquired_lot_fraction_percentage", lambda s, g: ite(lot_of(g).is_none, R(0), amt_of(g).t / i_in(lot_of(g).some, "crypto_in").t), "fraction_of_lot", consistent=False)


from pyvc.spec import lemma


@lemma("C04.sum_of_parts", props=["C04"])
def _(lm):
    """Induction behind 'the pieces add back to the whole': S_j = W*A_j/T  =>  S_j + W*a_j/T = W*(A_j + a_j)/T, base S_0 = 0,
    conclusion at A_n = T.  W = taxable fiat value (resp. lot cost), T = total outgoing amount (resp. lot amount), T != 0."""
    W, T, A, a, Sj = z3.Reals("W T A a Sj")
    lm.case("base", lambda ex: ([T != 0], W * 0 / T == 0))
    lm.case("step", lambda ex: ([T != 0, Sj == W * A / T], Sj + W * a / T == W * (A + a) / T))
    lm.case("conclusion", lambda ex: ([T != 0, Sj == W * A / T, A == T], Sj == W))
