"""GainLoss (gain_loss.py): C04 (arithmetic), C05 (holding period), C03 (earn entries)."""
import z3
from pyvc import vals as V
from pyvc.spec import contract, inline, And, Or, Not, implies, ite, R
from .common import dt_wf, whole_days, US_PER_DAY
from .country import COUNTRY_MODULES

EARN_TYPES = ["AIRDROP", "HARDFORK", "INCOME", "INTEREST", "MINING", "STAKING", "WAGES"]      # from the statement of C03


def tt(ex, name):
    return ex.enum_member("rp2.entry_types.TransactionType", name).t


def is_in(s, tx):  return tx.isa("InTransaction")
def is_out(s, tx): return tx.isa("OutTransaction")
def is_intra(s, tx): return tx.isa("IntraTransaction")


def earn_type(s, tx):
    t = tx.f("AbstractTransaction.__transaction_type")
    return Or(*[t.t == tt(s.ex, n) for n in EARN_TYPES])


def is_earning_spec(s, tx):
    """Statement: earn-typed acquisitions (an in-transaction of one of the seven earn types)."""
    return And(is_in(s, tx), earn_type(s, tx))


def valid_gain_loss(s, g):
    """What GainLoss.__init__ establishes (its normal-return postcondition) and every other method may assume."""
    ev = g.f("GainLoss.__taxable_event")
    lot = g.f("GainLoss.__acquired_lot")
    amt = g.f("GainLoss.__crypto_amount")
    ev_ts = ev.f("AbstractTransaction.__timestamp")
    lot_ts = lot.some.f("AbstractTransaction.__timestamp")
    return And(
        lot.is_none == is_earning_spec(s, ev),
        dt_wf(ev_ts),
        implies(lot.not_none, And(dt_wf(lot_ts), lot_ts.inst <= ev_ts.inst)),
        amt.t >= 0,
    )


def threshold_reached(s, country, days):
    """Statement of C05: 365 days for US and ES, never for JP and IE, the configured value for the generic country."""
    ex = s.ex
    isa = lambda key: ex.isinstance_term(country.some.v, COUNTRY_MODULES[key])
    generic_value = country.f("Generic.__long_term_capital_gain_period")
    return Or(
        And(Or(isa("us"), isa("es")), days >= 365),
        And(isa("generic"), days >= generic_value.t),
    )


def country_wf(s, country):
    ex = s.ex
    isa = lambda key: ex.isinstance_term(country.some.v, COUNTRY_MODULES[key])
    return implies(isa("generic"), country.f("Generic.__long_term_capital_gain_period") >= 0)


@contract("rp2.gain_loss.GainLoss.is_long_term_capital_gains", props=["C05", "C06", "C13", "C14"])
def _(k):
    def post(s):
        g = s.a.self
        ev = g.f("GainLoss.__taxable_event")
        lot = g.f("GainLoss.__acquired_lot")
        d, ddef = whole_days(ev.f("AbstractTransaction.__timestamp"), lot.some.f("AbstractTransaction.__timestamp"))
        country = g.f("AbstractEntry.__configuration").f("Configuration.__country")
        return implies(And(lot.not_none, ddef), s.result.t == threshold_reached(s, country, d))
    k.requires("valid", lambda s: valid_gain_loss(s, s.a.self))
    k.requires("country_wf", lambda s: country_wf(s, s.a.self.f("AbstractEntry.__configuration").f("Configuration.__country")))
    k.ensures("income_is_short_term", lambda s: implies(s.a.self.f("GainLoss.__acquired_lot").is_none, s.result.t == False))
    k.ensures("long_iff_days_ge_threshold", post)
    k.raises_never("Exception")
    k.modifies()
