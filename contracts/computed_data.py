"""ComputedData (computed_data.py): C06 yearly summary; parts of C09/C10/C13/C15.

Spec folds (DESIGN 5.2), all over the entry list L of the unfiltered gain/loss set:
  YC(L, n, k)        number of fractions among the first n whose grouping key is k
  YS_c(L, n, k)      sum over those fractions of component c in {amount, proceeds, cost, gain}
  YN(L, d)           the to-date cut: the first index whose taxable event's own calendar date is past d (len(L) if none)
with key(g) = (year of the taxable event's own timestamp, asset, the event's transaction type, long/short of the fraction) and the
components taken from the statement of C04 (proceeds_spec, cost_spec) -- not from the getters the code calls.
"""
import z3
from pyvc import vals as V
from pyvc.spec import contract, external, inline, invariant, And, Or, Not, implies, ite, R
from .common import US_PER_DAY, wdays as _wdays, wdays_def as _wdays_def
from .transactions import ts, ttype, out_consistent
from .gain_loss import gl_fig, valid_gain_loss, country_wf, proceeds_spec, cost_spec, threshold_reached, ev_of, lot_of, amt_of
from .entry_set import elist, efrom, eto, it_set, it_index, it_size, it_wf, es_inv, sorted_inst, local_day

CD = "rp2.computed_data.ComputedData"
YID = "rp2.computed_data._YearlyGainLossId"
YAM = "rp2.computed_data._YearlyGainLossAmounts"
YGL = "rp2.computed_data.YearlyGainLoss"
COMPONENTS = ["crypto_amount", "fiat_amount", "fiat_cost_basis", "fiat_gain_loss"]
MIN_DAY, MAX_DAY = 719163, 3652059          # date(1970,1,1).toordinal(), date(9999,12,31).toordinal(): rp2.configuration.MIN_DATE / MAX_DATE


def yid_sort(s): return s.ex.rec_sort(YID)[0]


def gl_diff(s, g): return ts(ev_of(g)).inst - ts(lot_of(g).some).inst


def gl_long(s, g):
    """C05's reading, as a function of the fraction: a lot is present and the whole days between the two instants reach the threshold."""
    country = g.f("AbstractEntry.__configuration").f("Configuration.__country")
    return And(lot_of(g).not_none, threshold_reached(s, country, _wdays(s.ex, gl_diff(s, g))))


def gl_year(s, g):
    return s.ex.uf("local_year", z3.IntSort(), z3.IntSort())(s.ex.local_us(ts(ev_of(g)).t))


def gl_event_day(s, g):
    return local_day(s, ts(ev_of(g)).t)


def gl_key(s, g):
    """Grouping key from the statement of C06: (year of the taxable event's own timestamp, asset, transaction type, long/short)."""
    srt = yid_sort(s)
    return srt.mk(gl_year(s, g), g.f("AbstractEntry.__asset").t, ttype(ev_of(g)).t, gl_long(s, g))


GETTER_OF = {"fiat_amount": "taxable_event_fiat_amount_with_fee_fraction", "fiat_cost_basis": "fiat_cost_basis", "fiat_gain_loss": "fiat_gain"}


def gl_component(s, g, c):
    """Component c of a fraction: its crypto amount, and proceeds / cost basis / gain under the names that the contracts of the C04
    getters define as the statement's formulas (GL_<getter>(g) == proceeds_spec(g) etc., proved under C04)."""
    if c == "crypto_amount":
        return amt_of(g).t
    return gl_fig(s.ex, GETTER_OF[c])(g.t)


def YC(s): return s.ex.uf("YC", V.Ref, z3.IntSort(), yid_sort(s), z3.IntSort())
def YS(s, c): return s.ex.uf("YS_" + c, V.Ref, z3.IntSort(), yid_sort(s), z3.RealSort())
def YN(s): return s.ex.uf("YN", V.Ref, z3.IntSort(), z3.IntSort())


def gl_entry(s, gls, n):
    """n-th entry of the set's list, as a GainLoss."""
    e = elist(gls)[n]
    return s.wrap(e.t, V.Obj(s.ex.class_q("GainLoss")))


def gls_valid(s, gls):
    """Every entry of the gain/loss set is a valid fraction (GainLoss.__init__'s postcondition) dated within 1970..9999 (valid_history)."""
    j = z3.Int("gv_j")
    g = gl_entry(s, gls, j)
    country = g.f("AbstractEntry.__configuration").f("Configuration.__country")
    return z3.ForAll([j], implies(And(0 <= j, j < elist(gls).len),
                                  And(s.ex.isinstance_term(elist(gls)[j].some.v, s.ex.class_q("GainLoss")), valid_gain_loss(s, g), out_consistent(s, ev_of(g)),
                                      country_wf(s, country), MIN_DAY <= gl_event_day(s, g), gl_event_day(s, g) <= MAX_DAY,
                                      gl_year(s, g) >= 1970, gl_year(s, g) <= 9999)))


def unfiltered(s, es):
    return And(efrom(es).t == MIN_DAY, eto(es).t == MAX_DAY)


def cut_def(s, L, n, to_day, gls):
    """n is the to-date cut of the list: everything before it is dated on or before the to-date, and it is the end of the list or the
    first fraction dated after the to-date."""
    j = z3.Int("cd_j")
    return And(0 <= n, n <= elist(gls).len,
               z3.ForAll([j], implies(And(0 <= j, j < n), gl_event_day(s, gl_entry(s, gls, j)) <= to_day)),
               Or(n == elist(gls).len, gl_event_day(s, gl_entry(s, gls, n)) > to_day))


def fold_base(s, L):
    k = z3.Const("fb_k", yid_sort(s))
    return z3.ForAll([k], And(YC(s)(L, 0, k) == 0, *[YS(s, c)(L, 0, k) == 0 for c in COMPONENTS]))


def fold_step(s, L, n, g):
    """Defining equation of the folds at position n (g = L[n])."""
    k = z3.Const("fs_k", yid_sort(s))
    hit = gl_key(s, g) == k
    return z3.ForAll([k], And(YC(s)(L, n + 1, k) == YC(s)(L, n, k) + z3.If(hit, 1, 0),
                              *[YS(s, c)(L, n + 1, k) == YS(s, c)(L, n, k) + z3.If(hit, gl_component(s, g, c), z3.RealVal(0)) for c in COMPONENTS]))


def amounts_of(s, k, L, n):
    srt = s.ex.rec_sort(YAM)[0]
    return srt.mk(*[YS(s, c)(L, n, k) for c in COMPONENTS])


def fold_clauses(summaries_of, L_of, n_of):
    """The accumulator invariant split into small clauses (one solver query each): domain, and one clause per summed column."""
    def dom(s):
        k = z3.Const("sf_k", yid_sort(s))
        kv = s.wrap(k, V.Rec(YID))
        return z3.ForAll([k], And(summaries_of(s).has(kv) == (YC(s)(L_of(s), n_of(s), k) > 0), YC(s)(L_of(s), n_of(s), k) >= 0))

    def col(c):
        def f(s):
            k = z3.Const("sf_k", yid_sort(s))
            kv = s.wrap(k, V.Rec(YID))
            acc = getattr(s.ex.rec_sort(YAM)[0], c)
            summ = summaries_of(s)
            return z3.ForAll([k], z3.If(summ.has(kv), acc(summ[kv].t), z3.RealVal(0)) == YS(s, c)(L_of(s), n_of(s), k))
        return f
    return [("keys_are_those_with_fractions", dom)] + [("sum_of_" + c, col(c)) for c in COMPONENTS]


def ygl_id(s, y):
    """The four identifying fields of a YearlyGainLoss line as a grouping key."""
    ysort = s.ex.rec_sort(YGL)[0]
    return yid_sort(s).mk(ysort.year(y), ysort.asset(y), ysort.transaction_type(y), ysort.is_long_term_capital_gains(y))


def line_is_sum(s, y, L, n):
    ysort = s.ex.rec_sort(YGL)[0]
    k = ygl_id(s, y)
    return And(YC(s)(L, n, k) > 0, *[getattr(ysort, c)(y) == YS(s, c)(L, n, k) for c in COMPONENTS])


@contract(CD + "._create_yearly_gain_loss_list", props=["C06", "C09"])
def _(k):
    gls = lambda s: s.a.unfiltered_gain_loss_set
    L = lambda s: elist(gls(s)).t

    def to_day(s): return s.a.to_date.t
    # the set has been sorted before (ComputedData.__init__ calls duplicate() on it first, which sorts the shared list): the folds are
    # over the chronological list, and re-sorting a sorted list is the identity
    k.requires("unfiltered_chronological_set", lambda s: And(unfiltered(s, gls(s)), sorted_inst(s, gls(s))))
    k.requires("valid_fractions", lambda s: gls_valid(s, gls(s)))
    k.define("cut", lambda s: cut_def(s, L(s), YN(s)(L(s), to_day(s)), to_day(s), gls(s)))
    k.define("fold_base", lambda s: fold_base(s, L(s)))

    def lines(s):
        i = z3.Int("ln_i")
        n = YN(s)(L(s), to_day(s))
        return z3.ForAll([i], implies(And(0 <= i, i < s.result.len), line_is_sum(s, s.result[i].t, L(s), n)))

    def every_key(s):
        kk = z3.Const("ek_k", yid_sort(s))
        i = z3.Int("ek_i")
        n = YN(s)(L(s), to_day(s))
        return z3.ForAll([kk], implies(YC(s)(L(s), n, kk) > 0, z3.Exists([i], And(0 <= i, i < s.result.len, ygl_id(s, s.result[i].t) == kk))))

    def once(s):
        i, j = z3.Int("on_i"), z3.Int("on_j")
        return z3.ForAll([i, j], implies(And(0 <= i, i < j, j < s.result.len), ygl_id(s, s.result[i].t) != ygl_id(s, s.result[j].t)))
    k.ensures("every_line_is_the_sum_of_its_fractions_up_to_the_to_date", lines)
    k.ensures("every_key_with_fractions_has_a_line", every_key)
    k.ensures("one_line_per_key", once)
    k.raises("RP2ValueError")
    k.raises("RP2TypeError")


@invariant(CD + "._create_yearly_gain_loss_list", loop=0)
def _(iv):
    gls = lambda s: s.v.unfiltered_gain_loss_set
    L = lambda s: elist(gls(s)).t
    it = lambda s: getattr(s.v, "$it")

    def idx(s): return it_index(it(s)).t
    iv.inv("iterator", lambda s: And(it_wf(s, it(s)), it_set(it(s)).t == gls(s).t, unfiltered(s, gls(s)), sorted_inst(s, gls(s))))

    def before_cut(s):
        j = z3.Int("bc_j")
        return z3.ForAll([j], implies(And(0 <= j, j < idx(s)), gl_event_day(s, gl_entry(s, gls(s), j)) <= s.v.to_date.t))
    iv.inv("all_consumed_fractions_are_dated_up_to_the_to_date", before_cut)
    for lbl, f in fold_clauses(lambda s: s.v.summaries, L, idx):
        iv.inv(lbl, f)
    iv.unfold("fold_base", lambda s: fold_base(s, L(s)))
    iv.unfold("fold_step", lambda s: implies(idx(s) < elist(gls(s)).len, fold_step(s, L(s), idx(s), gl_entry(s, gls(s), idx(s)))))


@invariant(CD + "._create_yearly_gain_loss_list", loop=1)
def _(iv):
    gls = lambda s: s.v.unfiltered_gain_loss_set
    L = lambda s: elist(gls(s)).t

    def n(s): return YN(s)(L(s), s.v.to_date.t)
    for lbl, f in fold_clauses(lambda s: s.v.summaries, L, n):
        iv.inv("at_the_cut." + lbl, f)

    def built(s):
        ex = s.ex
        k = z3.Const("bl_k", yid_sort(s))
        kv = s.wrap(k, V.Rec(YID))
        ysrt = ex.rec_sort(YGL)[0]
        isrt = yid_sort(s)
        asrt = ex.rec_sort(YAM)[0]
        summ = s.v.summaries
        pos = ex.uf("dpos_" + V.sort_key(isrt), V.Ref, isrt, z3.IntSort())
        i = getattr(s.v, "$i1").t
        yset = s.v.yearly_gain_loss_set
        am = summ[kv].t
        line = ysrt.mk(isrt.year(k), isrt.asset(k), isrt.transaction_type(k), isrt.is_long_term_capital_gains(k),
                       asrt.crypto_amount(am), asrt.fiat_amount(am), asrt.fiat_cost_basis(am), asrt.fiat_gain_loss(am))
        linev = s.wrap(line, V.Rec(YGL))
        as_dict = s.wrap(yset.t, V.DictT(V.Rec(YGL), V.Rec(YGL)))
        return z3.ForAll([k], And(as_dict.has(linev) == And(summ.has(kv), pos(summ.t, k) < i),
                                  implies(as_dict.has(linev), as_dict[linev].t == line)))
    iv.inv("set_holds_one_line_per_visited_key", built)


@contract(CD + "._filter_yearly_gain_loss_by_year", props=["C06", "C10"])
def _(k):
    """Statement: yearly summary lines cover whole years starting with the from-date's year."""
    ysort = lambda s: s.ex.rec_sort(YGL)[0]

    def kept(s):
        i = z3.Int("fy_i")
        return z3.ForAll([i], implies(And(0 <= i, i < s.result.len), ysort(s).year(s.result[i].t) >= s.a.from_year.t))

    def complete(s):
        # order-preserving sub-sequence containing every line of a kept year: stated through the comprehension's own prefix invariant
        i, j = z3.Int("fy_i"), z3.Int("fy_j")
        src = s.a.unfiltered_yearly_gain_loss_list
        return z3.ForAll([i], implies(And(0 <= i, i < src.len, ysort(s).year(src[i].t) >= s.a.from_year.t),
                                      z3.Exists([j], And(0 <= j, j < s.result.len, s.result[j].t == src[i].t))))
    k.ensures("only_years_from_the_from_year_on", kept)
    k.ensures("every_line_of_those_years_is_kept", complete)
    k.raises_never("Exception")
