"""AccountingEngine (accounting_engine.py) and the hand-over between the matcher loop and the engine: C01, C02, C09.

What is under contract here (verified against the real bodies by pyvc):
  AccountingEngine.get_acquired_lot_for_taxable_event    K2  which lot a disposal gets next and how much of the disposal is left
  AccountingEngine.get_next_taxable_event_and_amount     K1  next event, its full amount, what stays of the lot in hand
  tax_engine._get_next_taxable_event_and_acquired_lot    K3  both in sequence

Representation invariant of an initialized engine, `engine_inv(E, t)` (t = instant of the event being processed): what
`AccountingEngine.initialize` sets up and what every call below preserves.  initialize itself (AVL insertions, tree walk) is outside
the subset, so that the invariant holds after it is an *assumption* (A-AVL); that it is preserved is proved.

Assumed contracts (all listed in the evidence): prezzemolo's AVLTree lookups as pure functions of (tree, key) whose relation to the
lot list is part of engine_inv; the text of the AVL key as an uninterpreted function of the instant (its order property is the
syntactic obligation `readframe.keys_order_like_instant_then_id` of C09); the heap-based half of the candidates (A-HEAP):
FeatureBasedAcquiredLotCandidates.set_to_index and AbstractFeatureBasedAccountingMethod.seek_non_exhausted_acquired_lot.
"""
import z3
from pyvc import vals as V
from pyvc.spec import contract, external, inline, field_type, And, Or, Not, implies, ite
from .transactions import ts, i_in, tx_inv, tx_fmt, cbc_field, taxable_spec, earning_spec
from .matcher import (AAM, CAND, CHRON, FEAT, c_lots, c_P, c_from, c_to, avail, lot_at, lots_valid, P_valid, wf_chrono, is_none_result)
from .entry_set import entry_day, elist, it_set, it_index, it_size, it_wf, sorted_inst, efrom, eto, ESI
from .computed_data import MIN_DAY, MAX_DAY

AE = "rp2.accounting_engine.AccountingEngine"
FCAND = AAM + "FeatureBasedAcquiredLotCandidates"
LAI = "rp2.accounting_engine._AcquiredLotAndIndex"


def e_it(e): return e.f("AccountingEngine.__taxable_event_iterator")
def e_lots(e): return e.f("AccountingEngine.__acquired_lot_list")
def e_P(e): return e.f("AccountingEngine.__acquired_lot_2_partial_amount")
def e_avl(e): return e.f("AccountingEngine.__acquired_lot_avl")
def e_y2c(e): return e.f("AccountingEngine.__years_2_lot_candidates")
def e_y2m(e): return e.f("AccountingEngine.__years_2_methods")


# the engine's event iterator is the EntrySetIterator that tax_engine creates with iter(<transaction set>) (the only call site of
# initialize: syntactic obligation `engine.initialize_is_given_set_iterators`, props/C02.py)
field_type("_AccountingEngine__taxable_event_iterator", V.Obj(ESI))


# ------------------------------------------------------------------ AVL lookups as pure functions (A-AVL)
def avl_none(key_sort):
    return z3.Function("avl_floor_none_" + V.sort_key(key_sort), V.Ref, key_sort, z3.BoolSort())


def avl_val(key_sort, val_sort):
    return z3.Function("avl_floor_" + V.sort_key(key_sort) + "_" + V.sort_key(val_sort), V.Ref, key_sort, val_sort)


KEYMAX = z3.Function("avl_key_max_of_instant", z3.IntSort(), V.StrS)


@external("ext.AVLTree.find_max_value_less_than", "A-AVL: prezzemolo's floor lookup is a pure function of (tree, key) once the trees are built "
          "(no tree of an engine is modified after initialize); what it returns for the engine's trees is stated in engine_inv")
def _(k):
    k.params = ["self", "key"]
    k.returns = lambda env: V.Opt(env["self"].ty.args[2]) if len(env["self"].ty.args) >= 3 else V.Opt(V.ANY)

    def post(s):
        ks = s.a.key.t.sort()
        r = s.result
        return And(r.is_none == avl_none(ks)(s.a.self.t, s.a.key.t),
                   implies(r.not_none, r.t == avl_val(ks, r.t.sort())(s.a.self.t, s.a.key.t)))
    k.ensures("floor_lookup_is_a_function_of_tree_and_key", post)
    k.modifies()


@external(AE + "._get_avl_node_key_with_max_disambiguator", "text of the AVL key (strftime, f-string padding) is outside the subset: the key with the "
          "maximal disambiguator is an uninterpreted function of the instant; that keys order like (instant, id) is C09's readframe obligation")
def _(k):
    k.ensures("function_of_the_instant", lambda s: s.result.t == KEYMAX(s.a.timestamp.inst))
    k.modifies()


# ------------------------------------------------------------------ the engine's representation invariant
def ub_rec(s, e, t):
    """(none flag, record) the lot tree returns for the key of instant t."""
    srt = s.ex.rec_sort(LAI)[0]
    return avl_none(V.StrS)(e_avl(e).t, KEYMAX(t)), avl_val(V.StrS, srt)(e_avl(e).t, KEYMAX(t)), srt


def cand_of(s, e, y):
    """(none flag, candidates object as SV) for year y."""
    none = avl_none(z3.IntSort())(e_y2c(e).t, y)
    ref = avl_val(z3.IntSort(), V.Ref)(e_y2c(e).t, y)
    return none, s.wrap(ref, V.Obj(s.ex.class_q("AbstractAcquiredLotCandidates")))


def meth_of(s, e, y):
    none = avl_none(z3.IntSort())(e_y2m(e).t, y)
    ref = avl_val(z3.IntSort(), V.Ref)(e_y2m(e).t, y)
    return none, s.wrap(ref, V.Obj(s.ex.class_q("AbstractAccountingMethod")))


def lot_inst(s, lots, j):
    return ts(lot_at(s, lots, j)).inst


def window_lookup(s, e):
    """A-AVL for the lot tree: the floor lookup with the max-disambiguator key of instant t returns the last lot not later than t."""
    t, j = z3.Int("wl_t"), z3.Int("wl_j")
    lots = e_lots(e)
    none, rec, srt = ub_rec(s, e, t)
    idx = srt.index(rec)
    return z3.ForAll([t], implies(Not(none), And(0 <= idx, idx < lots.len, srt.acquired_lot(rec) == lots[idx].t, lot_inst(s, lots, idx) <= t,
                                                   z3.ForAll([j], implies(And(idx < j, j < lots.len), lot_inst(s, lots, j) > t)))))


def cands_inv(s, e, t_now):
    """Every candidates object of the engine: shares the engine's lot list and partial-amount map, belongs to the method scheduled for
    the same years, and (chronological ones) is well-formed with a window that does not reach beyond the current event."""
    ex = s.ex
    y = z3.Int("ci_y")
    cn, c = cand_of(s, e, y)
    mn, m = meth_of(s, e, y)
    chron_m = ex.isinstance_term(m.v, ex.class_q("AbstractChronologicalAccountingMethod"))
    feat_m = ex.isinstance_term(m.v, ex.class_q("AbstractFeatureBasedAccountingMethod"))
    chron_c = ex.isinstance_term(c.v, ex.class_q("ChronologicalAcquiredLotCandidates"))
    feat_c = ex.isinstance_term(c.v, ex.class_q("FeatureBasedAcquiredLotCandidates"))
    lots = e_lots(e)
    j = z3.Int("ci_j")
    # `c_heap(c) != lots` below: the heap is a list of its own.  It is stated for every year, also where the lookup returns None or a
    # chronological object (which has no such field): the encoding's value for the missing field is thereby a reference nobody else uses,
    # so that the frame `llen at the candidates' heap` of the engine's methods is harmless there.
    body = And(ex.is_alloc(s.h.heap, c.t), ex.is_alloc(s.h.heap, m.t), ex.class_domain(c.v), ex.class_domain(m.v),
               c_lots(c).t == lots.t, c_P(c).t == e_P(e).t, c.f("AbstractAcquiredLotCandidates._accounting_method").t == m.t,
               chron_m == chron_c, feat_m == feat_c, Or(chron_m, feat_m),
               0 <= c_to(c).t, c_to(c).t < lots.len, lot_inst(s, lots, c_to(c).t) <= t_now,
               implies(chron_c, And(0 <= c_from(c).t, c_from(c).t <= c_to(c).t + 1,
                                    z3.ForAll([j], implies(And(0 <= j, j < c_from(c).t), avail(s, e_P(e), lot_at(s, lots, j)) == 0)))))
    return z3.ForAll([y], And(cn == mn, c_heap(c).t != lots.t, implies(Not(cn), body)))


def c_heap(c): return c.f("FeatureBasedAcquiredLotCandidates.__acquired_lot_heap")


def lots_tx_inv(s, lots):
    j = z3.Int("lt_j")
    return z3.ForAll([j], implies(And(0 <= j, j < lots.len), tx_inv(s, lot_at(s, lots, j))))


def lots_sorted(s, lots):
    i, j = z3.Int("ls_i"), z3.Int("ls_j")
    return z3.ForAll([i, j], implies(And(0 <= i, i < j, j < lots.len), lot_inst(s, lots, i) <= lot_inst(s, lots, j)))


def engine_inv(s, e, t_now):
    lots = e_lots(e)
    return And(lots.len >= 1, lots_valid(s, lots), lots_tx_inv(s, lots), P_valid(s, e_P(e), lots), lots_sorted(s, lots), window_lookup(s, e),
               cands_inv(s, e, t_now))


# ------------------------------------------------------------------ the heap-based half (A-HEAP): assumed contracts
def selection_post(k, cand, old_cand):
    """What both seek implementations promise their caller (the chronological one proves more, contracts/matcher.py): a returned lot is
    one of the window [0, to_index], its amount is all that was available of it (> 0), it becomes 'in flight' and no other lot's
    availability changes."""
    def sel(s):
        if is_none_result(s):
            return z3.BoolVal(True)
        j = z3.Int("sp_j")
        c0 = old_cand(s)
        lots = c_lots(c0)
        lot = s.result.some.acquired_lot
        amt = s.result.some.amount
        return implies(s.result.not_none, And(z3.Exists([j], And(0 <= j, j <= c_to(c0).t, lot.t == lots[j].t)),
                                              amt.t == avail(s.old, c_P(c0), lot), amt.t > 0,
                                              c_P(cand(s)).has(lot), c_P(cand(s))[lot].t == 0))

    def others(s):
        j = z3.Int("so_j")
        c0 = old_cand(s)
        lots = c_lots(c0)
        lj = lot_at(s, lots, j)
        sel_is = (lambda: z3.BoolVal(False)) if is_none_result(s) else (lambda: And(s.result.not_none, lots[j].t == s.result.some.acquired_lot.t))
        return z3.ForAll([j], implies(And(0 <= j, j < lots.len, Not(sel_is())), avail(s, c_P(cand(s)), lj) == avail(s.old, c_P(c0), lot_at(s.old, lots, j))))
    k.ensures("selected_lot_is_in_the_window_with_all_that_is_left_of_it", sel)
    k.ensures("only_the_selected_lot_changes_availability", others)


@external(FEAT + ".seek_non_exhausted_acquired_lot", "A-HEAP: heapq is outside the subset; the heap-based seek is specified by what its caller relies on "
          "(C01's ranking for it is the rank lemma + the bounded stand-in)")
def _(k):
    c = lambda s: s.a.lot_candidates
    oc = lambda s: s.old.a.lot_candidates
    k.requires("feature_based_candidates", lambda s: s.ex.isinstance_term(c(s).some.v, s.ex.class_q("FeatureBasedAcquiredLotCandidates")))
    selection_post(k, c, oc)
    k.ensures("window_kept", lambda s: And(c_to(c(s)).t == c_to(oc(s)).t, c_from(c(s)).t == c_from(oc(s)).t, c_lots(c(s)).t == c_lots(oc(s)).t,
                                           c_P(c(s)).t == c_P(oc(s)).t))
    k.raises("RP2TypeError")
    k.raises("RP2RuntimeError")
    for key in [("dhas", "txid"), ("dval", "txid", "Real")]:
        k.modifies(key, refs=lambda s: [c_P(s.a.lot_candidates)])
    k.modifies(("dlen",), refs=lambda s: [c_P(s.a.lot_candidates)])
    k.modifies(("alloc",))
    k.modifies(("llen",), refs=lambda s: [c_heap(s.a.lot_candidates)])


@external(FCAND + ".set_to_index", "A-HEAP: pushes the lots of [old to_index, to_index] on the heap (heapq outside the subset) and stores to_index")
def _(k):
    k.ensures("to_index_stored", lambda s: c_to(s.a.self).t == s.a.to_index.t)
    k.modifies("AbstractAcquiredLotCandidates.__to_index", refs=lambda s: [s.a.self])
    k.modifies(("alloc",))
    k.modifies(("llen",), refs=lambda s: [c_heap(s.a.self)])
    k.raises_never("Exception")


inline(AE + "._get_accounting_method", AE + "._set_partial_amount", CAND + ".set_to_index")


# ------------------------------------------------------------------ K2
def year_of(s, dt):
    return s.ex.uf("local_year", z3.IntSort(), z3.IntSort())(s.ex.local_us(dt.t))


def engine_frame(k, eng, years):
    """What the engine calls may change: indices of candidates objects, the shared partial-amount map, the heap of the heap-based
    candidates of the year(s) concerned (its length; its tuples are fresh objects), fields of freshly allocated iterators."""
    k.modifies("AbstractAcquiredLotCandidates.__to_index", "AbstractAcquiredLotCandidates.__from_index")
    for key in [("dhas", "txid"), ("dval", "txid", "Real"), ("dlen",)]:
        k.modifies(key, refs=lambda s: [e_P(eng(s))])
    k.modifies(("alloc",))
    k.modifies(("llen",), refs=lambda s: [c_heap(cand_of(s, eng(s), y)[1]) for y in years(s)])
    for f in ("__acquired_lot_list", "__start_index", "__end_index", "__step", "__index", "__order_type"):
        k.modifies("ChronologicalAccountingMethodIterator." + f, refs=lambda s: [], fresh_only=True)


@contract(AE + ".get_acquired_lot_for_taxable_event", props=["C01", "C02", "C09"])
def _(k):
    me = lambda s: s.a.self
    te = lambda s: s.a.taxable_event
    k.requires("engine_inv", lambda s: engine_inv(s, me(s), ts(te(s)).inst))
    k.requires("event_inv", lambda s: tx_inv(s, te(s)))

    def handed_over(s):
        r = s.result
        return And(r.taxable_event.t == te(s).t, r.taxable_event_amount.t == s.a.taxable_event_amount.t - s.a.acquired_lot_amount.t)

    def lot(s):
        r = s.result
        l = r.acquired_lot
        P0 = e_P(s.old.a.self)
        m = z3.Int("k2_m")
        lots = e_lots(s.old.a.self)
        return And(l.not_none, z3.Exists([m], And(0 <= m, m < lots.len, lots[m].t == l.t)),          # one of the engine's lots
                   tx_inv(s, l.some), ts(l.some).inst <= ts(te(s)).inst,                              # C02: no fraction from a lot acquired after the disposal
                   r.acquired_lot_amount.t == avail(s.old, P0, l.some), r.acquired_lot_amount.t > 0,   # all that is left of it, and something is left
                   e_P(me(s)).has(l.some), e_P(me(s))[l.some].t == 0)                                 # in flight

    def others(s):
        j = z3.Int("k2_j")
        lots = e_lots(s.old.a.self)
        return z3.ForAll([j], implies(And(0 <= j, j < lots.len, lots[j].t != s.result.acquired_lot.t),
                                      avail(s, e_P(me(s)), lot_at(s, lots, j)) == avail(s.old, e_P(s.old.a.self), lot_at(s.old, lots, j))))
    k.ensures("same_event_and_what_is_left_of_it", handed_over)
    k.ensures("lot_not_later_than_the_event_with_all_that_is_left_of_it", lot)
    k.ensures("only_the_selected_lot_changes_availability", others)
    k.ensures("engine_inv", lambda s: engine_inv(s, me(s), ts(te(s)).inst))
    k.ensures("engine_fields_kept", lambda s: And(*[f(me(s)).t == f(s.old.a.self).t for f in (e_it, e_lots, e_P, e_avl, e_y2c, e_y2m)]))
    k.raises("AcquiredLotsExhaustedException")
    k.raises("RP2RuntimeError")
    k.raises("RP2TypeError")
    engine_frame(k, me, lambda s: [year_of(s, ts(te(s)))])


# ------------------------------------------------------------------ K1
from .matcher import set_txs_valid, only_taxable, tx_of
from .transactions import grid11, rowid

FAR_PAST = -10 ** 30


def t_of_opt(te):
    """Instant of an optional event; 'long ago' when there is none yet (first call of the matcher)."""
    return z3.If(te.is_none, z3.IntVal(FAR_PAST), ts(te.some).inst)


def events_of(e): return it_set(e_it(e))


def event_stream_ok(s, e):
    """The engine's event iterator runs over a chronologically sorted, all-time set of valid taxable transactions."""
    it = e_it(e)
    es = it_set(it)
    j, y = z3.Int("ev_j"), z3.Int("ev_y")
    cn, c = cand_of(s, e, y)
    feat_c = s.ex.isinstance_term(c.v, s.ex.class_q("FeatureBasedAcquiredLotCandidates"))
    return And(it_wf(s, it), efrom(es).t == MIN_DAY, eto(es).t == MAX_DAY, sorted_inst(s, es), set_txs_valid(s, es), only_taxable(s, elist(es)),
               # every date lies in date's range (type invariant of datetime.date): with the all-time window nothing is skipped
               z3.ForAll([j], implies(And(0 <= j, j < elist(es).len), And(MIN_DAY <= entry_day(s, elist(es)[j]), entry_day(s, elist(es)[j]) <= MAX_DAY))),
               # separation: the event list is neither the lot list nor the heap of a heap-based candidates object
               elist(es).t != e_lots(e).t, z3.ForAll([y], c_heap(c).t != elist(es).t))


def lot_in_hand_ok(s, e, lot, remaining):
    """The lot in hand is one of the engine's lots, what remains of it is a non-negative grid amount, and no chronological candidates
    object has moved its from_index past it unless nothing remains (from_index only ever passes exhausted lots)."""
    j, y = z3.Int("lh_j"), z3.Int("lh_y")
    lots = e_lots(e)
    cn, c = cand_of(s, e, y)
    chron_c = s.ex.isinstance_term(c.v, s.ex.class_q("ChronologicalAcquiredLotCandidates"))
    return implies(lot.not_none, And(remaining >= 0, grid11(remaining),
                                     z3.Exists([j], And(0 <= j, j < lots.len, lots[j].t == lot.t,
                                                        z3.ForAll([y], implies(And(Not(cn), chron_c, remaining > 0), c_from(c).t <= j))))))


@contract(AE + ".get_next_taxable_event_and_amount", props=["C01", "C02", "C03", "C09"])
def _(k):
    me = lambda s: s.a.self
    te = lambda s: s.a.taxable_event
    lot = lambda s: s.a.acquired_lot
    rem = lambda s: s.a.acquired_lot_amount.t - s.a.taxable_event_amount.t
    k.requires("event_stream", lambda s: event_stream_ok(s, me(s)))
    k.requires("engine_inv", lambda s: engine_inv(s, me(s), t_of_opt(te(s))))
    k.requires("current_event_is_the_one_before_the_iterator", lambda s: implies(te(s).not_none, And(it_index(e_it(me(s))).t >= 1,
               elist(events_of(me(s)))[it_index(e_it(me(s))).t - 1].t == te(s).t)))
    k.requires("lot_in_hand", lambda s: lot_in_hand_ok(s, me(s), lot(s), rem(s)))

    def nxt(s):
        it0 = e_it(s.old.a.self)
        i0 = it_index(it0).t
        r = s.result
        return And(it_index(e_it(me(s))).t == i0 + 1, r.taxable_event.t == elist(events_of(me(s)))[i0].t,              # C03: no event skipped
                   r.taxable_event_amount.t == cbc_field(s, r.taxable_event),                                          # C02: its full amount
                   implies(te(s).not_none, ts(te(s).some).inst <= ts(r.taxable_event).inst))

    def newer(s):
        return And(te(s).not_none, ts(te(s).some).inst < ts(s.result.taxable_event).inst)

    def kept(s):
        # same instant (or first event): the lot stays in hand with what is left of it; nothing is written back
        r = s.result
        j = z3.Int("k1_j")
        lots = e_lots(s.old.a.self)
        return implies(Not(newer(s)), And(r.acquired_lot.is_none == lot(s).is_none, implies(lot(s).not_none, r.acquired_lot.t == lot(s).t),
                                          r.acquired_lot_amount.t == z3.If(lot(s).is_none, z3.RealVal(0), rem(s)),
                                          z3.ForAll([j], implies(And(0 <= j, j < lots.len),
                                                                 avail(s, e_P(me(s)), lot_at(s, lots, j)) == avail(s.old, e_P(s.old.a.self), lot_at(s.old, lots, j))))))

    def reseek(s):
        # a newer event: the remainder of the lot in hand is written back (C01/C02: balances carry over), then the method chooses again
        r = s.result
        l = r.acquired_lot
        P0 = e_P(s.old.a.self)
        was = lambda x: z3.If(And(lot(s).not_none, x.t == lot(s).t), rem(s), avail(s.old, P0, x))
        lots = e_lots(s.old.a.self)
        j = z3.Int("k1_j")
        lots = e_lots(s.old.a.self)
        m = z3.Int("k1_m")
        return implies(newer(s), And(l.not_none, z3.Exists([m], And(0 <= m, m < lots.len, lots[m].t == l.t)),
                                     ts(l.some).inst <= ts(r.taxable_event).inst, r.acquired_lot_amount.t == was(l.some), r.acquired_lot_amount.t > 0,
                                     e_P(me(s)).has(l.some), e_P(me(s))[l.some].t == 0,
                                     # a lot of which nothing remains is not the one handed out (C02), also not under another object of equal id
                                     implies(And(lot(s).not_none, rem(s) == 0), And(l.t != lot(s).t, rowid(l.some).t != rowid(lot(s).some).t)),
                                     z3.ForAll([j], implies(And(0 <= j, j < lots.len, lots[j].t != l.t),
                                                            avail(s, e_P(me(s)), lot_at(s, lots, j)) == was(lot_at(s.old, lots, j))))))
    k.ensures("next_event_with_its_full_amount", nxt)
    k.ensures("same_instant_keeps_the_lot_in_hand", kept)
    k.ensures("newer_event_writes_the_remainder_back_and_seeks_again", reseek)
    k.ensures("engine_inv", lambda s: engine_inv(s, me(s), ts(s.result.taxable_event).inst))
    k.ensures("event_stream", lambda s: event_stream_ok(s, me(s)))
    k.ensures("engine_fields_kept", lambda s: And(*[f(me(s)).t == f(s.old.a.self).t for f in (e_it, e_lots, e_P, e_avl, e_y2c, e_y2m)]))
    k.raises("TaxableEventsExhaustedException", when=lambda s: it_index(e_it(s.a.self)).t == it_size(e_it(s.a.self)).t, iff=True)
    k.raises("AcquiredLotsExhaustedException")
    k.raises("RP2RuntimeError")
    k.raises("RP2TypeError")
    k.modifies("EntrySetIterator.__index", refs=lambda s: [e_it(s.a.self)])
    k.modifies("AbstractAcquiredLotCandidates.__to_index", "AbstractAcquiredLotCandidates.__from_index")
    for key in [("dhas", "txid"), ("dval", "txid", "Real"), ("dlen",)]:
        k.modifies(key, refs=lambda s: [e_P(s.a.self)])
    k.modifies(("alloc",))
    # the heap of the candidates of the next event's year (the next event is the list element at the iterator's old position)
    k.modifies(("llen",), refs=lambda s: [c_heap(cand_of(s, s.a.self, year_of(s, ts(elist(events_of(s.a.self))[it_index(e_it(s.a.self)).t])))[1])])
    k.no_merge = True
    for f in ("__acquired_lot_list", "__start_index", "__end_index", "__step", "__index", "__order_type"):
        k.modifies("ChronologicalAccountingMethodIterator." + f, refs=lambda s: [], fresh_only=True)


# ------------------------------------------------------------------ K3: tax_engine._get_next_taxable_event_and_acquired_lot
TE = "rp2.tax_engine"


def in_flight(s, e, lot):
    """What the seek guarantees of the lot it hands out: its stored partial amount is zero while the matcher holds it."""
    return implies(lot.not_none, And(e_P(e).has(lot.some), e_P(e)[lot.some].t == 0))


@contract(TE + "._get_next_taxable_event_and_acquired_lot", props=["C01", "C02", "C03", "C09"])
def _(k):
    me = lambda s: s.a.accounting_engine
    te = lambda s: s.a.taxable_event
    lot = lambda s: s.a.acquired_lot
    rem = lambda s: s.a.acquired_lot_amount.t - s.a.taxable_event_amount.t
    k.requires("event_stream", lambda s: event_stream_ok(s, me(s)))
    k.requires("engine_inv", lambda s: engine_inv(s, me(s), t_of_opt(te(s))))
    k.requires("current_event_is_the_one_before_the_iterator", lambda s: implies(te(s).not_none, And(it_index(e_it(me(s))).t >= 1,
               elist(events_of(me(s)))[it_index(e_it(me(s))).t - 1].t == te(s).t)))
    # called when the event has used up the lot in hand (or there is none yet): nothing remains of it and it is still marked in flight
    k.requires("lot_in_hand_is_used_up", lambda s: And(implies(lot(s).not_none, rem(s) == 0), lot_in_hand_ok(s, me(s), lot(s), rem(s)), in_flight(s, me(s), lot(s))))

    def nxt(s):
        i0 = it_index(e_it(s.old.a.accounting_engine)).t
        r = s.result
        return And(it_index(e_it(me(s))).t == i0 + 1, r.taxable_event.t == elist(events_of(me(s)))[i0].t,
                   r.taxable_event_amount.t == cbc_field(s, r.taxable_event),
                   implies(te(s).not_none, ts(te(s).some).inst <= ts(r.taxable_event).inst))

    def fresh_lot(s):
        r = s.result
        l = r.acquired_lot
        P0 = e_P(s.old.a.accounting_engine)
        j = z3.Int("k3_j")
        lots = e_lots(s.old.a.accounting_engine)
        m = z3.Int("k3_m")
        return And(l.not_none, z3.Exists([m], And(0 <= m, m < lots.len, lots[m].t == l.t)),
                   ts(l.some).inst <= ts(r.taxable_event).inst, r.acquired_lot_amount.t == avail(s.old, P0, l.some), r.acquired_lot_amount.t > 0,
                   e_P(me(s)).has(l.some), e_P(me(s))[l.some].t == 0,
                   implies(lot(s).not_none, l.t != lot(s).t),                                   # C02: a used-up lot is never handed out again
                   z3.ForAll([j], implies(And(0 <= j, j < lots.len, lots[j].t != l.t),
                                          avail(s, e_P(me(s)), lot_at(s, lots, j)) == avail(s.old, P0, lot_at(s.old, lots, j)))))
    k.ensures("next_event_with_its_full_amount", nxt)
    k.ensures("a_lot_with_something_left_not_later_than_the_event", fresh_lot)
    k.ensures("engine_inv", lambda s: engine_inv(s, me(s), ts(s.result.taxable_event).inst))
    k.ensures("event_stream", lambda s: event_stream_ok(s, me(s)))
    k.ensures("engine_fields_kept", lambda s: And(*[f(me(s)).t == f(s.old.a.accounting_engine).t for f in (e_it, e_lots, e_P, e_avl, e_y2c, e_y2m)]))
    k.raises("TaxableEventsExhaustedException", when=lambda s: it_index(e_it(s.a.accounting_engine)).t == it_size(e_it(s.a.accounting_engine)).t, iff=True)
    k.raises("AcquiredLotsExhaustedException")
    k.raises("RP2RuntimeError")
    k.raises("RP2TypeError")
    k.modifies("EntrySetIterator.__index", refs=lambda s: [e_it(s.a.accounting_engine)])
    k.modifies("AbstractAcquiredLotCandidates.__to_index", "AbstractAcquiredLotCandidates.__from_index")
    for key in [("dhas", "txid"), ("dval", "txid", "Real"), ("dlen",)]:
        k.modifies(key, refs=lambda s: [e_P(s.a.accounting_engine)])
    k.modifies(("alloc",))
    k.modifies(("llen",), refs=lambda s: [c_heap(cand_of(s, s.a.accounting_engine, year_of(s, ts(elist(events_of(s.a.accounting_engine))[it_index(e_it(s.a.accounting_engine)).t])))[1])])
    for f in ("__acquired_lot_list", "__start_index", "__end_index", "__step", "__index", "__order_type"):
        k.modifies("ChronologicalAccountingMethodIterator." + f, refs=lambda s: [], fresh_only=True)
    k.no_merge = True
