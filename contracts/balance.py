"""BalanceSet (balance.py): C07 (balances equal the flows of each account), C08 (overdrawn histories are rejected unless -n).

Spec folds over the chronological flow list T (DESIGN 5.2 `flows(H)`: IN, INTRA, OUT entries stably sorted by instant):
  BQ_acquired / BQ_sent / BQ_received (T, n, a)   sums over the first n flows of what the statement of C07 attributes to account a
  BT(T, n, a)                                      number of the first n flows that touch account a
  CUT(T, d)                                        the to-date cut: first index whose own calendar date is past d (len(T) if none)
  RB(T, n, a) = acquired + received - sent         the running balance of account a after n flows
"""
import z3
from pyvc import vals as V
from pyvc.spec import contract, external, inline, invariant, hint, And, Or, Not, implies, ite, R
from .transactions import ts, i_in, o_, x_, is_in, is_out, is_intra, tx_inv
from .entry_set import elist, efrom, eto, es_inv, sorted_inst, local_day, entry_ts, inst_of, sort_frame, AES, in_window
from .computed_data import MIN_DAY, MAX_DAY

BS = "rp2.balance.BalanceSet"
ACC = "rp2.balance.Account"
BAL = "rp2.balance.Balance"
KINDS = ["acquired", "sent", "received"]
TEN = z3.RealVal("1e-10")


def acc_sort(s): return s.ex.rec_sort(ACC)[0]
def mk_acc(s, ex_, ho): return acc_sort(s).mk(ex_, ho)
def BQ(s, kind): return s.ex.uf("BQ_" + kind, V.Ref, z3.IntSort(), acc_sort(s), z3.RealSort())
def BT(s): return s.ex.uf("BT", V.Ref, z3.IntSort(), acc_sort(s), z3.IntSort())
def CUT(s): return s.ex.uf("BCUT", V.Ref, z3.IntSort(), z3.IntSort())


def RB(s, T, n, a):
    return BQ(s, "acquired")(T, n, a) + BQ(s, "received")(T, n, a) - BQ(s, "sent")(T, n, a)


def tx_at(s, T, n):
    """n-th flow as a transaction object (T: SV of the list)."""
    return s.wrap(T[n].t, V.Obj(s.ex.class_q("AbstractTransaction")))


def tx_day(s, t):
    return local_day(s, ts(t).t)


def contrib(s, t, kind, a):
    """Statement of C07: acquired = crypto received from in-transactions; sent = outgoing amounts plus fees, and transfers sent;
    received = transfers received."""
    frm_io = mk_acc(s, i_in(t, "exchange").t, i_in(t, "holder").t)
    frm_out = mk_acc(s, o_(t, "exchange").t, o_(t, "holder").t)
    frm_x = mk_acc(s, x_(t, "from_exchange").t, x_(t, "from_holder").t)
    to_x = mk_acc(s, x_(t, "to_exchange").t, x_(t, "to_holder").t)
    zero = z3.RealVal(0)
    if kind == "acquired":
        return z3.If(And(is_in(t), a == frm_io), i_in(t, "crypto_in").t, zero)
    if kind == "sent":
        return z3.If(And(is_out(t), a == frm_out), o_(t, "crypto_out_no_fee").t + o_(t, "crypto_fee").t,
                     z3.If(And(is_intra(t), a == frm_x), x_(t, "crypto_sent").t, zero))
    if kind == "received":
        return z3.If(And(is_intra(t), a == to_x), x_(t, "crypto_received").t, zero)
    raise KeyError(kind)


def touches(s, t, a):
    return Or(And(is_in(t), a == mk_acc(s, i_in(t, "exchange").t, i_in(t, "holder").t)),
              And(is_out(t), a == mk_acc(s, o_(t, "exchange").t, o_(t, "holder").t)),
              And(is_intra(t), Or(a == mk_acc(s, x_(t, "from_exchange").t, x_(t, "from_holder").t),
                                  a == mk_acc(s, x_(t, "to_exchange").t, x_(t, "to_holder").t))))


def fold_base(s, T):
    a = z3.Const("bb_a", acc_sort(s))
    return z3.ForAll([a], And(BT(s)(T, 0, a) == 0, *[BQ(s, k)(T, 0, a) == 0 for k in KINDS]))


def fold_step(s, Tsv, n):
    a = z3.Const("bs_a", acc_sort(s))
    t = tx_at(s, Tsv, n)
    T = Tsv.t
    return z3.ForAll([a], And(BT(s)(T, n + 1, a) == BT(s)(T, n, a) + z3.If(touches(s, t, a), 1, 0),
                              *[BQ(s, k)(T, n + 1, a) == BQ(s, k)(T, n, a) + contrib(s, t, k, a) for k in KINDS]))


def cut_def(s, Tsv, n, to_day):
    j = z3.Int("bc_j")
    return And(0 <= n, n <= Tsv.len, z3.ForAll([j], implies(And(0 <= j, j < n), tx_day(s, tx_at(s, Tsv, j)) <= to_day)),
               Or(n == Tsv.len, tx_day(s, tx_at(s, Tsv, n)) > to_day))


def names_configured(s, cfg, t):
    """Constructor postcondition (exchange_holder_known / accounts_known): the account names of a transaction are configured."""
    exs, hos = cfg.f("Configuration.__exchanges"), cfg.f("Configuration.__holders")
    return And(implies(is_in(t), And(exs.has(i_in(t, "exchange")), hos.has(i_in(t, "holder")))),
               implies(is_out(t), And(exs.has(o_(t, "exchange")), hos.has(o_(t, "holder")))),
               implies(is_intra(t), And(exs.has(x_(t, "from_exchange")), hos.has(x_(t, "from_holder")), exs.has(x_(t, "to_exchange")), hos.has(x_(t, "to_holder")))))


def flows_valid(s, Tsv, cfg=None):
    """Every flow is a valid transaction (constructor postcondition) with non-negative amounts (5.1: crypto_in > 0)."""
    j = z3.Int("fv_j")
    t = tx_at(s, Tsv, j)
    cfg = cfg if cfg is not None else s.v.configuration
    return z3.ForAll([j], implies(And(0 <= j, j < Tsv.len),
                                  And(s.ex.isinstance_term(Tsv[j].some.v, s.ex.class_q("AbstractTransaction")), tx_inv(s, t), names_configured(s, cfg, t),
                                      implies(is_in(t), i_in(t, "crypto_in").t > 0),
                                      implies(is_out(t), And(o_(t, "crypto_out_no_fee").t >= 0, o_(t, "crypto_fee").t >= 0)),
                                      implies(is_intra(t), And(x_(t, "crypto_sent").t >= 0, x_(t, "crypto_received").t >= 0)))))


T_TY = lambda s: V.ListT(V.Obj(s.ex.class_q("AbstractEntry")))


# ------------------------------------------------------------------ list(<entry set>): A-LISTITER, derived from the iterator contract
def set_entries_valid(s, es, cfg):
    j = z3.Int("sv_j")
    L = elist(es)
    t = s.wrap(L[j].t, V.Obj(s.ex.class_q("AbstractTransaction")))
    return z3.ForAll([j], implies(And(0 <= j, j < L.len),
                                  And(s.ex.isinstance_term(L[j].some.v, s.ex.class_q("AbstractTransaction")), tx_inv(s, t), names_configured(s, cfg, t),
                                      MIN_DAY <= tx_day(s, t), tx_day(s, t) <= MAX_DAY,
                                      implies(is_in(t), i_in(t, "crypto_in").t > 0),
                                      implies(is_out(t), And(o_(t, "crypto_out_no_fee").t >= 0, o_(t, "crypto_fee").t >= 0)),
                                      implies(is_intra(t), And(x_(t, "crypto_sent").t >= 0, x_(t, "crypto_received").t >= 0)))))


@external("builtins.list:" + AES, "A-LISTITER: list(entry_set) collects what iterating the set yields (Python's definition of list(iterable)); with the "
          "verified contracts of __iter__/__next__ that is, for a chronologically sorted transaction set whose window contains every entry: the "
          "set's list is left as it is (a stable sort of a sorted list is the identity) and the result is a fresh copy of it")
def _(k):
    from .entry_set import DICT_KEYS
    k.params = ["iterable"]
    k.fresh_result = True
    k.elem_type = lambda ex: V.Obj(ex.class_q("AbstractEntry"))
    me, old_me = (lambda s: s.a.iterable), (lambda s: s.old.a.iterable)

    def all_in_window(s):
        j = z3.Int("lc_j")
        L = elist(me(s))
        return z3.ForAll([j], implies(And(0 <= j, j < L.len), in_window(s, me(s), L[j])))
    # stated for the only use in rp2 (BalanceSet over the unfiltered, already sorted transaction sets); then the iterator skips nothing
    k.requires("chronological_transaction_set", lambda s: And(sorted_inst(s, me(s)), Not(s.ex.isinstance_term(me(s).some.v, s.ex.class_q("GainLossSet")))))
    k.requires("window_contains_every_entry", all_in_window)

    def copy(s):
        j = z3.Int("lc_j")
        L = elist(me(s))
        return And(s.result.len == L.len, z3.ForAll([j], implies(And(0 <= j, j < L.len), s.result[j].t == L[j].t)))
    k.ensures("copy_of_the_entry_list", copy)
    k.ensures("fresh_list", lambda s: And(Not(s.ex.is_alloc(s.oh.heap, s.result.t)), s.result.t != elist(me(s)).t))
    # frame: the sorted flag of the set, its parent map (rewritten when the flag was off), fresh objects, and the new list
    k.modifies("AbstractEntrySet.__is_sorted", refs=lambda s: [me(s)])
    for key in DICT_KEYS:
        k.modifies(key, refs=lambda s: [me(s).f("AbstractEntrySet._entry_to_parent")], fresh_only=True)
    k.modifies(("alloc",))
    k.modifies(("lel", "Ref"), refs=lambda s: [s.result])
    k.modifies(("llen",), refs=lambda s: [s.result])
    for f in ("EntrySetIterator.__entry_set", "EntrySetIterator.__entry_set_size", "EntrySetIterator.__index"):
        k.modifies(f, refs=lambda s: [], fresh_only=True)


# ------------------------------------------------------------------ BalanceSet.__init__
def id_unf(d, which): return d.f(f"InputData.__unfiltered_{which}_transaction_set")


@contract(BS + ".__init__", props=["C07", "C08"])
def _(k):
    def T(s): return s.witness("transactions", T_TY(s))
    def to_day(s): return s.a.to_date.t
    def allow(s): return s.a.configuration.f("Configuration.__allow_negative_balances").t
    def n_cut(s): return CUT(s)(T(s).t, to_day(s))
    sets = lambda s: [id_unf(s.a.input_data, w) for w in ("in", "intra", "out")]
    k.requires("asset_is_configured", lambda s: s.a.configuration.f("Configuration.__assets").has(s.a.input_data.f("InputData.__asset")))
    # InputData.__init__ has sorted the three unfiltered sets (its postcondition all_chronological, C10); their windows span all time
    k.requires("unfiltered_sets", lambda s: And(*[And(efrom(e).t == MIN_DAY, eto(e).t == MAX_DAY, sorted_inst(s, e), set_entries_valid(s, e, s.a.configuration)) for e in sets(s)]))
    k.requires("distinct_sets", lambda s: And(elist(sets(s)[0]).t != elist(sets(s)[1]).t, elist(sets(s)[0]).t != elist(sets(s)[2]).t,
                                              elist(sets(s)[1]).t != elist(sets(s)[2]).t,
                                              *[e.f("AbstractEntrySet._entry_to_parent").t != elist(e2).t for e in sets(s) for e2 in sets(s)]))

    # ---- the flow list: chronological, made of exactly the entries of the three sets
    def flows(s):
        Tv = T(s)
        i, j = z3.Int("fl_i"), z3.Int("fl_j")
        Ls = [elist(e) for e in sets(s)]
        # (that the flow list holds exactly the entries of the three sets is the composition of A-LISTITER, list concatenation and A-SORT;
        #  it is not restated here as a quantified membership clause - the bounded native stand-in compares against the raw rows)
        return And(Tv.len == Ls[0].len + Ls[1].len + Ls[2].len,
                   z3.ForAll([i, j], implies(And(0 <= i, i < j, j < Tv.len), V.DT.inst(ts(tx_at(s, Tv, i)).t) <= V.DT.inst(ts(tx_at(s, Tv, j)).t))),
                   flows_valid(s, Tv, s.a.configuration))
    k.ensures("flows_are_chronological_valid_and_as_many_as_the_three_sets_hold", flows)
    k.ensures("cut_is_the_first_flow_dated_after_the_to_date", lambda s: cut_def(s, T(s), n_cut(s), to_day(s)))

    def bsort(s): return s.ex.rec_sort(BAL)[0]
    def blist(s): return s.a.self.f("BalanceSet._balances")

    def lines(s):
        i = z3.Int("bl_i")
        B = blist(s)
        b = B[i].t
        srt = bsort(s)
        a = mk_acc(s, srt.exchange(b), srt.holder(b))
        Tt, n = T(s).t, n_cut(s)
        return z3.ForAll([i], implies(And(0 <= i, i < B.len),
                                      And(BT(s)(Tt, n, a) > 0,
                                          srt.acquired_balance(b) == BQ(s, "acquired")(Tt, n, a), srt.sent_balance(b) == BQ(s, "sent")(Tt, n, a),
                                          srt.received_balance(b) == BQ(s, "received")(Tt, n, a), srt.final_balance(b) == RB(s, Tt, n, a),
                                          srt.asset(b) == s.a.self.f("BalanceSet.__asset").t)))

    def every_account(s):
        a = z3.Const("ea_a", acc_sort(s))
        i = z3.Int("ea_i")
        B = blist(s)
        srt = bsort(s)
        return z3.ForAll([a], implies(BT(s)(T(s).t, n_cut(s), a) > 0,
                                      z3.Exists([i], And(0 <= i, i < B.len, mk_acc(s, srt.exchange(B[i].t), srt.holder(B[i].t)) == a))))

    def once(s):
        i, j = z3.Int("bo_i"), z3.Int("bo_j")
        B = blist(s)
        srt = bsort(s)
        acc = lambda x: mk_acc(s, srt.exchange(B[x].t), srt.holder(B[x].t))
        return z3.ForAll([i, j], implies(And(0 <= i, i < j, j < B.len), acc(i) != acc(j)))
    k.ensures("every_balance_equals_the_flows_of_its_account_up_to_the_to_date", lines)         # C07
    k.ensures("every_touched_account_has_a_line", every_account)
    k.ensures("one_line_per_account", once)

    # ---- C08
    def never_overdrawn(s):
        m = z3.Int("no_m")
        a = z3.Const("no_a", acc_sort(s))
        return implies(Not(allow(s)), z3.ForAll([m, a], implies(And(0 <= m, m <= n_cut(s)), RB(s, T(s).t, m, a) >= -TEN)))
    k.ensures("accepted_without_n_only_if_no_running_balance_drops_below_minus_1e-10", never_overdrawn)

    def rejected_only_if_overdrawn(s):
        # existential witnesses: the position just after the offending flow and the debited account (locals of the loop at the raise)
        m = s.witness("$i0", V.INT).t
        a = s.witness("from_account", V.Rec(ACC)).t
        return And(Not(allow(s)), 0 <= m, m <= n_cut(s), RB(s, T(s).t, m, a) < 0)
    k.raises("RP2ValueError")
    k.raises("RP2TypeError")
    k.raises_ensures("RP2ValueError", "rejected_only_when_a_running_balance_is_negative_and_n_is_off", rejected_only_if_overdrawn)


@invariant(BS + ".__init__", loop=0)
def _(iv):
    def T(s): return s.v.transactions
    def i(s): return getattr(s.v, "$i0").t
    def to_day(s): return s.v.to_date.t
    def allow(s): return s.v.configuration.f("Configuration.__allow_negative_balances").t

    def before_cut(s):
        j = z3.Int("bc_j")
        return And(0 <= i(s), i(s) <= T(s).len, z3.ForAll([j], implies(And(0 <= j, j < i(s)), tx_day(s, tx_at(s, T(s), j)) <= to_day(s))))
    iv.inv("all_processed_flows_are_dated_up_to_the_to_date", before_cut)
    iv.inv("flows_valid", lambda s: flows_valid(s, T(s)))

    def fold(kind, dname):
        def f(s):
            a = z3.Const("fi_a", acc_sort(s))
            av = s.wrap(a, V.Rec(ACC))
            d = getattr(s.v, dname)
            return z3.ForAll([a], z3.If(d.has(av), d[av].t, z3.RealVal(0)) == BQ(s, kind)(T(s).t, i(s), a))
        return f
    iv.inv("acquired_is_the_fold", fold("acquired", "acquired_balances"))
    iv.inv("sent_is_the_fold", fold("sent", "sent_balances"))
    iv.inv("received_is_the_fold", fold("received", "received_balances"))

    def final(s):
        a = z3.Const("fi_a", acc_sort(s))
        av = s.wrap(a, V.Rec(ACC))
        d = s.v.final_balances
        return z3.ForAll([a], z3.If(d.has(av), d[av].t, z3.RealVal(0)) == RB(s, T(s).t, i(s), a))
    iv.inv("final_is_acquired_plus_received_minus_sent", final)

    def dom(s):
        a = z3.Const("fi_a", acc_sort(s))
        av = s.wrap(a, V.Rec(ACC))
        return z3.ForAll([a], And(s.v.final_balances.has(av) == (BT(s)(T(s).t, i(s), a) > 0), BT(s)(T(s).t, i(s), a) >= 0))
    iv.inv("final_has_exactly_the_touched_accounts", dom)

    def configured(s):
        a = z3.Const("fi_a", acc_sort(s))
        av = s.wrap(a, V.Rec(ACC))
        cfg = s.v.configuration
        return z3.ForAll([a], implies(s.v.final_balances.has(av), And(cfg.f("Configuration.__exchanges").has(s.wrap(acc_sort(s).exchange(a), V.STR)),
                                                                      cfg.f("Configuration.__holders").has(s.wrap(acc_sort(s).holder(a), V.STR)))))
    iv.inv("accounts_are_configured", configured)

    def no_overdraft(s):
        m = z3.Int("no_m")
        a = z3.Const("no_a", acc_sort(s))
        return implies(Not(allow(s)), z3.ForAll([m, a], implies(And(0 <= m, m <= i(s)), RB(s, T(s).t, m, a) >= -TEN)))
    iv.inv("no_running_balance_below_minus_1e-10_so_far", no_overdraft)
    iv.unfold("fold_base", lambda s: fold_base(s, T(s).t))
    iv.unfold("fold_step", lambda s: implies(i(s) < T(s).len, fold_step(s, T(s), i(s))))
    iv.unfold("cut", lambda s: cut_def(s, T(s), CUT(s)(T(s).t, to_day(s)), to_day(s)))


@invariant(BS + ".__init__", loop=1)
def _(iv):
    def T(s): return s.v.transactions
    def to_day(s): return s.v.to_date.t
    def n(s): return CUT(s)(T(s).t, to_day(s))
    def allow(s): return s.v.configuration.f("Configuration.__allow_negative_balances").t
    iv.inv("cut", lambda s: cut_def(s, T(s), n(s), to_day(s)))

    def fold(kind, dname):
        def f(s):
            a = z3.Const("fi_a", acc_sort(s))
            av = s.wrap(a, V.Rec(ACC))
            d = getattr(s.v, dname)
            return z3.ForAll([a], z3.If(d.has(av), d[av].t, z3.RealVal(0)) == BQ(s, kind)(T(s).t, n(s), a))
        return f
    iv.inv("at_the_cut.acquired", fold("acquired", "acquired_balances"))
    iv.inv("at_the_cut.sent", fold("sent", "sent_balances"))
    iv.inv("at_the_cut.received", fold("received", "received_balances"))

    def final(s):
        a = z3.Const("fi_a", acc_sort(s))
        av = s.wrap(a, V.Rec(ACC))
        d = s.v.final_balances
        return z3.ForAll([a], And(z3.If(d.has(av), d[av].t, z3.RealVal(0)) == RB(s, T(s).t, n(s), a),
                                  d.has(av) == (BT(s)(T(s).t, n(s), a) > 0)))
    iv.inv("at_the_cut.final_and_domain", final)

    def no_overdraft(s):
        m = z3.Int("no_m")
        a = z3.Const("no_a", acc_sort(s))
        return implies(Not(allow(s)), z3.ForAll([m, a], implies(And(0 <= m, m <= n(s)), RB(s, T(s).t, m, a) >= -TEN)))
    iv.inv("at_the_cut.no_overdraft", no_overdraft)

    def configured(s):
        a = z3.Const("fi_a", acc_sort(s))
        av = s.wrap(a, V.Rec(ACC))
        cfg = s.v.configuration
        return z3.ForAll([a], implies(s.v.final_balances.has(av), And(cfg.f("Configuration.__exchanges").has(s.wrap(acc_sort(s).exchange(a), V.STR)),
                                                                      cfg.f("Configuration.__holders").has(s.wrap(acc_sort(s).holder(a), V.STR)))))
    iv.inv("accounts_are_configured", configured)

    def built(s):
        ex = s.ex
        srt = ex.rec_sort(BAL)[0]
        asrt = acc_sort(s)
        j = z3.Int("bu_j")
        i1 = getattr(s.v, "$i1").t
        B = s.v.self.f("BalanceSet._balances")
        d = s.v.final_balances
        order = ex.uf("dorder_" + V.sort_key(asrt), V.Ref, z3.IntSort(), asrt)
        a = order(d.t, j)
        b = B[j].t
        Tt, nn = T(s).t, n(s)
        return And(B.len == i1, 0 <= i1, i1 <= d.len,
                   z3.ForAll([j], implies(And(0 <= j, j < i1),
                                          And(srt.exchange(b) == asrt.exchange(a), srt.holder(b) == asrt.holder(a), srt.asset(b) == s.v.self.f("BalanceSet.__asset").t,
                                              srt.final_balance(b) == RB(s, Tt, nn, a), srt.acquired_balance(b) == BQ(s, "acquired")(Tt, nn, a),
                                              srt.sent_balance(b) == BQ(s, "sent")(Tt, nn, a), srt.received_balance(b) == BQ(s, "received")(Tt, nn, a)))))
    iv.inv("one_balance_per_visited_account", built)


# ------------------------------------------------------------------ cut assertions (proof guidance only: each is proved where it stands)
def list_valid(s, Lsv):
    return flows_valid(s, Lsv)


for _var, _occ in (("in_transactions", 0), ("intra_transactions", 0), ("out_transactions", 0), ("transactions", 0), ("transactions", 1)):
    def _mk(var):
        @hint(BS + ".__init__", var, _occ)
        def _(iv):
            iv.inv("every_element_is_a_valid_transaction", lambda s: flows_valid(s, getattr(s.v, var)))
            if var != "transactions":
                return
            iv.inv("earlier_lists_still_valid", lambda s: And(*[flows_valid(s, getattr(s.v, v)) for v in ("in_transactions", "intra_transactions", "out_transactions")]))
    _mk(_var)


# ------------------------------------------------------------------ C07 reconciliation (pure arithmetic over the sums)
from pyvc.spec import lemma


@lemma("C07.reconciliation", props=["C07"])
def _(lm):
    """Sum over accounts of final balances = total left unconsumed in lots, for to-date = MAX.
    Hypotheses: per-account equations (proved above) summed over accounts: F = A + R - S with A = sum of crypto_in, S = sum over OUT of
    (amount + fee) + sum over INTRA of sent, R = sum over INTRA of received; C02's conservation: consumed = sum over non-earn events of need =
    OUT_total + sum over taxable INTRA of (sent - received); C03: an INTRA is taxable iff sent - received != 0 (so non-taxable ones contribute 0)."""
    A, S_out, S_x, R_x, F, consumed, fee_tax, fee_all = z3.Reals("A S_out S_x R_x F consumed fee_tax fee_all")
    hyps = [F == A + R_x - (S_out + S_x),            # summed per-account equations
            fee_all == S_x - R_x,                    # total transfer fees
            fee_tax == fee_all,                      # C03: fee-less transfers contribute 0, every transfer with a fee is taxable
            consumed == S_out + fee_tax]             # C02: every disposal fully covered, nothing else consumed
    lm.case("final_balances_add_up_to_unconsumed_lots", lambda ex: (hyps, F == A - consumed))
