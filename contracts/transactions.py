"""Transactions (entry_types.py, abstract_transaction.py, in/out/intra_transaction.py): C03, C04, C12.

State = the private fields.  Spec functions below (`need`, `taxable_value`, `taxable_spec` ...) are transcribed from the
*statements* of C02-C04, not from the getters; each getter/constructor is then verified against them.
"""
import z3
from pyvc import vals as V
from pyvc.spec import contract, inline, And, Or, Not, implies, ite, R
from .common import dt_wf

TOL = V.TOL
EARN_TYPES = ["AIRDROP", "HARDFORK", "INCOME", "INTEREST", "MINING", "STAKING", "WAGES"]            # statement of C03
IN_TYPES = ["BUY", "GIFT", "DONATE"] + EARN_TYPES                                                  # docs/input_files.md
OUT_TYPES = ["DONATE", "FEE", "GIFT", "LOST", "SELL", "STAKING"]
TT = "rp2.entry_types.TransactionType"


def tt(ex, name): return ex.enum_member(TT, name).t


# ---- field shorthands (mangled names are resolved against the tree; a renamed field is an extraction failure, not a pass)
def ts(t): return t.f("AbstractTransaction.__timestamp")
def ttype(t): return t.f("AbstractTransaction.__transaction_type")
def spot(t): return t.f("AbstractTransaction.__spot_price")
def rowid(t): return t.f("AbstractTransaction.__internal_id")
def i_in(t, n): return t.f("InTransaction.__" + n)
def o_(t, n): return t.f("OutTransaction.__" + n)
def x_(t, n): return t.f("IntraTransaction.__" + n)


def is_in(t): return t.isa("InTransaction")
def is_out(t): return t.isa("OutTransaction")
def is_intra(t): return t.isa("IntraTransaction")


def type_in(s, t, names): return Or(*[ttype(t).t == tt(s.ex, n) for n in names])
def earn_type(s, t): return type_in(s, t, EARN_TYPES)


def earning_spec(s, t):
    """C03: earn-typed acquisition."""
    return And(is_in(t), earn_type(s, t))


def taxable_spec(s, t):
    """C03: earn-typed acquisitions, every out-transaction, transfers whose fee is non-zero."""
    return Or(earning_spec(s, t), is_out(t), And(is_intra(t), x_(t, "crypto_fee").t != 0))


def need(s, t):
    """C02/C04: the event's total outgoing amount: amount plus crypto fee (OUT), the fee (transfer), the amount received (income)."""
    return ite(is_out(t), o_(t, "crypto_out_no_fee").t + o_(t, "crypto_fee").t,
               ite(is_intra(t), x_(t, "crypto_sent").t - x_(t, "crypto_received").t, i_in(t, "crypto_in").t))


def cbc_field(s, t):
    """crypto_balance_change as stored (shape, from the code): the exchange-supplied crypto_out_with_fee may differ from need()."""
    return ite(is_out(t), o_(t, "crypto_out_with_fee").t, ite(is_intra(t), x_(t, "crypto_fee").t, i_in(t, "crypto_in").t))


def taxable_value(s, t):
    """C04: sale value excluding fee; fee value for fee-only events and transfer fees; fiat value for income."""
    fee_only = And(is_out(t), ttype(t).t == tt(s.ex, "FEE"))
    return ite(fee_only, o_(t, "fiat_fee").t,
               ite(is_out(t), o_(t, "fiat_out_no_fee").t,
                   ite(is_intra(t), x_(t, "fiat_fee").t, i_in(t, "fiat_in_with_fee").t)))


def tx_inv(s, t):
    """Class invariants established by the three constructors (objects are immutable: checked syntactically)."""
    fee_typed = ttype(t).t == tt(s.ex, "FEE")
    return And(
        dt_wf(ts(t)),
        spot(t).t >= -TOL,
        implies(is_out(t), And(o_(t, "fiat_out_with_fee").t == o_(t, "fiat_out_no_fee").t + o_(t, "fiat_fee").t,
                               type_in(s, t, OUT_TYPES),
                               o_(t, "crypto_fee").t >= -TOL, o_(t, "crypto_out_no_fee").t >= -TOL, o_(t, "crypto_out_with_fee").t > 0,
                               implies(fee_typed, And(o_(t, "crypto_out_no_fee").t <= TOL, o_(t, "crypto_fee").t > TOL)),
                               implies(Not(fee_typed), And(o_(t, "crypto_out_no_fee").t > TOL, spot(t).t > TOL)))),
        implies(is_intra(t), And(x_(t, "crypto_fee").t == x_(t, "crypto_sent").t - x_(t, "crypto_received").t,
                                 x_(t, "fiat_fee").t == x_(t, "crypto_fee").t * spot(t).t,
                                 x_(t, "crypto_sent").t > TOL, x_(t, "crypto_received").t >= -TOL,
                                 x_(t, "crypto_received").t <= x_(t, "crypto_sent").t + TOL,
                                 implies(Or(x_(t, "crypto_fee").t > TOL, x_(t, "crypto_fee").t < -TOL), spot(t).t > TOL),
                                 ttype(t).t == tt(s.ex, "MOVE"))),
        implies(is_in(t), And(type_in(s, t, IN_TYPES), spot(t).t > TOL,
                              implies(ttype(t).t != tt(s.ex, "STAKING"), i_in(t, "crypto_in").t > TOL))),
    )


def grid11(x):
    """5.1: amounts have at most 11 decimals (what the parser produces: RP2Decimal(f"{v:.11f}"))."""
    return z3.IsInt(x * z3.RealVal(10 ** 11))


def tx_fmt(s, t):
    """Documented input format beyond what the constructors enforce (DESIGN 5.1): crypto amounts on the 1e-11 grid."""
    return And(
        implies(is_in(t), grid11(i_in(t, "crypto_in").t)),
        implies(is_out(t), And(grid11(o_(t, "crypto_out_no_fee").t), grid11(o_(t, "crypto_fee").t), grid11(o_(t, "crypto_out_with_fee").t))),
        implies(is_intra(t), And(grid11(x_(t, "crypto_sent").t), grid11(x_(t, "crypto_received").t))),
    )


def out_consistent(s, t):
    """5.1: an exchange-supplied crypto_out_with_fee equals crypto_out_no_fee + crypto_fee (documented meaning of the column)."""
    return implies(is_out(t), o_(t, "crypto_out_with_fee").t == o_(t, "crypto_out_no_fee").t + o_(t, "crypto_fee").t)


# ------------------------------------------------------------------ entry_types.py
@contract(TT + ".is_earn_type", props=["C03"])
def _(k):
    k.ensures("exactly_the_seven_earn_types", lambda s: s.result.t == Or(*[s.a.self.t == tt(s.ex, n) for n in EARN_TYPES]))
    k.raises_never("Exception")
    k.modifies()


# ------------------------------------------------------------------ is_taxable / is_earning
def _flag(cls, meth, f, props):
    @contract(cls + "." + meth, props=props)
    def _(k):
        k.requires("inv", lambda s: tx_inv(s, s.a.self))
        k.ensures("as_stated", lambda s: s.result.t == f(s, s.a.self))
        k.raises_never("Exception")
        k.modifies()


IN = "rp2.in_transaction.InTransaction"
OUT = "rp2.out_transaction.OutTransaction"
INTRA = "rp2.intra_transaction.IntraTransaction"
_flag(IN, "is_taxable", lambda s, t: earn_type(s, t), ["C03"])
_flag(IN, "is_earning", lambda s, t: earn_type(s, t), ["C03"])
_flag(OUT, "is_taxable", lambda s, t: z3.BoolVal(True), ["C03"])
_flag(OUT, "is_earning", lambda s, t: z3.BoolVal(False), ["C03"])


@contract(INTRA + ".is_taxable", props=["C03", "C07"])
def _(k):
    k.requires("inv", lambda s: tx_inv(s, s.a.self))
    k.requires("amounts_on_grid", lambda s: tx_fmt(s, s.a.self))
    k.ensures("as_stated", lambda s: s.result.t == (x_(s.a.self, "crypto_fee").t != 0))          # statement: "whose fee is non-zero"
    k.raises_never("Exception")
    k.modifies()
_flag(INTRA, "is_earning", lambda s, t: z3.BoolVal(False), ["C03"])


# ------------------------------------------------------------------ amounts
def _amount(cls, prop, f, props, extra_req=None):
    @contract(cls + "." + prop, props=props)
    def _(k):
        k.requires("inv", lambda s: tx_inv(s, s.a.self))
        if extra_req is not None:
            k.requires("format", lambda s: extra_req(s, s.a.self))
        k.ensures("as_stated", lambda s: s.result.t == f(s, s.a.self))
        k.raises_never("Exception")
        k.modifies()


_amount(IN, "crypto_balance_change", lambda s, t: i_in(t, "crypto_in").t, ["C02", "C04"])
_amount(OUT, "crypto_balance_change", lambda s, t: o_(t, "crypto_out_with_fee").t, ["C02", "C04"])


@contract(OUT + ".crypto_balance_change", props=["C02", "C04"])
def _(k):
    # statement: the full amount leaving the holder is amount plus crypto fee (given the documented meaning of an exchange-supplied total)
    k.ensures("amount_plus_fee", lambda s: implies(out_consistent(s, s.a.self), s.result.t == o_(s.a.self, "crypto_out_no_fee").t + o_(s.a.self, "crypto_fee").t))
_amount(INTRA, "crypto_balance_change", lambda s, t: x_(t, "crypto_sent").t - x_(t, "crypto_received").t, ["C02", "C04"])
_amount(IN, "fiat_taxable_amount", lambda s, t: ite(earn_type(s, t), i_in(t, "fiat_in_with_fee").t, R(0)), ["C03", "C04"])
_amount(OUT, "fiat_taxable_amount", lambda s, t: taxable_value(s, t), ["C04"])
_amount(INTRA, "fiat_taxable_amount", lambda s, t: taxable_value(s, t), ["C04"])
_amount(IN, "crypto_taxable_amount", lambda s, t: ite(earn_type(s, t), i_in(t, "crypto_in").t, R(0)), ["C03"])
_amount(OUT, "crypto_taxable_amount", lambda s, t: ite(ttype(t).t == tt(s.ex, "FEE"), o_(t, "crypto_fee").t, o_(t, "crypto_out_no_fee").t), ["C03"])
_amount(INTRA, "crypto_taxable_amount", lambda s, t: x_(t, "crypto_fee").t, ["C03"])


# ------------------------------------------------------------------ constructors (C04 derivation clauses, C12 "normal return => valid")
def given(p): return p.not_none
def cfg_has(s, cfg, setfield, val): return cfg.f("Configuration.__" + setfield).has(val)


def common_ctor_post(k, cls_short):
    k.ensures("timestamp_parsed_with_zone", lambda s: And(dt_wf(ts(s.a.self)),
              Not(z3.Function("dt_naive", V.DT, z3.BoolSort())(ts(s.a.self).t)),
              ts(s.a.self).t == z3.Function("dateutil_parse", V.StrS, V.DT)(s.a.timestamp.t)))
    k.ensures("asset_known", lambda s: cfg_has(s, s.a.configuration, "assets", s.a.asset))                 # C12: unknown asset rejected
    k.ensures("asset_stored", lambda s: s.a.self.f("AbstractEntry.__asset") == s.a.asset)
    k.ensures("configuration_stored", lambda s: s.a.self.f("AbstractEntry.__configuration") == s.a.configuration)
    k.ensures("row_is_id", lambda s: implies(s.a.row.not_none, And(rowid(s.a.self) == s.a.row, s.a.self.f("AbstractTransaction.__row") == s.a.row)))
    k.ensures("inv", lambda s: tx_inv(s, s.a.self))
    k.raises("RP2ValueError")
    k.raises("RP2TypeError")


@contract(IN + ".__init__", props=["C04", "C12", "C03"])
def _(k):
    a = lambda s: s.a
    me = lambda s: s.a.self
    common_ctor_post(k, "InTransaction")
    k.ensures("exchange_holder_known", lambda s: And(cfg_has(s, s.a.configuration, "exchanges", s.a.exchange), cfg_has(s, s.a.configuration, "holders", s.a.holder),
                                                     i_in(me(s), "exchange") == s.a.exchange, i_in(me(s), "holder") == s.a.holder))
    k.ensures("type_allowed_in_table", lambda s: type_in(s, me(s), IN_TYPES))                                                   # C12
    k.ensures("crypto_in_stored", lambda s: i_in(me(s), "crypto_in") == s.a.crypto_in)
    k.ensures("crypto_in_positive", lambda s: implies(ttype(me(s)).t != tt(s.ex, "STAKING"), s.a.crypto_in.t > TOL))           # C12: non-positive rejected
    k.ensures("spot_price_stored_nonzero", lambda s: And(spot(me(s)) == s.a.spot_price, s.a.spot_price.t > TOL))                # C12: zero spot price rejected
    k.ensures("not_both_fees", lambda s: Not(And(given(s.a.crypto_fee), given(s.a.fiat_fee))))                                  # C12
    k.ensures("fiat_fee_from_crypto_fee", lambda s: implies(given(s.a.crypto_fee), i_in(me(s), "fiat_fee").t == s.a.crypto_fee.t * s.a.spot_price.t))   # C04
    k.ensures("fiat_fee_supplied", lambda s: implies(s.a.crypto_fee.is_none, i_in(me(s), "fiat_fee").t == ite(given(s.a.fiat_fee), s.a.fiat_fee.t, R(0))))
    k.ensures("crypto_fee_stored", lambda s: i_in(me(s), "crypto_fee").t == ite(given(s.a.crypto_fee), s.a.crypto_fee.t, R(0)))
    k.ensures("fiat_in_no_fee", lambda s: i_in(me(s), "fiat_in_no_fee").t == ite(given(s.a.fiat_in_no_fee), s.a.fiat_in_no_fee.t, s.a.crypto_in.t * s.a.spot_price.t))
    k.ensures("fiat_in_with_fee", lambda s: i_in(me(s), "fiat_in_with_fee").t == ite(given(s.a.fiat_in_with_fee), s.a.fiat_in_with_fee.t,
                                                                                   i_in(me(s), "fiat_in_no_fee").t + i_in(me(s), "fiat_fee").t))
    k.ensures("fees_nonneg", lambda s: And(implies(given(s.a.crypto_fee), s.a.crypto_fee.t >= -TOL), implies(given(s.a.fiat_fee), s.a.fiat_fee.t >= -TOL)))


@contract(OUT + ".__init__", props=["C04", "C12", "C03"])
def _(k):
    me = lambda s: s.a.self
    fee_typed = lambda s: ttype(me(s)).t == tt(s.ex, "FEE")
    common_ctor_post(k, "OutTransaction")
    k.ensures("exchange_holder_known", lambda s: And(cfg_has(s, s.a.configuration, "exchanges", s.a.exchange), cfg_has(s, s.a.configuration, "holders", s.a.holder),
                                                     o_(me(s), "exchange") == s.a.exchange, o_(me(s), "holder") == s.a.holder))
    k.ensures("type_allowed_in_table", lambda s: type_in(s, me(s), OUT_TYPES))
    k.ensures("amounts_stored", lambda s: And(o_(me(s), "crypto_out_no_fee") == s.a.crypto_out_no_fee, o_(me(s), "crypto_fee") == s.a.crypto_fee, spot(me(s)) == s.a.spot_price))
    k.ensures("fee_only_shape", lambda s: implies(fee_typed(s), And(s.a.crypto_out_no_fee.t <= TOL, s.a.crypto_out_no_fee.t >= -TOL, s.a.crypto_fee.t > TOL)))
    k.ensures("disposal_positive", lambda s: implies(Not(fee_typed(s)), And(s.a.crypto_out_no_fee.t > TOL, s.a.crypto_fee.t >= -TOL, s.a.spot_price.t > TOL)))   # C12
    k.ensures("crypto_out_with_fee", lambda s: o_(me(s), "crypto_out_with_fee").t == ite(given(s.a.crypto_out_with_fee), s.a.crypto_out_with_fee.t,
                                                                                       s.a.crypto_out_no_fee.t + s.a.crypto_fee.t))
    k.ensures("crypto_out_with_fee_positive", lambda s: o_(me(s), "crypto_out_with_fee").t > 0)
    k.ensures("fiat_out_no_fee", lambda s: o_(me(s), "fiat_out_no_fee").t == ite(given(s.a.fiat_out_no_fee), s.a.fiat_out_no_fee.t, s.a.crypto_out_no_fee.t * s.a.spot_price.t))   # C04
    k.ensures("fiat_fee", lambda s: o_(me(s), "fiat_fee").t == ite(given(s.a.fiat_fee), s.a.fiat_fee.t, s.a.crypto_fee.t * s.a.spot_price.t))                                   # C04


@contract(INTRA + ".__init__", props=["C04", "C12", "C03"])
def _(k):
    me = lambda s: s.a.self
    common_ctor_post(k, "IntraTransaction")
    k.ensures("accounts_known", lambda s: And(cfg_has(s, s.a.configuration, "exchanges", s.a.from_exchange), cfg_has(s, s.a.configuration, "holders", s.a.from_holder),
                                              cfg_has(s, s.a.configuration, "exchanges", s.a.to_exchange), cfg_has(s, s.a.configuration, "holders", s.a.to_holder),
                                              x_(me(s), "from_exchange") == s.a.from_exchange, x_(me(s), "from_holder") == s.a.from_holder,
                                              x_(me(s), "to_exchange") == s.a.to_exchange, x_(me(s), "to_holder") == s.a.to_holder))
    k.ensures("is_move", lambda s: ttype(me(s)).t == tt(s.ex, "MOVE"))
    k.ensures("amounts_stored", lambda s: And(x_(me(s), "crypto_sent") == s.a.crypto_sent, x_(me(s), "crypto_received") == s.a.crypto_received))
    k.ensures("sent_positive_received_le_sent", lambda s: And(s.a.crypto_sent.t > TOL, s.a.crypto_received.t >= -TOL, s.a.crypto_received.t <= s.a.crypto_sent.t + TOL))   # C12
    k.ensures("fee_is_difference", lambda s: x_(me(s), "crypto_fee").t == s.a.crypto_sent.t - s.a.crypto_received.t)
    k.ensures("fee_needs_spot_price", lambda s: implies(Or(x_(me(s), "crypto_fee").t > TOL, x_(me(s), "crypto_fee").t < -TOL),
                                                        And(s.a.spot_price.not_none, s.a.spot_price.t > TOL)))                                                             # C12
    k.ensures("fiat_fee_valued_at_spot", lambda s: x_(me(s), "fiat_fee").t == x_(me(s), "crypto_fee").t * spot(me(s)).t)                                                   # C04
