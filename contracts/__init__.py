"""Sidecar contracts for the real functions of /repo/src/rp2 (nothing in /repo is edited).
Importing this package registers every contract, invariant, lemma and assumed external contract."""
from . import common, externals, decimal_ops, country, transactions, gain_loss, entry_set, computed_data, balance, matcher, engine      # noqa: F401
