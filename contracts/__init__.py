"""Sidecar contracts for the real functions of /repo/src/rp2 (nothing in /repo is edited).
Importing this package registers every contract, invariant, lemma and assumed external contract."""
from . import common, decimal_ops, country, gain_loss      # noqa: F401
