"""Lot matching (abstract_accounting_method.py, accounting_engine.py, plugin/accounting_method/*.py, tax_engine.py): C01, C02, C09, C03.

Abstractions (DESIGN 5.2 / 8.C01):
  lots            the shared chronological list of acquired lots (one list object aliased by every candidates object)
  P               the shared partial-amount dictionary, keyed by a lot's internal id; avail(P, l) = P[l] if present else crypto_in(l)
  wf_chrono(c)    0 <= from <= to + 1, to < len(lots), every lot before `from` is exhausted, every stored partial amount is >= 0
Amounts lie on the 1e-11 grid (5.1), so RP2Decimal's tolerant `> ZERO` coincides with the exact comparison.
"""
import z3
from pyvc import vals as V
from pyvc.spec import contract, external, inline, invariant, hint, And, Or, Not, implies, ite, R
from .transactions import ts, i_in, spot, rowid, grid11, TOL

AAM = "rp2.abstract_accounting_method."
CAND = AAM + "AbstractAcquiredLotCandidates"
CHRON = AAM + "AbstractChronologicalAccountingMethod"
FEAT = AAM + "AbstractFeatureBasedAccountingMethod"
CIT = AAM + "ChronologicalAccountingMethodIterator"


def c_lots(c): return c.f("AbstractAcquiredLotCandidates.__acquired_lot_list")
def c_P(c): return c.f("AbstractAcquiredLotCandidates.__acquired_lot_2_partial_amount")
def c_from(c): return c.f("AbstractAcquiredLotCandidates.__from_index")
def c_to(c): return c.f("AbstractAcquiredLotCandidates.__to_index")


def is_none_result(s):
    """The path returned the literal None (Optional[NamedTuple] results are path-wise either None or a tuple of terms)."""
    r = s.result.v
    return r.ty.kind == "none" or (r.items is None and r.ty.kind == "opt")


def lot_at(s, lots, j):
    return s.wrap(lots[j].t, V.Obj(s.ex.class_q("InTransaction")))


def avail(s, P, lot):
    """What is still available in a lot: the stored partial amount if there is one, the whole lot otherwise."""
    return z3.If(P.has(lot), P[lot].t, i_in(lot, "crypto_in").t)


def lots_valid(s, lots):
    """valid_history for the lot list: in-transactions with positive amounts on the 1e-11 grid and pairwise distinct ids."""
    i, j = z3.Int("lv_i"), z3.Int("lv_j")
    li, lj = lot_at(s, lots, i), lot_at(s, lots, j)
    return And(z3.ForAll([i], implies(And(0 <= i, i < lots.len), And(s.ex.isinstance_term(lots[i].some.v, s.ex.class_q("InTransaction")),
                                                                     i_in(li, "crypto_in").t > 0, grid11(i_in(li, "crypto_in").t)))),
               z3.ForAll([i, j], implies(And(0 <= i, i < j, j < lots.len), rowid(li).t != rowid(lj).t)))


def P_valid(s, P, lots):
    """Every stored partial amount is a non-negative grid value."""
    j = z3.Int("pv_j")
    l = lot_at(s, lots, j)
    return z3.ForAll([j], implies(And(0 <= j, j < lots.len, P.has(l)), And(P[l].t >= 0, grid11(P[l].t))))


def wf_chrono(s, c):
    lots, P = c_lots(c), c_P(c)
    j = z3.Int("wc_j")
    return And(0 <= c_from(c).t, c_from(c).t <= c_to(c).t + 1, c_to(c).t < lots.len, 0 <= c_to(c).t,
               z3.ForAll([j], implies(And(0 <= j, j < c_from(c).t), avail(s, P, lot_at(s, lots, j)) == 0)),
               lots_valid(s, lots), P_valid(s, P, lots))


inline(CAND + ".from_index", CAND + ".to_index", CAND + ".acquired_lot_list", CAND + ".set_from_index", CAND + ".has_partial_amount",
       CAND + ".get_partial_amount", CAND + ".set_partial_amount", CAND + ".clear_partial_amount", CAND + ".__iter__",
       CHRON + "._create_accounting_method_iterator", CIT + ".__init__", CIT + "._check_index", CIT + ".__next__",
       "rp2.plugin.accounting_method.fifo.AccountingMethod.lot_candidates_order")


@contract(CHRON + ".seek_non_exhausted_acquired_lot", props=["C01", "C02", "C09"])
def _(k):
    c = lambda s: s.a.lot_candidates
    oc = lambda s: s.old.a.lot_candidates
    k.requires("chronological_candidates", lambda s: s.ex.isinstance_term(s.a.lot_candidates.some.v, s.ex.class_q("ChronologicalAcquiredLotCandidates")))
    k.requires("wf", lambda s: wf_chrono(s, c(s)))
    # a chronological candidates object belongs to a chronological method (create_lot_candidates passes `self`); the only concrete one in the
    # tree is FIFO (OLDER_TO_NEWER) - a plugin using NEWER_TO_OLDER would need its own contract
    k.requires("candidates_of_a_chronological_method", lambda s: s.ex.isinstance_term(c(s).f("AbstractAcquiredLotCandidates._accounting_method").some.v,
                                                                                       s.ex.class_q("AbstractChronologicalAccountingMethod")))

    def none_means_exhausted(s):
        if is_none_result(s):
            j = z3.Int("ne_j")
            lots = c_lots(oc(s))
            return z3.ForAll([j], implies(And(c_from(oc(s)).t <= j, j <= c_to(oc(s)).t), avail(s.old, c_P(oc(s)), lot_at(s.old, lots, j)) == 0))
        if s.result.v.items is not None:
            return z3.BoolVal(True)
        j = z3.Int("ne_j")
        lots = c_lots(oc(s))
        return implies(s.result.is_none, z3.ForAll([j], implies(And(c_from(oc(s)).t <= j, j <= c_to(oc(s)).t), avail(s.old, c_P(oc(s)), lot_at(s.old, lots, j)) == 0)))

    def selected(s):
        # statement of C01 for FIFO: the oldest lot (lowest list position) within the window that still has something available; ties by position
        if is_none_result(s):
            return z3.BoolVal(True)
        j = z3.Int("se_j")
        lots, P0 = c_lots(oc(s)), c_P(oc(s))
        pos = c_from(c(s)).t
        lot = s.result.some.acquired_lot
        amt = s.result.some.amount
        return implies(s.result.not_none,
                       And(c_from(oc(s)).t <= pos, pos <= c_to(c(s)).t, lot.t == lots[pos].t,
                           amt.t == avail(s.old, P0, lot_at(s.old, lots, pos)), amt.t > 0,
                           z3.ForAll([j], implies(And(c_from(oc(s)).t <= j, j < pos), avail(s.old, P0, lot_at(s.old, lots, j)) == 0))))

    def in_flight(s):
        # the selected lot is marked 'in flight' (partial amount 0); every other lot's availability is untouched
        j = z3.Int("if_j")
        lots = c_lots(oc(s))
        pos = c_from(c(s)).t
        lj = lot_at(s, lots, j)
        return And(implies(s.result.not_none, And(c_P(c(s)).has(lot_at(s, lots, pos)), c_P(c(s))[lot_at(s, lots, pos)].t == 0)) if not is_none_result(s) else True,
                   z3.ForAll([j], implies(And(0 <= j, j < lots.len, Or(s.result.is_none, j != pos)),
                                          avail(s, c_P(c(s)), lj) == avail(s.old, c_P(oc(s)), lot_at(s.old, lots, j)))))
    k.ensures("none_only_when_every_lot_in_the_window_is_exhausted", none_means_exhausted)
    k.ensures("selects_the_oldest_available_lot_with_all_that_is_left_of_it", selected)
    k.ensures("only_the_selected_lot_changes_availability", in_flight)
    k.ensures("wf_again", lambda s: And(c_to(c(s)).t == c_to(oc(s)).t, c_lots(c(s)).t == c_lots(oc(s)).t, c_P(c(s)).t == c_P(oc(s)).t,
                                        c_from(c(s)).t >= c_from(oc(s)).t, c_from(c(s)).t <= c_to(c(s)).t + 1))
    k.raises_never("Exception")
    # frame (needed since the engine's methods call seek through this contract): the candidates' from_index, the shared partial-amount map,
    # and the fields of the freshly allocated iterator
    k.modifies("AbstractAcquiredLotCandidates.__from_index", refs=lambda s: [s.a.lot_candidates])
    for key in [("dhas", "txid"), ("dval", "txid", "Real"), ("dlen",)]:
        k.modifies(key, refs=lambda s: [c_P(s.a.lot_candidates)])
    k.modifies(("alloc",))
    for f in ("__acquired_lot_list", "__start_index", "__end_index", "__step", "__index", "__order_type"):
        k.modifies("ChronologicalAccountingMethodIterator." + f, refs=lambda s: [], fresh_only=True)


@invariant(CHRON + ".seek_non_exhausted_acquired_lot", loop=0)
def _(iv):
    c = lambda s: s.v.lot_candidates
    it = lambda s: getattr(s.v, "$it")

    def inv(s):
        j = z3.Int("sk_j")
        lots = c_lots(c(s))
        ent = s.extra["entry_env"]
        c0 = s.old.sv(ent["lot_candidates"])
        x = it(s).f("ChronologicalAccountingMethodIterator.__index").t
        return And(c_from(c(s)).t == x, c_from(c0).t <= x, x <= c_to(c(s)).t + 1,
                   it(s).f("ChronologicalAccountingMethodIterator.__end_index").t == c_to(c(s)).t,
                   it(s).f("ChronologicalAccountingMethodIterator.__step").t == 1,
                   it(s).f("ChronologicalAccountingMethodIterator.__acquired_lot_list").t == lots.t,
                   z3.ForAll([j], implies(And(c_from(c0).t <= j, j < x), avail(s, c_P(c(s)), lot_at(s, lots, j)) == 0)))
    iv.inv("scanned_lots_are_exhausted_and_from_index_follows", inv)
    iv.inv("nothing_selected_yet", lambda s: And(s.v.selected_acquired_lot.is_none, s.v.selected_acquired_lot_amount.t == 0))


# ------------------------------------------------------------------ plugins: sort keys and rank lemmas (statement of C01 vs. the key each plugin implements)
def _sort_key(module, f_price, f_ts, f_row, label):
    q = f"rp2.plugin.accounting_method.{module}.AccountingMethod.sort_key"

    @contract(q, props=["C01", "C09"])
    def _(k):
        def post(s):
            lot = s.a.lot
            key = s.result
            t_s = z3.ToReal(ts(lot).inst) / 1000000             # datetime.timestamp(): seconds since the epoch (A-FLOATTS: strictly monotone)
            return And(key.spot_price.t == f_price(spot(lot).t), key.timestamp.t == f_ts(t_s), key.internal_id_int.t == f_row(lot.f("AbstractTransaction.__row").t))
        k.requires("row_present", lambda s: s.a.lot.f("AbstractTransaction.__row").not_none)
        k.ensures(label, post)
        k.raises_never("Exception")
        k.modifies()


_sort_key("hifo", lambda p: -p, lambda t: t, lambda r: r, "key_is_minus_price_then_older_first")
_sort_key("lofo", lambda p: p, lambda t: t, lambda r: r, "key_is_price_then_older_first")
_sort_key("lifo", lambda p: z3.RealVal(0), lambda t: -t, lambda r: -r, "key_is_newer_first")

from pyvc.spec import lemma


@lemma("C01.rank", props=["C01"])
def _(lm):
    """For each feature-based plugin: a lot whose key is (lexicographically) not greater is never strictly worse ranked in the sense of the
    statement (HIFO: highest spot price, LOFO: lowest, LIFO: newest) - so the minimum-key element of the heap is a best-ranked lot; ties in
    the statement's ranking are left open.  Keys are the ones proved for the plugins' sort_key above."""
    pa, pb, ta, tb = z3.Reals("pa pb ta tb")
    ra, rb = z3.Ints("ra rb")

    def lex_le(a, b):
        return Or(a[0] < b[0], And(a[0] == b[0], Or(a[1] < b[1], And(a[1] == b[1], a[2] <= b[2]))))
    lm.case("hifo", lambda ex: ([lex_le((-pa, ta, ra), (-pb, tb, rb))], Not(pb > pa)))
    lm.case("lofo", lambda ex: ([lex_le((pa, ta, ra), (pb, tb, rb))], Not(pb < pa)))
    lm.case("lifo", lambda ex: ([lex_le((z3.RealVal(0), -ta, -ra), (z3.RealVal(0), -tb, -rb))], Not(tb > ta)))
    lm.case("fifo_list_order", lambda ex: ([ta <= tb], Not(tb < ta)))
    # keys are injective on lots with distinct rows (needed for determinism, C09/C17)
    lm.case("keys_injective_on_rows", lambda ex: ([ra != rb], Or(-pa != -pb, ta != tb, ra != rb)))


# ------------------------------------------------------------------ tax_engine._create_unfiltered_taxable_event_set (C03: exactly the taxable ones)
from .transactions import taxable_spec, tx_inv, tx_fmt
from .entry_set import elist, efrom, eto, es_inv, it_set, it_index, it_size, it_wf, sorted_inst, AES
from .computed_data import MIN_DAY, MAX_DAY

TE = "rp2.tax_engine"
TS_ADD = "rp2.transaction_set.TransactionSet.add_entry"


def tx_of(s, L, j):
    return s.wrap(L[j].t, V.Obj(s.ex.class_q("AbstractTransaction")))


def only_taxable(s, L):
    j = z3.Int("ot_j")
    return z3.ForAll([j], implies(And(0 <= j, j < L.len), And(s.ex.isinstance_term(L[j].some.v, s.ex.class_q("AbstractTransaction")), taxable_spec(s, tx_of(s, L, j)))))


def set_txs_valid(s, es):
    j = z3.Int("tv_j")
    L = elist(es)
    t = tx_of(s, L, j)
    return z3.ForAll([j], implies(And(0 <= j, j < L.len), And(s.ex.isinstance_term(L[j].some.v, s.ex.class_q("AbstractTransaction")), tx_inv(s, t), tx_fmt(s, t))))


@contract(TS_ADD, props=["C03", "C12"])
def _(k):
    """add_entry: appends to the set's list (and its membership set) or raises; never silently drops (C03/C12)."""
    me = lambda s: s.a.self
    k.ensures("appended_last", lambda s: And(elist(me(s)).t == elist(s.old.a.self).t, elist(me(s)).len == elist(s.old.a.self).len + 1,
                                             elist(me(s))[elist(s.old.a.self).len].t == s.a.entry.t))

    def rest(s):
        j = z3.Int("ae_j")
        return z3.ForAll([j], implies(And(0 <= j, j < elist(s.old.a.self).len), elist(me(s))[j].t == elist(s.old.a.self)[j].t))
    k.ensures("earlier_entries_kept", rest)
    k.ensures("asset_matches", lambda s: s.a.entry.f("AbstractEntry.__asset") == me(s).f("AbstractEntrySet.__asset"))      # C12: row asset != sheet asset rejected
    k.ensures("window_kept", lambda s: And(efrom(me(s)) == efrom(s.old.a.self), eto(me(s)) == eto(s.old.a.self)))
    k.raises("RP2ValueError")
    k.raises("RP2TypeError")
    k.modifies(("lel", "Ref"), refs=lambda s: [elist(me(s))])
    k.modifies(("llen",), refs=lambda s: [elist(me(s))])
    k.modifies("AbstractEntrySet.__is_sorted", refs=lambda s: [me(s)])
    for key in [("dhas", "txid"), ("dval", "txid", "Ref"), ("dlen",), ("dhas", "glkey"), ("dval", "glkey", "Ref"), ("dhas", "Ref"), ("dval", "Ref", "Ref")]:
        k.modifies(key, refs=lambda s: [me(s).f("AbstractEntrySet._entry_set")])


@contract(TE + "._create_unfiltered_taxable_event_set", props=["C03", "C02", "C10"])
def _(k):
    sets = lambda s: [s.a.input_data.f(f"InputData.__unfiltered_{w}_transaction_set") for w in ("in", "out", "intra")]
    # InputData.__init__ has sorted the three unfiltered sets (C10: all_chronological)
    k.requires("unfiltered_valid_sets", lambda s: And(*[And(efrom(e).t == MIN_DAY, eto(e).t == MAX_DAY, sorted_inst(s, e), es_inv(s, e), set_txs_valid(s, e)) for e in sets(s)]))
    k.ensures("spans_all_time", lambda s: And(efrom(s.result).t == MIN_DAY, eto(s.result).t == MAX_DAY))                      # C10: the matcher sees everything
    k.ensures("only_taxable_transactions_are_events", lambda s: only_taxable(s, elist(s.result)))                          # C03
    k.ensures("fresh_set", lambda s: Not(s.ex.is_alloc(s.oh.heap, s.result.t)))
    k.raises("RP2ValueError")
    k.raises("RP2TypeError")


def _event_set_clauses(iv, with_iterator):
    sets = lambda s: [s.v.input_data.f(f"InputData.__unfiltered_{w}_transaction_set") for w in ("in", "out", "intra")]
    it = lambda s: getattr(s.v, "$it")
    res = lambda s: s.v.taxable_event_set
    if with_iterator:
        iv.inv("iterator", lambda s: And(it_wf(s, it(s)), Or(*[it_set(it(s)).t == e.t for e in sets(s)])))
    else:
        # the outer loop runs over the literal list [in set, out set, intra set]
        def outer(s):
            lst = getattr(s.v, "$iter")
            j = z3.Int("ol_j")
            return And(lst.len == 3, *[lst[n].t == e.t for n, e in enumerate(sets(s))])
        iv.inv("the_three_unfiltered_sets", outer)
    iv.inv("input_sets_untouched", lambda s: And(*[And(efrom(e).t == MIN_DAY, eto(e).t == MAX_DAY, sorted_inst(s, e), es_inv(s, e), set_txs_valid(s, e)) for e in sets(s)]))
    entry_clock = z3.Const("H0_alloc", z3.IntSort())       # the allocation clock at function entry: the result set and its collections were born later
    iv.inv("result_set", lambda s: And(efrom(res(s)).t == MIN_DAY, eto(res(s)).t == MAX_DAY, s.ex.born(res(s).t) >= entry_clock,
                                       s.ex.born(elist(res(s)).t) >= entry_clock, s.ex.born(res(s).f("AbstractEntrySet._entry_set").t) >= entry_clock,
                                       s.ex.is_alloc(s.h.heap, elist(res(s)).t), s.ex.is_alloc(s.h.heap, res(s).t),
                                       s.ex.is_alloc(s.h.heap, res(s).f("AbstractEntrySet._entry_set").t)))
    iv.inv("only_taxable_so_far", lambda s: only_taxable(s, elist(res(s))))


@invariant(TE + "._create_unfiltered_taxable_event_set", loop=0)
def _(iv):
    _event_set_clauses(iv, False)


@invariant(TE + "._create_unfiltered_taxable_event_set", loop=1)
def _(iv):
    _event_set_clauses(iv, True)
