"""RP2Decimal operators (rp2_decimal.py): verified against the encoding the executor uses at every use site.

The executor encodes `a == b` on RP2Decimal as |a-b| <= 5e-14, `a > b` as a-b > 5e-14, `a >= b` as a-b >= -5e-14 and
`<`, `<=` as their negations, and `+ - * /` as exact real arithmetic (A-REAL).  The contracts below state exactly that, and
are discharged against the *real operator bodies* (with Decimal.quantize = round-half-even at the mask's exponent, the
assumed contract of the decimal module).  If CRYPTO_DECIMALS or an operator body changes, these obligations fail.
"""
import z3
from pyvc import vals as V
from pyvc.spec import contract, And, Or, Not, implies

TOL = V.TOL
M = "rp2.rp2_decimal.RP2Decimal."


def _cmp(name, f):
    @contract(M + name, props=["C04", "C08", "C02"])
    def _(k):
        k.param_types = {"other": V.DEC}
        k.ensures("tolerant_semantics", lambda s: s.result.t == f(s.a.self.t - s.a.other.t))
        k.raises_never("Exception")


_cmp("__eq__", lambda d: z3.And(d <= TOL, d >= -TOL))
_cmp("__ne__", lambda d: z3.Or(d > TOL, d < -TOL))
_cmp("__gt__", lambda d: d > TOL)
_cmp("__ge__", lambda d: d >= -TOL)
_cmp("__lt__", lambda d: d < -TOL)
_cmp("__le__", lambda d: d <= TOL)


def _arith(name, f, nonzero=False):
    @contract(M + name, props=["C04"])
    def _(k):
        k.param_types = {"other": V.DEC}
        if nonzero:
            k.requires("divisor_nonzero", lambda s: s.a.other.t != 0)
        k.ensures("exact", lambda s: s.result.t == f(s.a.self.t, s.a.other.t))
        k.raises_never("Exception")


_arith("__add__", lambda a, b: a + b)
_arith("__sub__", lambda a, b: a - b)
_arith("__mul__", lambda a, b: a * b)
_arith("__truediv__", lambda a, b: a / b, nonzero=True)


@contract(M + "__neg__", props=["C04"])
def _(k):
    k.ensures("exact", lambda s: s.result.t == -s.a.self.t)
    k.raises_never("Exception")


@contract(M + "is_equal_within_precision", props=["C08"])
def _(k):
    # used with CRYPTO_BALANCE_DECIMAL_MASK (10 decimals) and FIAT_DECIMAL_MASK (2 decimals): equal after rounding half-even at the
    # mask's exponent; the clause below is stated for a mask with k decimals through the uninterpreted result of quantize, so it is
    # checked per call site by inlining (see C08), not here.
    k.inline = True
