"""Validity predicates and spec functions shared by the contracts (DESIGN.md 5.1 / 5.2)."""
import z3
from pyvc import vals as V
from pyvc.spec import SV, And, Or, Not, implies, R

US_PER_DAY = 86400 * 1000000
# datetime.datetime covers years 1..9999: a *type invariant* of every datetime object, not an assumption about the input
MIN_INST = -62135596800 * 1000000          # 0001-01-01T00:00:00Z
MAX_INST = 253402300800 * 1000000          # 10000-01-01T00:00:00Z


def dt_wf(dt: SV):
    """Type invariant of an aware datetime: instant within datetime's range, |utcoffset| < 24h."""
    return And(dt.inst >= MIN_INST - US_PER_DAY, dt.inst < MAX_INST + US_PER_DAY, dt.off > -86400, dt.off < 86400)


def whole_days(later: SV, earlier: SV):
    """floor((later - earlier) / 1 day) on instants (what `(a - b).days` is for aware datetimes)."""
    d = z3.Int(V.fresh_name("wd"))
    diff = later.inst - earlier.inst
    return d, And(d * US_PER_DAY <= diff, diff < (d + 1) * US_PER_DAY)


def cls_is(ex, obj: SV, simple_name: str):
    """Dynamic class of obj is exactly the (unique) rp2 class with this simple name or one of its subclasses."""
    return obj.isa(simple_name)


def cls_is_module(ex, obj: SV, module: str, simple_name: str):
    q = f"{module}.{simple_name}"
    ex.tree.cls(q)
    return ex.isinstance_term(obj.some.v, q)


def wdays(ex, x):
    """floor(x / 1 day) for a microsecond difference x, as an uninterpreted function with the defining property `wdays_def`."""
    return ex.uf("whole_days", z3.IntSort(), z3.IntSort())(x)


def wdays_def(ex, x):
    d = wdays(ex, x)
    return And(d * US_PER_DAY <= x, x < (d + 1) * US_PER_DAY)
