"""Assumed contracts of components outside /repo/src/rp2 (DESIGN.md 5.3).  Each is listed in the evidence as trusted."""
import z3
from pyvc import vals as V
from pyvc.spec import external, And, Or, Not, implies
from .common import dt_wf


@external("dateutil.parser.parse", "A-DT: opaque total-or-raising parser; a returned datetime is within datetime's range; tzinfo may be None")
def _(k):
    k.params = ["value"]
    k.returns = V.DATETIME
    parsed = z3.Function("dateutil_parse", V.StrS, V.DT)
    k.ensures("function_of_text", lambda s: s.result.t == parsed(s.a.value.t))
    k.ensures("in_range", lambda s: dt_wf(s.result))
    k.raises("Exception")
