"""Country plugins (C05, C16)."""
import z3
from pyvc import vals as V
from pyvc.spec import contract, external, inline, And, Or, Not, implies

COUNTRY_MODULES = {"us": "rp2.plugin.country.us.US", "es": "rp2.plugin.country.es.ES", "jp": "rp2.plugin.country.jp.JP",
                   "ie": "rp2.plugin.country.ie.IE", "generic": "rp2.plugin.country.generic.Generic"}


@contract("rp2.plugin.country.us.US.get_long_term_capital_gain_period", props=["C05"])
def _(k):
    k.ensures("is_365", lambda s: s.result == 365)           # statement: 365 days for US
    k.raises_never("Exception")


@contract("rp2.plugin.country.es.ES.get_long_term_capital_gain_period", props=["C05"])
def _(k):
    k.ensures("is_365", lambda s: s.result == 365)           # statement: 365 days for ES
    k.raises_never("Exception")


def never_threshold(s):
    # "never": larger than any whole-day difference two datetime objects can have (9999 years < 3_652_425 days)
    return s.result > 3652425


@contract("rp2.plugin.country.jp.JP.get_long_term_capital_gain_period", props=["C05"])
def _(k):
    k.ensures("never", never_threshold)
    k.raises_never("Exception")


@contract("rp2.plugin.country.ie.IE.get_long_term_capital_gain_period", props=["C05"])
def _(k):
    k.ensures("never", never_threshold)
    k.raises_never("Exception")


@contract("rp2.plugin.country.generic.Generic.get_long_term_capital_gain_period", props=["C05"])
def _(k):
    k.requires("configured_nonneg", lambda s: s.a.self.f("Generic.__long_term_capital_gain_period") >= 0)
    k.ensures("configured_value", lambda s: s.result == s.a.self.f("Generic.__long_term_capital_gain_period"))
    k.ensures("nonneg", lambda s: s.result >= 0)
    k.raises_never("Exception")


@external("os.environ.get", "process environment: returns the variable's value or None")
def _(k):
    k.params = ["name"]
    k.returns = V.Opt(V.STR)
    env = z3.Function("os_environ", V.StrS, V.StrS)
    has = z3.Function("os_environ_has", V.StrS, z3.BoolSort())
    k.ensures("value", lambda s: And(s.result.is_none == Not(has(s.a.name.t)), implies(s.result.not_none, s.result.t == env(s.a.name.t))))


@external("rp2.abstract_country.AbstractCountry.__init__", "validates ISO codes through pycountry (external database); stores the two codes")
def _(k):
    k.modifies("AbstractCountry.__country_iso_code", "AbstractCountry.__currency_iso_code", refs=lambda s: [s.a.self])
    k.raises("RP2ValueError")
    k.raises("RP2TypeError")


@contract("rp2.plugin.country.generic.Generic.__init__", props=["C05"])
def _(k):
    env = z3.Function("os_environ", V.StrS, V.StrS)
    has = z3.Function("os_environ_has", V.StrS, z3.BoolSort())
    is_int = z3.Function("str_is_int", V.StrS, z3.BoolSort())
    to_int = z3.Function("str_to_int", V.StrS, z3.IntSort())
    ltcg = V.strlit("LONG_TERM_CAPITAL_GAINS")
    # statement: "the configured value"; a value that is unset/empty, not an integer, or negative is rejected
    k.ensures("stores_int_of_env", lambda s: s.a.self.f("Generic.__long_term_capital_gain_period") == to_int(env(ltcg)))
    k.ensures("nonneg", lambda s: s.a.self.f("Generic.__long_term_capital_gain_period") >= 0)
    k.ensures("was_integer", lambda s: And(has(ltcg), is_int(env(ltcg))))
    k.raises("RP2ValueError")
    k.raises("RP2TypeError")
