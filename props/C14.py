"""C14 - tax report (US, IE): every fraction once, on the sheet of its transaction type."""
import ast
from pyvc.driver import custom
from pyvc import astcheck as A

LEVEL = "other"
# obligations whose failure is a semantic fact about the tree (not a shape that is no longer recognized): reported as violations on their own
DEFINITE = ("_goes_to_", "no_type_on_two_sheets", "transaction_types_are_the_14", "every_routed_sheet_is_a_template_sheet_kept")
FLOOR = 60
EXPLANATION = ("Routing is a finite case analysis decided on the AST of the current tree: the _SHEET_TO_TYPES literal of each plugin is evaluated (enum members "
               "resolved from the class bodies of SheetNames and TransactionType), the derived _TYPE_TO_SHEET must be its inverse, and for each of the 13 "
               "transaction types a taxable event can have, the sheet must be the one the statement names. Row completeness uses the table-writer rule "
               "(pyvc/astcheck.py): the loop over the asset's gain/loss set has no break/continue/return, writes every stated column from the stated attribute "
               "of that fraction into row row_indexes[sheet], and advances exactly that counter by one; the counters are created once per report (not per asset), "
               "every sheet is grown by MIN_ROWS + count + 1 per type and asset before writing, and only sheets whose counter never moved are deleted. "
               "That the gain/loss set iterated here contains each fraction of the window exactly once is C10/C09. Bounded: generated 14-type multi-asset "
               "inputs through rp2_us / rp2_ie, reports reopened and compared row by row with the computed fractions.")
TRUSTED = ["ezodf: sheet[row, col] addressing, append_rows(n) adds n rows, del sheets[i] removes sheet i", "_fill_cell writes exactly cell (row, column) (its body is checked under C13)",
           "C09/C10: the gain/loss set iterated by the generator holds each fraction of the window exactly once"]
ASSUMPTIONS = TRUSTED
E2E = {"quick": 6, "thorough": 80, "on_doubt": 10, "cli": True}

# the statement's routing table
ROUTE = {"SELL": "Capital Gains", "GIFT": "Gifts", "DONATE": "Donations", "FEE": "Investment Expenses", "LOST": "Investment Expenses", "MOVE": "Investment Expenses",
         "AIRDROP": "Airdrops", "HARDFORK": "Hard Forks", "INCOME": "Income", "INTEREST": "Interest", "MINING": "Mining", "STAKING": "Staking", "WAGES": "Wages"}
PLUGINS = {"us": ("rp2.plugin.report.us.tax_report_us", "%m/%d/%Y"), "ie": ("rp2.plugin.report.ie.tax_report_ie", "%Y/%m/%d")}


def _enum_members(mod, cls):
    for n in mod.tree.body:
        if isinstance(n, ast.ClassDef) and n.name == cls:
            return {b.targets[0].id: b.value.value for b in n.body if isinstance(b, ast.Assign) and isinstance(b.value, ast.Constant) and isinstance(b.targets[0], ast.Name)}
    return None


def sheet_to_types(mod):
    """{sheet name: [type names]} from the _SHEET_TO_TYPES literal, or None when it is not the literal shape."""
    names = _enum_members(mod, "SheetNames")
    v = mod.assigns.get("_SHEET_TO_TYPES")
    if names is None or not isinstance(v, ast.Dict):
        return None
    out = {}
    for k, val in zip(v.keys, v.values):
        d = A.dotted(k)
        parts = d.split(".")
        if len(parts) != 3 or parts[0] != "SheetNames" or parts[2] != "value" or parts[1] not in names or not isinstance(val, ast.Tuple):
            return None
        ts = []
        for e in val.elts:
            p = A.dotted(e).split(".")
            if len(p) != 2 or p[0] != "TransactionType":
                return None
            ts.append(p[1])
        out[names[parts[1]]] = ts
    return out


def items(pr):
    return [custom("routing", routing), custom("rows", rows)]


def routing(pr):
    out = []
    et = pr.tree.modules["rp2.entry_types"]
    all_types = _enum_members(et, "TransactionType") or {}
    out.append(A.bvc("rp2.entry_types.TransactionType", "case", "transaction_types_are_the_14_of_the_statement", set(all_types) == set(ROUTE) | {"BUY"}, et.relpath, str(sorted(all_types))))
    for c, (mname, _) in PLUGINS.items():
        mod = pr.tree.modules[mname]
        s2t = sheet_to_types(mod)
        out.append(A.bvc(mname + "/<module>", "case", "sheet_to_types_is_a_literal_over_the_two_enums", s2t is not None, mod.relpath))
        s2t = s2t or {}
        inv = {}
        dup = []
        for sh, ts in s2t.items():
            for t in ts:
                if t in inv:
                    dup.append(t)
                inv[t] = sh
        out.append(A.bvc(mname + "/<module>", "case", "no_type_on_two_sheets", not dup, mod.relpath, str(dup)))
        v = mod.assigns.get("_TYPE_TO_SHEET")
        shape = isinstance(v, ast.DictComp) and ast.unparse(v) == "{transaction_type: sheet_name for sheet_name, transaction_types in _SHEET_TO_TYPES.items() for transaction_type in transaction_types}"
        out.append(A.bvc(mname + "/<module>", "case", "type_to_sheet_is_the_inverse_of_sheet_to_types", shape, mod.relpath, ast.unparse(v)[:200] if v is not None else "missing"))
        for t, sheet in sorted(ROUTE.items()):
            out.append(A.bvc(mname + "/<module>", "case", f"{t}_goes_to_{sheet.replace(' ', '_')}", inv.get(t) == sheet, mod.relpath,
                             f"{t} -> {inv.get(t)!r}; a taxable event of this type " + ("has no sheet (KeyError in __generate)" if t not in inv else "lands on another sheet")))
        names = _enum_members(mod, "SheetNames") or {}
        out.append(A.bvc(mname + "/<module>", "case", "every_routed_sheet_is_a_template_sheet_kept", set(inv.values()) <= set(names.values()) and
                         ast.unparse(mod.assigns.get("_TEMPLATE_SHEETS_TO_KEEP") or ast.parse("0")) == "{f'__{item.value}' for item in SheetNames}", mod.relpath))
    return out


def rows(pr):
    out = []
    for c, (mname, datefmt) in PLUGINS.items():
        mod = pr.tree.modules[mname]
        q = mname + ".Generator.__generate"
        F = A.Fn(pr.tree, q)
        f = F.node
        loops = A.loops_of(f) if f else []
        main = next((lp for lp in loops if any(isinstance(c2, ast.Call) and isinstance(c2.func, ast.Attribute) and c2.func.attr == "_fill_cell" for c2 in ast.walk(lp))), None)
        w = A.Writer(f, main, row_expr="row_indexes[sheet.name]") if main is not None else None
        sheet = "output_file.sheets[_TYPE_TO_SHEET[ELT.taxable_event.transaction_type]]"
        lot = "ELT.acquired_lot"
        b = {0: "ELT.crypto_amount", 1: "ELT.asset", 3: f"ELT.taxable_event.timestamp.strftime('{datefmt}')", 4: "ELT.taxable_event_fiat_amount_with_fee_fraction",
             8: "ELT.fiat_gain", 14: "'LONG' if ELT.is_long_term_capital_gains() else 'SHORT'", 13: "ELT.taxable_event.unique_id",
             2: {lot: f"ELT.acquired_lot.timestamp.strftime('{datefmt}')", "not " + lot: "''"}, 5: {lot: "ELT.fiat_cost_basis", "not " + lot: "''"},
             11: {lot: "ELT.acquired_lot.unique_id", "not " + lot: "''"}}
        out += A.writer_vcs(q, mod.relpath, w, "gain_loss_set", b)
        if w is not None:
            sheets = {cell[5] for cell in w.cells}
            out.append(A.bvc(q, "writer", "every_cell_goes_to_the_sheet_of_the_fractions_type", len(sheets) == 1 and A.expr_eq(sheet, next(iter(sheets)), w.scope), mod.relpath, str(sheets)[:300]))
            out.append(A.bvc(q, "writer", "row_counter_is_the_one_of_that_sheet", A.expr_eq(f"row_indexes[{sheet}.name]", w.row_norm, w.scope), mod.relpath, w.row_norm))
        # sizing, before any row is written
        sizing = F.has("for sheet in output_file.sheets:\n    if sheet.name == 'Legend':\n        continue\n    sheet_types = _SHEET_TO_TYPES[sheet.name]\n    for sheet_type in sheet_types:\n"
                       "        sheet.append_rows(self.MIN_ROWS + gain_loss_set.get_transaction_type_count(sheet_type) + 1)")
        out.append(A.bvc(q, "writer", "each_sheet_grows_by_MIN_ROWS_plus_count_plus_one_per_type", sizing and main is not None and all(lp.lineno < main.lineno for lp in loops if lp is not main), mod.relpath))
        G = A.Fn(pr.tree, mname + ".Generator.generate")
        g = G.node
        gl = A.loops_of(g) if g else []
        asset_loop = next((lp for lp in gl if A.expr_eq("asset_to_computed_data.items()", ast.unparse(lp.iter), G.scope)), None) if G else None
        counters_once = asset_loop is not None and G.has("row_indexes = {sheet_name.value: self.HEADER_ROWS for sheet_name in SheetNames}") and \
            A.has(asset_loop, "self.__generate(output_file, asset, computed_data.gain_loss_set, row_indexes)", G.mod, scope=G.scope) and \
            not any(isinstance(n, ast.Name) and isinstance(n.ctx, ast.Store) and n.id == G.scope.env.get("row_indexes", "row_indexes") for n in ast.walk(asset_loop))
        out.append(A.bvc(G.qual, "writer", "row_counters_created_once_and_shared_by_all_assets", bool(counters_once), mod.relpath))
        wl = A.Writer(g, asset_loop, row_expr="row_index") if asset_loop is not None else None
        out.append(A.bvc(G.qual, "writer", "every_asset_is_generated_no_break_continue",
                         wl is not None and not [s2 for s2 in wl.skips if s2[0] != "raise"], mod.relpath, str(wl.skips if wl else "")))
        out.append(A.bvc(G.qual, "writer", "only_sheets_whose_counter_never_moved_are_removed",
                         G.has("for sheet_name in output_file.sheets.names():\n    if sheet_name != 'Legend' and row_indexes[sheet_name] == Generator.HEADER_ROWS:\n        sheet_indexes_to_remove.append(index)\n    index += 1") and
                         G.has("for index in reversed(sheet_indexes_to_remove):\n    del output_file.sheets[index]"), mod.relpath))
        out.append(A.bvc(G.qual, "writer", "report_is_saved_after_all_assets", G.order("self.__generate(ANY)" if False else "for asset, computed_data in asset_to_computed_data.items():\n    ...", "output_file.save()"), mod.relpath))
    return out


def canaries(pr):
    def wrong_route(pr):
        mod = pr.tree.modules[PLUGINS["us"][0]]
        inv = {t: sh for sh, ts in (sheet_to_types(mod) or {}).items() for t in ts}
        return [A.bvc("canary", "case", "SELL_goes_to_Gifts", inv.get("SELL") == "Gifts", mod.relpath)]

    def wrong_column(pr):
        q = PLUGINS["ie"][0] + ".Generator.__generate"
        F = A.Fn(pr.tree, q)
        main = next((lp for lp in A.loops_of(F.node) if any(isinstance(c2, ast.Call) and isinstance(c2.func, ast.Attribute) and c2.func.attr == "_fill_cell" for c2 in ast.walk(lp))), None)
        w = A.Writer(F.node, main, row_expr="row_indexes[sheet.name]")
        return [v for v in A.writer_vcs("canary", "", w, "gain_loss_set", {8: "ELT.fiat_cost_basis"}) if "W4" in v.label]
    return [("sell_routed_to_gifts_must_fail", wrong_route), ("gain_column_bound_to_cost_basis_must_fail", wrong_column)]

MANIFEST_ENTRY = {
    "category": "other",
    "text": ("Routing decided by finite case analysis over the AST-evaluated sheet/type literals of tax_report_us and tax_report_ie against the statement's table "
             "(13 taxable types x 2 plugins); row completeness, column bindings (dates, proceeds, cost basis, gain, LONG/SHORT), shared per-sheet counters, "
             "sheet sizing and empty-sheet removal as table-writer contracts discharged on the AST of __generate/generate. Bounded: generated multi-asset "
             "14-type inputs through rp2_us and rp2_ie, every sheet of the written reports reopened and compared with the computed fractions."),
    "note": ("The writer rule is syntactic: it proves the stated shape, and any other shape is an open obligation. ezodf is assumed. IE routing of LOST was a "
             "genuine defect (fix 2427f03); the case obligation LOST_goes_to_Investment_Expenses guards it."),
    "technique": "finite case analysis + table-writer contracts discharged over the AST of the real generator; bounded process-level stand-in",
}
