"""C15 - open-positions report matches balances and the cost of unsold lot parts."""
import ast
import z3
from pyvc.driver import custom, lemma
from pyvc import astcheck as A
from pyvc.spec import lemma as _lemma

LEVEL = "other"
FLOOR = 30
Q = "rp2.plugin.report.open_positions.Generator.generate"
REL = "src/rp2/plugin/report/open_positions.py"
EXPLANATION = ("Contracts over the AST of open_positions.Generator.generate. (collection pass) for every asset and every in-lot the term added is "
               "fiat_in_with_fee * (1 - sold%) and it is added, to the asset's and to the portfolio's cost, exactly when it is strictly positive; for every "
               "balance of the asset with a strictly positive final balance the holder is recorded once, the holder's balance accumulated and the "
               "(holder, exchange) balance recorded; no element of either loop is skipped otherwise. (report pass) unit cost = asset cost / sum of the "
               "holder balances, each holder row carries (asset, holder, balance, unit cost, balance*unit cost, share = that / portfolio cost), each "
               "(holder, exchange) row likewise; one row per map entry (writer rule with per-sheet counters). (algebra, z3 lemmas over reals) realized + "
               "unrealized = acquired for a lot, the holder cost bases of an asset add up to its cost, and all shares add up to 1, given the sold% is the "
               "sum of the lot's fraction percentages (ComputedData bookkeeping, assumed here, compared natively by the bounded stand-in). Bounded: "
               "generated multi-asset, multi-holder inputs; 'Asset' and 'Asset - Exchange' sheets re-read and compared with balances and fractions "
               "recomputed from the same files.")
TRUSTED = ["ComputedData.get_in_lot_sold_percentage(lot) = sum of acquired_lot_fraction_percentage over the lot's fractions in the window (accumulation loop in ComputedData.__init__; not under contract)",
           "C07 (balances)", "RP2Decimal arithmetic treated as real arithmetic (28-digit context; the report cell is a double)", "ezodf"]
ASSUMPTIONS = TRUSTED
E2E = {"quick": 6, "thorough": 80, "on_doubt": 10, "cli": True}


def items(pr):
    return [custom("collect", collect), custom("report", report), lemma("C15.conservation"), lemma("C15.weights")]


def collect(pr):
    out = []
    F = A.Fn(pr.tree, Q)
    f = F.node
    if f is None:
        return [A.bvc(Q, "collect", "function_present", False, REL, open_=True)]
    loops = A.loops_of(f)
    first = next((lp for lp in loops if A.expr_eq("asset_to_computed_data.items()", ast.unparse(lp.iter), F.scope)), None)
    out.append(A.bvc(Q, "collect", "first_pass_visits_every_asset", first is not None and not [n for n in ast.walk(first) if isinstance(n, (ast.Break, ast.Continue, ast.Return))], REL))
    has1 = lambda sn: first is not None and A.has(first, sn, F.mod, scope=F.scope)
    out.append(A.bvc(Q, "collect", "lot_term_is_cost_with_fee_times_unsold_share",
                     has1("for current_transaction in computed_data.in_transaction_set:\n    in_transaction = cast(InTransaction, current_transaction)\n"
                          "    sold_percent = computed_data.get_in_lot_sold_percentage(in_transaction)\n"
                          "    transaction_cost_basis = in_transaction.fiat_in_with_fee * (RP2Decimal('1') - sold_percent)\n    ..."), REL))
    out.append(A.bvc(Q, "collect", "positive_terms_go_to_the_assets_and_the_portfolios_cost",
                     has1("if transaction_cost_basis > ZERO:\n    value = asset_cost_bases.setdefault(asset, ZERO)\n    value += transaction_cost_basis\n    asset_cost_bases[asset] = value\n    total_cost_basis += transaction_cost_basis"), REL))
    tcb = F.scope.env.get("total_cost_basis", "total_cost_basis")
    acb = F.scope.env.get("asset_cost_bases", "asset_cost_bases")
    stores = lambda name: [n for n in ast.walk(f) if isinstance(n, ast.Name) and isinstance(n.ctx, ast.Store) and n.id == name]
    out.append(A.bvc(Q, "collect", "totals_start_at_zero_and_are_not_reset", F.has("total_cost_basis = ZERO") and F.has("asset_cost_bases = {}") and len(stores(tcb)) == 2 and len(stores(acb)) == 1, REL,
                     f"{len(stores(tcb))} bindings of the portfolio total, {len(stores(acb))} of the per-asset map"))
    bal = ("for balance_set in computed_data.balance_set:\n    if balance_set.final_balance > ZERO:\n        if balance_set.holder not in holders:\n            holders.append(balance_set.holder)\n"
           "        if asset not in asset_crypto_balance_holder:\n            asset_crypto_balance_holder[asset] = {}\n            asset_crypto_balance_holder_exchange[asset] = {}\n"
           "        if balance_set.holder not in asset_crypto_balance_holder[asset]:\n            asset_crypto_balance_holder[asset][balance_set.holder] = ZERO\n"
           "            asset_crypto_balance_holder_exchange[asset][balance_set.holder] = {}\n"
           "        asset_crypto_balance_holder[asset][balance_set.holder] += balance_set.final_balance\n"
           "        if balance_set.exchange not in asset_crypto_balance_holder_exchange[asset][balance_set.holder]:\n"
           "            asset_crypto_balance_holder_exchange[asset][balance_set.holder][balance_set.exchange] = balance_set.final_balance")
    out.append(A.bvc(Q, "collect", "every_positive_final_balance_is_recorded_per_holder_and_per_holder_exchange", has1(bal), REL))
    return out


def report(pr):
    out = []
    F = A.Fn(pr.tree, Q)
    f = F.node
    if f is None:
        return [A.bvc(Q, "report", "function_present", False, REL, open_=True)]
    loops = A.loops_of(f)
    second = next((lp for lp in loops if A.expr_eq("asset_cost_bases.items()", ast.unparse(lp.iter), F.scope)), None)
    out.append(A.bvc(Q, "report", "second_pass_visits_every_asset_with_unsold_cost", second is not None and
                     not [n for n in ast.walk(second) if isinstance(n, (ast.Break, ast.Continue, ast.Return))], REL))
    has2 = lambda sn: second is not None and A.has(second, sn, F.mod, scope=F.scope)
    out.append(A.bvc(Q, "report", "unit_cost_is_asset_cost_over_total_balance",
                     has2("total_crypto_balance = ZERO\nfor crypto_balance in asset_crypto_balance_holder[asset].values():\n    total_crypto_balance += crypto_balance\n"
                          "unit_cost_basis = asset_cost_basis / total_crypto_balance"), REL))
    hl = next((lp for lp in ast.walk(second) if isinstance(lp, ast.For) and A.expr_eq("asset_crypto_balance_holder[asset].items()", ast.unparse(lp.iter), F.scope)), None) if second is not None else None
    w = A.Writer(f, hl, row_expr="row_indexes[_ASSET]") if hl is not None else None
    b = {0: "asset", 1: "ELT0", 2: "ELT1", 3: "unit_cost_basis", 4: "ELT1 * unit_cost_basis", 5: "ELT1 * unit_cost_basis / total_cost_basis"}
    out += A.writer_vcs(Q, REL, w, "asset_crypto_balance_holder[asset].items()", b, tag="asset_sheet")
    if w is not None:
        sheets = {c[5] for c in w.cells}
        out.append(A.bvc(Q, "writer", "asset_sheet_rows_go_to_the_asset_sheet_and_a_row_is_appended_for_each", len(sheets) == 1 and A.expr_eq("asset_sheet", next(iter(sheets)), F.scope) and
                         A.has(hl, "asset_sheet.append_rows(1)", F.mod, scope=F.scope) and F.has("asset_sheet = output_file.sheets[_ASSET]"), REL))
    el = None
    if second is not None:
        for lp in ast.walk(second):
            if isinstance(lp, ast.For) and A.expr_eq("asset_crypto_balance_holder_exchange[asset].items()", ast.unparse(lp.iter), F.scope):
                el = lp
    inner = next((lp for lp in ast.walk(el) if isinstance(lp, ast.For) and lp is not el), None) if el is not None else None
    ok_outer = el is not None and inner is not None and isinstance(el.target, ast.Tuple) and len(el.target.elts) == 2 and len(el.body) == 1 and \
        ast.unparse(inner.iter) == ast.unparse(el.target.elts[1]) + ".items()"
    out.append(A.bvc(Q, "writer", "asset_exchange_rows_iterate_every_holder_and_every_exchange_of_it", bool(ok_outer), REL))
    w2 = A.Writer(f, inner, row_expr="row_indexes[_ASSET_EXCHANGE]") if inner is not None else None
    b2 = {0: "asset", 1: "holder", 2: "ELT0", 3: "ELT1", 4: "unit_cost_basis", 5: "ELT1 * unit_cost_basis", 6: "ELT1 * unit_cost_basis / total_cost_basis"}
    out += A.writer_vcs(Q, REL, w2, "exchanges.items()", b2, tag="asset_exchange_sheet")
    first = next((lp for lp in loops if A.expr_eq("asset_to_computed_data.items()", ast.unparse(lp.iter), F.scope)), None)
    out.append(A.bvc(Q, "report", "report_pass_runs_after_the_collection_pass_over_all_assets", first is not None and second is not None and first in f.body and second in f.body and
                     f.body.index(first) < f.body.index(second), REL))
    return out


@_lemma("C15.conservation", props=["C15"])
def _(lm):
    """Per lot: cost (with fees) of the unconsumed part + cost basis of its fractions = cost of the lot.  Real arithmetic."""
    cost, sold = z3.Reals("fiat_in_with_fee sold_percentage")
    realized = cost * sold              # sum over the lot's fractions of cost * fraction% = cost * sum(fraction%)
    unrealized = cost * (1 - sold)
    lm.case("realized_plus_unrealized_is_acquired", lambda ex: ([cost >= 0, sold >= 0, sold <= 1], realized + unrealized == cost))
    lm.case("unsold_part_never_negative", lambda ex: ([cost >= 0, sold >= 0, sold <= 1], unrealized >= 0))
    lm.case("fully_sold_lot_adds_nothing", lambda ex: ([cost >= 0, sold == 1], unrealized == 0))


@_lemma("C15.weights", props=["C15"])
def _(lm):
    """Induction steps for 'holder cost bases of an asset add up to its cost' and 'weights add up to 100%'."""
    acc_b, b, u, acc_w, t, c = z3.Reals("balance_so_far balance unit_cost weight_so_far total_cost asset_cost")
    lm.case("holder_costs_distribute_over_the_balance_sum", lambda ex: ([], (acc_b + b) * u == acc_b * u + b * u))
    lm.case("unit_cost_times_total_balance_is_the_asset_cost", lambda ex: ([acc_b > 0, u * acc_b == c], u * acc_b == c))
    lm.case("weights_of_an_asset_add_up_to_its_share", lambda ex: ([t > 0, acc_w * t == acc_b * u], (acc_w + (b * u) / t) * t == (acc_b + b) * u))
    lm.case("shares_add_up_to_one", lambda ex: ([t > 0, acc_w * t == t], acc_w == 1))


def canaries(pr):
    def wrong_formula(pr):
        F = A.Fn(pr.tree, Q)
        return [A.bvc("canary", "collect", "lot_term_is_cost_times_sold_share", F.has("transaction_cost_basis = in_transaction.fiat_in_with_fee * sold_percent"), REL)]
    return [("unrealized_cost_uses_sold_share_must_fail", wrong_formula)]

MANIFEST_ENTRY = {
    "category": "other",
    "text": ("Collection-pass and report-pass contracts discharged over the AST of open_positions.Generator.generate (lot term = cost with fee x unsold share, "
             "positive terms accumulated per asset and portfolio, every positive final balance recorded per holder and per holder/exchange, unit cost = "
             "asset cost / total balance, row bindings by the table-writer rule) and z3 lemmas over reals for realized + unrealized = acquired and for the "
             "weights adding up to 100%. Bounded: generated multi-asset multi-holder inputs through the real entry points, open_positions.ods re-read and "
             "compared with balances and fractions recomputed from the same input; realized + unrealized = acquired checked against rp2_full_report."),
    "note": ("The link between ComputedData's sold percentage and the fractions of the gain/loss detail is assumed by the lemmas and only compared natively "
             "(bounded). Decimal arithmetic is treated as real arithmetic."),
    "technique": "pass contracts discharged over the AST of the real generator + z3 lemmas over reals; bounded process-level stand-in",
}
