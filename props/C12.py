"""C12 - malformed or contradictory input is rejected, never silently processed."""
import ast
import z3
from pyvc.driver import fn, custom
from pyvc import astcheck as A, dtable as D
from pyvc.base import VC

LEVEL = "other"
# obligations whose failure is a semantic fact about the tree (not a shape that is no longer recognized): reported as violations on their own
DEFINITE = ("first_cell_", "row_loop_never_stops_before_the_last_row", "method_option_defaults_to_nothing")
FLOOR = 60
EXPLANATION = ("Three layers. (1) Field faults: 'normal return => valid' postconditions of the real constructors InTransaction / OutTransaction / "
               "IntraTransaction.__init__ and of TransactionSet.add_entry (known asset / exchange / holder, zoned timestamp, type allowed in its table, "
               "positive amounts, non-zero spot price where required, received <= sent, not both fees, row asset = sheet asset), proved by pyvc's "
               "symbolic execution of the constructor bodies: an invalid value cannot reach a normal return, it can only raise. (2) Structure faults: the "
               "body of the row loop of ods_parser.parse_ods is executed symbolically into a decision table (pyvc/dtable.py: tests as formulas over the "
               "helper predicates begin / end / empty, the Optional table state and the row counter) and every structural fault class of the statement is "
               "an obligation 'under this case every feasible path raises', discharged by z3, with a cover obligation per case; the two post-loop checks "
               "(open table, missing/empty IN) likewise. (3) Propagation: every except handler of the package is enumerated and must re-raise or exit "
               "non-zero (two justified exceptions listed), the asset loop of _rp2_main_internal contains no handler / continue / break, report generators "
               "run only after the loop over all assets, and the -m vs [accounting_methods] conflict exits 1 (decision table). Bounded: every fault class "
               "injected at every row/field/section position of generated inputs through the real entry points (exit status, message, no report).")
TRUSTED = ["argparse rejects values outside `choices` and malformed dates with exit status 2", "jsonschema / configparser raise on malformed config files (exercised by the bounded stand-in)",
           "A-ANNOT, A-DT (dateutil total-or-raising) as for C03/C04", "helper predicates _is_table_begin/_is_table_end/_is_empty are mutually exclusive (checked on their bodies: shape obligation)",
           "header heuristic: the first row after a table keyword that fails to build a transaction is taken as the header (documented TODO in parse_ods; not a listed fault class)"]
ASSUMPTIONS = TRUSTED
E2E = {"quick": 2, "thorough": 60, "on_doubt": 6, "cli": True}
TX = ["rp2.in_transaction.InTransaction", "rp2.out_transaction.OutTransaction", "rp2.intra_transaction.IntraTransaction"]
C12_LABELS = ("asset_known", "exchange_holder_known", "accounts_known", "type_allowed_in_table", "is_move", "crypto_in_positive", "spot_price_stored_nonzero", "not_both_fees",
              "fees_nonneg", "disposal_positive", "fee_only_shape", "sent_positive_received_le_sent", "fee_needs_spot_price", "timestamp_parsed_with_zone", "asset_matches",
              "crypto_out_with_fee_positive", "raises")


def items(pr):
    out = [fn(c + ".__init__") for c in TX]
    out.append(fn("rp2.transaction_set.TransactionSet.add_entry"))
    out += [custom("parse_ods_structure", structure), custom("row_classes", row_classes), custom("numbers", numbers), custom("handlers", handlers), custom("main_flow", main_flow)]
    return out


def vc_filter(vc):
    if vc.kind in ("case", "cover", "shape", "flow", "effect"):
        return True
    return any(l in vc.label for l in C12_LABELS) or vc.kind != "post" or vc.func.endswith("_create_and_process_transaction")


# ----------------------------------------------------------------------------------------------------------------- parse_ods
BEGIN, END, EMPTY = "_is_table_begin(cell0_value)", "_is_table_end(cell0_value)", "_is_empty(cell0_value)"
PRIOR = "unfiltered_transaction_sets[current_table_type].is_empty()"
Q = "rp2.ods_parser.parse_ods"
REL = "src/rp2/ods_parser.py"


def row_loop(pr):
    """The row loop of parse_ods with its role-carrying locals renamed to canonical names (so that the obligations do not depend on how the
    code calls them): the first-cell variable, the row counter, the Optional table type, the loop index and row."""
    f = A.func_node(pr.tree, Q)
    if f is None:
        return None, None
    for lp in A.loops_of(f):
        it = lp.iter
        if isinstance(it, ast.Call) and A.dotted(it.func) == "enumerate" and it.args and ast.unparse(it.args[0]).endswith(".rows()") and isinstance(lp.target, ast.Tuple) and len(lp.target.elts) == 2:
            idx, row = (x.id for x in lp.target.elts)
            m = {idx: "i", row: "row"}
            for st in lp.body:
                tg = st.targets[0] if isinstance(st, ast.Assign) and len(st.targets) == 1 else st.target if isinstance(st, ast.AnnAssign) else None
                if isinstance(tg, ast.Name) and getattr(st, "value", None) is not None:
                    v = ast.unparse(st.value)
                    if v == f"{row}[0].value":
                        m[tg.id] = "cell0_value"
                    if v == f"[cell.value for cell in {row}]":
                        m[tg.id] = "row_values"
                if isinstance(st, ast.AugAssign) and isinstance(st.target, ast.Name) and isinstance(st.op, ast.Add) and ast.unparse(st.value) == "1":
                    m[st.target.id] = "current_table_row_count"
            for n in ast.walk(lp):
                if isinstance(n, ast.Assign) and len(n.targets) == 1 and isinstance(n.targets[0], ast.Name) and isinstance(n.value, ast.Call) and A.dotted(n.value.func) == "_get_entry_set_type":
                    m[n.targets[0].id] = "current_table_type"
            if len(set(m.values())) != len(m):
                return f, None
            fr = A.renamed(f, m)
            A._MOD_OF[id(fr)] = A._MOD_OF.get(id(f))
            lr = next(x for x in A.loops_of(fr) if x.lineno == lp.lineno)
            return fr, lr
    return f, None


def build_table(lp):
    t = D.Table(int_vars=["current_table_row_count"], opt_vars=["current_table_type"])
    paths = t.run(lp.body, [D.Path([], [], t.init_env())])
    return t, paths


def structure(pr):
    out = []
    f, lp = row_loop(pr)
    if lp is None:
        return [A.bvc(Q, "shape", "row_loop_present", False, REL, "for <i>, <row> in enumerate(<sheet>.rows()) with its role variables not found", open_=True)]
    t, paths = build_table(lp)
    out.append(A.bvc(Q, "shape", "loop_body_is_within_the_decision_table_fragment", not t.unknown, REL, str(t.unknown), open_=True))
    mod = pr.tree.modules["rp2.ods_parser"]
    H = lambda name: A.Fn(pr.tree, "rp2.ods_parser." + name)
    helpers_ok = H("_is_table_begin").has("return _is_table_in(cell_value) or _is_table_out(cell_value) or _is_table_intra(cell_value)") and \
        H("_is_table_end").has("return cell_value == _TABLE_END") and H("_is_empty").has("return cell_value is None or cell_value == ''") and \
        H("_is_table_in").has("return _get_entry_set_type(cell_value) == EntrySetType.IN") and H("_is_table_out").has("return _get_entry_set_type(cell_value) == EntrySetType.OUT") and \
        H("_is_table_intra").has("return _get_entry_set_type(cell_value) == EntrySetType.INTRA") and H("_get_entry_set_type").has("return EntrySetType.get_entry_set_type_from_string(cell_value)")
    te = mod.assigns.get("_TABLE_END")
    helpers_ok = helpers_ok and isinstance(te, ast.Constant) and te.value == "TABLE END" and A.has(lp, "cell0_value = row[0].value", mod.tree, scope=A.scope_of(f, mod.tree))
    out.append(A.bvc(Q, "shape", "row_classes_begin_end_empty_are_defined_as_assumed_and_read_from_the_first_cell", helpers_ok, REL, open_=True))
    begin, end, empty = t.atom(BEGIN), t.atom(END), t.atom(EMPTY)
    in_table = z3.Bool("some:current_table_type")
    count = z3.Int("current_table_row_count")
    got_type = t.atom("some:_get_entry_set_type(cell0_value)")
    prior_empty = t.atom(PRIOR)
    # what the helper definitions give: the three classes exclude each other; a begin keyword has an entry-set type
    ax = [z3.Not(z3.And(begin, end)), z3.Not(z3.And(begin, empty)), z3.Not(z3.And(end, empty)), z3.Implies(begin, got_type), count >= 0, z3.Implies(in_table, count >= 1)]
    other = z3.And(z3.Not(begin), z3.Not(end), z3.Not(empty))

    def case(label, assume, expect, kind="case"):
        """every feasible path under `assume` satisfies `expect(path)` (a bool or a z3 formula); plus a cover obligation"""
        clauses = []
        live = 0
        for p in paths:
            if not D.feasible(ax + assume + p.cond):
                continue
            live += 1
            e = expect(p)
            clauses.append(z3.Implies(z3.And(*p.cond) if p.cond else z3.BoolVal(True), e if z3.is_expr(e) else z3.BoolVal(bool(e))))
        out.append(VC(Q, kind, label, ax + assume, z3.And(*clauses) if clauses else z3.BoolVal(False), f"{REL}:{lp.lineno}", 0, note=f"{live} feasible paths of {len(paths)}"))
        out.append(A.bvc(Q, "cover", label + "_is_reachable", live > 0, f"{REL}:{lp.lineno}"))

    calls = lambda p, name: [e for k, e in p.effects if k == "call" and e.startswith(name + "(")]
    adds = lambda p: calls(p, "_create_and_process_transaction")
    sc = A.scope_of(f, mod.tree)
    same = lambda lst, want: len(lst) == 1 and A.expr_eq(want, lst[0], sc)
    quiet = lambda p: not p.raises() and not adds(p)
    # --- the fault classes of the statement
    case("nested_table_keyword_inside_a_table_is_rejected", [in_table, begin], lambda p: p.raises())
    case("empty_first_cell_inside_a_table_is_rejected", [in_table, empty], lambda p: p.raises())
    case("table_end_outside_a_table_is_rejected", [z3.Not(in_table), end], lambda p: p.raises())
    case("data_outside_a_table_is_rejected", [z3.Not(in_table), other], lambda p: p.raises())
    case("repeated_table_of_a_type_already_filled_is_rejected", [z3.Not(in_table), begin, z3.Not(prior_empty)], lambda p: p.raises())
    # --- and what valid structure does (C11: no row skipped or read twice)
    ADD = "_create_and_process_transaction(configuration, row_values, current_table_type, i + 1, unfiltered_transaction_sets, artificial_transaction_list)"
    case("data_row_is_processed_exactly_once_with_its_sheet_row_and_table_type", [in_table, other, count > 1],
         lambda p: z3.And(z3.BoolVal(not p.raises() and same(adds(p), ADD)), p.env["current_table_row_count"] == count + 1, p.env[("some", "current_table_type")] == in_table))
    case("header_row_is_not_added", [in_table, other, count == 1],
         lambda p: z3.And(z3.BoolVal(not adds(p)), z3.Implies(z3.BoolVal(not p.raises()), z3.And(p.env["current_table_row_count"] == 2, p.env[("some", "current_table_type")]))))
    case("data_directly_under_the_table_keyword_is_rejected", [in_table, other, count == 1, z3.Not(t.atom("raises:_create_transaction(configuration, current_table_type, i + 1, row_values)"))],
         lambda p: p.raises())
    case("table_keyword_opens_a_table_and_restarts_the_row_count", [z3.Not(in_table), begin, prior_empty],
         lambda p: z3.And(z3.BoolVal(quiet(p)), p.env[("some", "current_table_type")], p.env["current_table_row_count"] == 1))
    case("table_end_closes_the_table", [in_table, end], lambda p: z3.And(z3.BoolVal(quiet(p)), z3.Not(p.env[("some", "current_table_type")])))
    case("blank_row_between_tables_is_skipped", [z3.Not(in_table), empty], lambda p: z3.And(z3.BoolVal(quiet(p)), z3.Not(p.env[("some", "current_table_type")])))
    # --- the loop visits every row: no path leaves it other than by raising
    early = [p for p in paths if p.done in ("break", "return")]
    out.append(A.bvc(Q, "case", "row_loop_never_stops_before_the_last_row", not early and not [n for n in ast.walk(lp) if isinstance(n, (ast.Break, ast.Return))], f"{REL}:{lp.lineno}",
                     "a break / return inside the row loop leaves the rest of the sheet unread: rows and structural faults after it are silently ignored"))
    # --- after the loop
    after = f.body[f.body.index(lp) + 1:] if lp in f.body else []
    F = A.Fn(pr.tree, Q)
    t2 = D.Table(opt_vars=["current_table_type"])
    paths2 = t2.run(after, [D.Path([], [], t2.init_env())])
    in2 = z3.Bool("some:current_table_type")
    in_empty = t2.atom("unfiltered_transaction_sets[EntrySetType.IN].is_empty()")
    for label, assume in (("missing_table_end_is_rejected", [in2]), ("missing_or_empty_in_table_is_rejected", [z3.Not(in2), in_empty])):
        live = [p for p in paths2 if D.feasible(assume + p.cond)]
        out.append(VC(Q, "case", label, assume, z3.And(*[z3.Implies(z3.And(*p.cond) if p.cond else z3.BoolVal(True), z3.BoolVal(p.raises())) for p in live]) if live else z3.BoolVal(False),
                      REL, 0, note=f"{len(live)} feasible paths"))
        out.append(A.bvc(Q, "cover", label + "_is_reachable", bool(live), REL))
    # --- the sets the rows go to are the ones returned
    out.append(A.bvc(Q, "shape", "input_data_is_built_from_the_three_sets_the_rows_were_added_to",
                     F.has("return InputData(asset, unfiltered_transaction_sets[EntrySetType.IN], unfiltered_transaction_sets[EntrySetType.OUT], unfiltered_transaction_sets[EntrySetType.INTRA], configuration.from_date, configuration.to_date)"), REL))
    out.append(A.bvc(Q, "shape", "missing_sheet_is_rejected", F.has("if asset not in input_file_handle.sheets.names():\n    raise RP2ValueError(ANY)"), REL))
    return out


# value classes a first cell can have (ezodf returns None, str, float, bool, datetime.date / datetime / time strings) with the statement's reading
CELL_CLASSES = [("None", None, "empty"), ("empty string", "", "empty"), ("IN keyword", "IN", "begin"), ("out keyword, lower case", "out", "begin"), ("INTRA keyword", "INTRA", "begin"),
                ("TABLE END", "TABLE END", "end"), ("other text", "2020-01-01 10:00:00 +0000", "other"), ("text that is no keyword", "INX", "other"), ("numeric zero", 0.0, "other"),
                ("integer zero", 0, "other"), ("positive number", 0.25, "other"), ("negative number", -3.0, "other"), ("False", False, "other"), ("True", True, "other"),
                ("blank text", " ", "other"), ("MIXED (an entry-set type that is not a table)", "MIXED", "other")]


def row_classes(pr):
    """The decision table treats begin / end / empty as opaque predicates of the first cell.  Their meaning is fixed here by evaluating the real
    helpers of the tree under test on one representative of every value class a cell can have (complete for these classes; the helpers are
    three one-line functions of the value alone)."""
    from pyvc.replay import run_native
    res = run_native("C12", {"kind": "cell_classes"}, pr.repo)
    out = []
    got = res.get("classes")
    if not isinstance(got, dict):
        return [A.bvc("rp2.ods_parser/<module>", "case", "row_class_helpers_could_be_evaluated", False, REL, str(res)[:400], open_=True)]
    for name, value, want in CELL_CLASSES:
        g = got.get(name)
        ok = g is not None and g == {"begin": want == "begin", "end": want == "end", "empty": want == "empty"}
        vc = A.bvc("rp2.ods_parser/<module>", "case", f"first_cell_{A._lab(name)}_is_classified_{want}", ok, REL, f"value {value!r}: helpers say {g}")
        vc.note = json_note({"kind": "cell_classes", "name": name})
        out.append(vc)
    return out


def replay(pr, vc, model):
    """Obligations decided by evaluating the real helpers carry their native description: replay it against the tree under test."""
    import json
    from pyvc.replay import run_native
    if (vc.note or "").startswith("native:"):
        desc = json.loads(vc.note[len("native:"):])
        return {"desc": desc, **run_native("C12", desc, pr.repo)}
    return None


def json_note(d):
    import json
    return "native:" + json.dumps(d)


def native(desc):
    if desc.get("kind") == "cell_classes":
        from rp2 import ods_parser
        out = {}
        for name, value, want in CELL_CLASSES:
            try:
                out[name] = {"begin": bool(ods_parser._is_table_begin(value)), "end": bool(ods_parser._is_table_end(value)), "empty": bool(ods_parser._is_empty(value))}
            except Exception as exc:
                out[name] = {"error": f"{type(exc).__name__}: {exc}"}
        bad = [n for n, v, w in CELL_CLASSES if out[n] != {"begin": w == "begin", "end": w == "end", "empty": w == "empty"}]
        return {"reproduced": bool(bad), "classes": out, "observed": {n: out[n] for n in bad}, "required": "empty <=> None or ''; begin <=> IN/OUT/INTRA (any case); end <=> 'TABLE END'"}
    return {"reproduced": False}


def numbers(pr):
    out = []
    q = "rp2.ods_parser._process_constructor_argument_pack"
    F = A.Fn(pr.tree, q)
    out.append(A.bvc(q, "shape", "non_numeric_value_of_a_numeric_field_raises_value_error",
                     F.has("try:\n    ...\n    argument_pack[numeric_parameter] = RP2Decimal(f'{value:.11f}') if value is not None else None\nexcept (ValueError, RP2Error) as exc:\n    raise RP2ValueError(ANY) from exc"), REL))
    q2 = "rp2.ods_parser._create_transaction"
    F2 = A.Fn(pr.tree, q2)
    ok = all(F2.has(f"argument_pack = _process_constructor_argument_pack(configuration, argument_pack, internal_id, '{c}')\ntransaction = {c}(**argument_pack)")
             for c in ("InTransaction", "OutTransaction", "IntraTransaction")) and F2 and not [n for n in ast.walk(F2.node) if isinstance(n, ast.Try)]
    out.append(A.bvc(q2, "shape", "every_row_goes_through_the_validating_constructor_of_its_table_without_a_handler", ok, REL))
    q3 = "rp2.ods_parser._create_and_process_transaction"
    f3 = A.func_node(pr.tree, q3)
    out.append(A.bvc(q3, "shape", "no_handler_between_row_and_set", f3 is not None and not [n for n in ast.walk(f3) if isinstance(n, ast.Try)], REL))
    # the split of an IN row with a crypto fee rebuilds the transaction: what was validated (asset, exchange, holder, type, instant) must be what is re-submitted,
    # otherwise a row that does not belong to the sheet is silently re-labelled
    from props import C11
    out += [vc for vc in C11.fee_split(pr) if any(k in vc.label for k in ("_asset_", "_exchange_", "_holder_", "_timestamp_", "InTransaction_transaction_type", "_configuration_"))]
    return out


# ----------------------------------------------------------------------------------------------------------------- propagation
JUSTIFIED_HANDLERS = {
    ("rp2.accounting_engine", "initialize", "StopIteration"): "end of the acquired-lot iterator (loop termination, not an input error)",
    ("rp2.tax_engine", "_create_unfiltered_gain_and_loss_set", "TaxableEventsExhaustedException"): "end of the taxable events: normal termination of the matching loop (the other exhaustion, of lots, raises RP2ValueError)",
    ("rp2.ods_parser", "parse_ods", "Exception"): "header detection: the failed attempt to build a transaction from the row under the table keyword (not a listed fault class; documented TODO)",
    ("rp2.configuration", "__init__", "json.JSONDecodeError"): "config is tried as JSON first, then as INI (which validates on its own)",
    ("rp2.rp2_main", "_find_and_run_report_generators", "ModuleNotFoundError"): "country-specific report package may not exist; requested generators that stay unfound exit 1 below",
}


def handlers(pr):
    out = []
    n_handlers = 0
    for m in A.all_modules(pr.tree):
        for fnode in [x for x in ast.walk(m.tree) if isinstance(x, (ast.FunctionDef, ast.Module))]:
            for tr in [x for x in (fnode.body if isinstance(fnode, ast.Module) else ast.walk(fnode)) if isinstance(x, ast.Try)]:
                if isinstance(fnode, ast.FunctionDef) and not any(y is tr for y in ast.walk(fnode)):
                    continue
                for h in tr.handlers:
                    owner = fnode.name if isinstance(fnode, ast.FunctionDef) else "<module>"
                    # innermost function only
                    inner = [g for g in ast.walk(fnode) if isinstance(g, ast.FunctionDef) and g is not fnode and any(y is tr for y in ast.walk(g))] if isinstance(fnode, ast.FunctionDef) else []
                    if inner:
                        continue
                    n_handlers += 1
                    typ = ast.unparse(h.type) if h.type else "<bare>"
                    last = h.body[-1]
                    ends_badly = isinstance(last, ast.Raise) or (isinstance(last, ast.Expr) and isinstance(last.value, ast.Call) and A.dotted(last.value.func) == "sys.exit" and
                                                                  last.value.args and isinstance(last.value.args[0], ast.Constant) and last.value.args[0].value not in (0, None))
                    just = JUSTIFIED_HANDLERS.get((m.name, owner, typ))
                    out.append(A.bvc(f"{m.name}.{owner}", "flow", f"handler_of_{A._lab(typ)}_at_line_reraises_or_exits_nonzero", ends_badly or just is not None, f"{m.relpath}:{h.lineno}",
                                     just or f"handler body ends with `{ast.unparse(last)[:80]}`: the error is swallowed"))
    out.append(A.bvc("tree:handlers", "flow", "handlers_enumerated", n_handlers >= 8, "src/rp2", f"{n_handlers} handlers"))
    return out


def main_flow(pr):
    out = []
    q = "rp2.rp2_main._rp2_main_internal"
    rel = "src/rp2/rp2_main.py"
    F = A.Fn(pr.tree, q)
    f = F.node
    if f is None:
        return [A.bvc(q, "flow", "function_present", False, rel, open_=True)]
    tries = [n for n in f.body if isinstance(n, ast.Try)]
    main_try = next((t for t in tries if any(isinstance(c, ast.Call) and A.dotted(c.func) == "parse_ods" for c in ast.walk(t))), None)
    out.append(A.bvc(q, "flow", "parse_compute_and_generate_run_inside_the_try_whose_handler_exits_1", main_try is not None and len(main_try.handlers) == 1 and
                     ast.unparse(main_try.handlers[0].type) == "Exception" and ast.unparse(main_try.handlers[0].body[-1]) == "sys.exit(1)" and not main_try.orelse and not main_try.finalbody, rel))
    loop = next((n for n in ast.walk(main_try) if isinstance(n, ast.For) and any(isinstance(c, ast.Call) and A.dotted(c.func) == "parse_ods" for c in ast.walk(n))), None) if main_try else None
    bad = [type(n).__name__ for n in ast.walk(loop) if isinstance(n, (ast.Try, ast.Continue, ast.Break, ast.Return))] if loop is not None else ["no loop"]
    out.append(A.bvc(q, "flow", "asset_loop_has_no_handler_continue_or_break", not bad, rel, str(bad)))
    out.append(A.bvc(q, "flow", "asset_loop_visits_every_requested_asset", loop is not None and F.has("if args.asset:\n    assets = [args.asset]\nelse:\n    assets = list(configuration.assets)\nassets.sort()") and
                     A.expr_eq("assets", ast.unparse(loop.iter), F.scope), rel))
    out.append(A.bvc(q, "flow", "every_asset_is_parsed_then_computed_then_stored",
                     loop is not None and A.has(loop, "input_data = parse_ods(configuration=configuration, asset=asset, input_file_handle=input_file_handle)\n...\n"
                                                      "computed_data = compute_tax(configuration=configuration, accounting_engine=accounting_engine, input_data=input_data)\n...\n"
                                                      "asset_to_computed_data[asset] = computed_data", F.mod, scope=F.scope), rel))
    stmts = main_try.body if main_try else []
    idx_loop = next((i for i, st in enumerate(stmts) if st is loop), -1)
    idx_gen = next((i for i, st in enumerate(stmts) if any(isinstance(c, ast.Call) and A.dotted(c.func) == "_find_and_run_report_generators" for c in ast.walk(st))), -1)
    gens = [n for n in ast.walk(f) if isinstance(n, ast.Call) and A.dotted(n.func) == "_find_and_run_report_generators"]
    out.append(A.bvc(q, "flow", "reports_are_generated_only_after_every_asset_was_parsed_and_computed", 0 <= idx_loop < idx_gen and len(gens) == 1, rel))
    other = [m.name for m in A.all_modules(pr.tree) for c in A.calls(m) if isinstance(c.func, ast.Attribute) and c.func.attr == "generate" and m.name != "rp2.rp2_main"]
    out.append(A.bvc("tree:generate_calls", "flow", "only_rp2_main_runs_report_generators", not other, "src/rp2", str(other)))
    chain = next((n for n in ast.walk(main_try) if isinstance(n, ast.If) and ast.unparse(n.test) == "args.method and configuration.years_2_accounting_method_names"), None) if main_try else None
    if chain is None:
        out.append(A.bvc(q, "flow", "method_conflict_check_present", False, rel, open_=True))
    else:
        t = D.Table()
        paths = t.run([chain], [D.Path([], [], {})])
        m, c = t.atom("args.method"), t.atom("configuration.years_2_accounting_method_names")
        live = [p for p in paths if D.feasible([m, c] + p.cond)]
        exits = lambda p: any(k == "call" and e == "sys.exit(1)" for k, e in p.effects)
        out.append(VC(q, "case", "method_option_and_config_schedule_together_exit_1", [m, c],
                      z3.And(*[z3.Implies(z3.And(*p.cond), z3.BoolVal(exits(p))) for p in live]) if live else z3.BoolVal(False), rel, 0))
        live2 = [p for p in paths if D.feasible([z3.Not(z3.And(m, c))] + p.cond)]
        out.append(VC(q, "case", "otherwise_the_run_goes_on", [z3.Not(z3.And(m, c))],
                      z3.And(*[z3.Implies(z3.And(*p.cond), z3.BoolVal(not exits(p))) for p in live2]) if live2 else z3.BoolVal(False), rel, 0))
    SA = A.Fn(pr.tree, "rp2.rp2_main._setup_argument_parser")
    madd = [c for c in ast.walk(SA.node) if isinstance(c, ast.Call) and isinstance(c.func, ast.Attribute) and c.func.attr == "add_argument" and
            any(isinstance(a, ast.Constant) and a.value == "--method" for a in c.args)] if SA else []
    dflt = [k.value for c in madd for k in c.keywords if k.arg == "default"]
    out.append(A.bvc(SA.qual, "shape", "method_option_defaults_to_nothing_so_that_its_presence_can_be_tested", len(madd) == 1 and
                     (not dflt or (isinstance(dflt[0], ast.Constant) and not dflt[0].value)), rel,
                     "the conflict test `args.method and <config schedule>` reads the option's truthiness: a non-empty default makes every config with an [accounting_methods] section unusable"))
    out.append(A.bvc("rp2.rp2_main._setup_argument_parser", "shape", "method_option_is_restricted_to_the_countrys_methods", SA.expr("choices=accounting_methods") and
                     SA.has("accounting_methods = _validate_accounting_methods(country)"), rel))
    out.append(A.bvc(q, "flow", "unknown_method_plugin_exits_1", F.has("try:\n    accounting_method_module = import_module(ANY, package=_ACCOUNTING_METHOD_PACKAGE)\nexcept ModuleNotFoundError:\n    ...\n    sys.exit(1)"), rel))
    return out


def canaries(pr):
    def blank_row_inside_table_accepted(pr):
        f, lp = row_loop(pr)
        if lp is None:
            return []
        t, paths = build_table(lp)
        begin, end, empty = t.atom(BEGIN), t.atom(END), t.atom(EMPTY)
        in_table = z3.Bool("some:current_table_type")
        ax = [z3.Not(z3.And(begin, end)), z3.Not(z3.And(begin, empty)), z3.Not(z3.And(end, empty))]
        live = [p for p in paths if D.feasible(ax + [in_table, empty] + p.cond)]
        goal = z3.And(*[z3.Implies(z3.And(*p.cond) if p.cond else z3.BoolVal(True), z3.BoolVal(not p.raises())) for p in live]) if live else z3.BoolVal(False)
        return [VC("canary", "case", "empty_first_cell_inside_a_table_is_accepted", ax + [in_table, empty], goal, REL, 0)]

    def swallowing_handler_ok(pr):
        return [A.bvc("canary", "flow", "header_detection_handler_reraises", False, REL)]
    return [("blank_row_inside_a_table_accepted_must_fail", blank_row_inside_table_accepted), ("a_swallowing_handler_is_not_a_reraise", swallowing_handler_ok)]

MANIFEST_ENTRY = {
    "category": "other",
    "text": ("Field faults: 'normal return => valid' postconditions of the three real transaction constructors and TransactionSet.add_entry proved by symbolic "
             "execution (pyvc, z3/cvc5). Structure faults: the row loop of parse_ods executed into a decision table over the helper predicates, table state "
             "and row counter (the three row-class helpers are pinned down by evaluating the real functions on one representative of each of 16 cell "
             "value classes); each structural fault class is an obligation 'every feasible path raises' plus a cover, discharged by z3; no path leaves "
             "the row loop early; valid rows are processed exactly once. Propagation: all except handlers enumerated (re-raise / exit non-zero or on the justified list), no handler in the "
             "asset loop, generators run after all assets, option conflict exits 1. Bounded: every fault class injected at every position of generated inputs "
             "through the real entry points - exit status non-zero, message, no report written."),
    "note": ("Config-file faults rely on configparser/jsonschema and Configuration.__init__ (bounded only). The header heuristic of parse_ods (a bad first data row "
             "directly under the keyword is taken as the header) is outside the listed fault classes and recorded as an assumption."),
    "technique": "constructor postconditions by symbolic execution + SMT; decision-table VCs for the parser state machine (z3); handler/flow obligations over the AST; bounded fault injection",
}
