"""C05 - long-term vs short-term classification follows the holding period."""
import z3
from pyvc.driver import fn, lemma, custom
from pyvc import spec as S, vals as V
from pyvc.base import VC

LEVEL = "proof"
FLOOR = 12
EXPLANATION = ("is_long_term_capital_gains verified against: long-term <=> lot present and floor((instant(event)-instant(lot))/1 day) >= "
               "threshold(country) with the thresholds of the statement (365 US/ES, never JP/IE, configured value generic); the five country "
               "getters and Generic.__init__ verified against their clauses; independence of UTC offsets as a two-copy obligation.")
TRUSTED = ["A-DT: aware datetimes subtract/compare as UTC instants; timedelta.days = floor(microseconds / 86_400_000_000)",
           "A-ANNOT: type annotations are truthful (repo ships strict mypy)", "int(str) is a total-or-ValueError function",
           "os.environ.get returns the variable or None", "AbstractCountry.__init__ (pycountry lookup) assumed: stores the two ISO codes or raises"]
ASSUMPTIONS = TRUSTED
E2E = {"quick": 60, "thorough": 2000, "on_doubt": 400}

COUNTRIES = ["rp2.plugin.country.us.US", "rp2.plugin.country.es.ES", "rp2.plugin.country.jp.JP", "rp2.plugin.country.ie.IE",
             "rp2.plugin.country.generic.Generic"]


def items(pr):
    out = [fn("rp2.gain_loss.GainLoss.is_long_term_capital_gains")]
    for c in COUNTRIES:
        out.append(fn(c + ".get_long_term_capital_gain_period"))
    out.append(fn("rp2.plugin.country.generic.Generic.__init__"))
    out.append(custom("country_classes_complete", country_classes_complete))
    return out


def country_classes_complete(pr):
    """Every concrete AbstractCountry subclass in the tree is one of the five the statement names (a sixth one would need a clause)."""
    subs = [q for q in pr.tree.subclasses("rp2.abstract_country.AbstractCountry") if not pr.ex.is_abstract_class(q)]
    extra = sorted(set(subs) - set(COUNTRIES))
    missing = sorted(set(COUNTRIES) - set(subs))
    goal = z3.BoolVal(not extra and not missing)
    return [VC("tree:country_plugins", "enum", "exactly_the_five_countries", [], goal, "src/rp2/plugin/country", 0, note=f"extra={extra} missing={missing}")]


def canaries(pr):
    def wrong_threshold(pr):
        k = S.Contract("rp2.plugin.country.us.US.get_long_term_capital_gain_period")
        k.ensures("is_366", lambda s: s.result == 366)
        saved = S.CONTRACTS["rp2.plugin.country.us.US.get_long_term_capital_gain_period"]
        S.CONTRACTS[k.target] = k
        try:
            return pr.gen_fn(k.target, canary=True)
        finally:
            S.CONTRACTS[k.target] = saved
    return [("us_threshold_366_must_fail", wrong_threshold)]


# ------------------------------------------------------------------ replay (DESIGN 6.2)
def replay(pr, vc, model):
    from pyvc.replay import ModelView, run_native
    mv = ModelView(pr.ex, model)
    self_ = z3.Const("self", V.Ref)
    short = {q: q.rsplit(".", 2)[-2] for q in COUNTRIES}
    if "is_long_term_capital_gains" in vc.func:
        ev = mv.ref(mv.field_term(self_, "GainLoss.__taxable_event"))
        lot_none = mv.is_none(self_, "GainLoss.__acquired_lot")
        lot = mv.ref(mv.field_term(self_, "GainLoss.__acquired_lot"))
        cfg = mv.ref(mv.field_term(self_, "AbstractEntry.__configuration"))
        country = mv.ref(mv.field_term(cfg, "Configuration.__country"))
        cq = mv.cls_name(country)
        desc = {"kind": "is_long", "event_ts": mv.field(ev, "AbstractTransaction.__timestamp"),
                "lot_ts": None if lot_none else mv.field(lot, "AbstractTransaction.__timestamp"),
                "country": short.get(cq, "us"),
                "generic_days": mv.field(country, "Generic.__long_term_capital_gain_period") if cq and cq.endswith("Generic") else None}
    elif "get_long_term_capital_gain_period" in vc.func:
        q = vc.func.rsplit(".", 1)[0]
        desc = {"kind": "threshold", "country": short.get(q, "us"), "generic_days": 7}
    else:
        return None
    res = run_native("C05", desc, pr.repo)
    return {"desc": desc, **res}


def native(desc):
    """Runs against the real rp2 of the tree under test; the expectation is computed from the statement, not from rp2."""
    import datetime as dt
    from harness import rp2h
    name = desc["country"]
    thresholds = {"us": 365, "es": 365, "jp": None, "ie": None, "generic": desc.get("generic_days")}
    if desc["kind"] == "threshold":
        got = rp2h.country(name, desc.get("generic_days")).get_long_term_capital_gain_period()
        want = thresholds[name]
        ok = (got > 3652425) if want is None else (got == want)
        return {"reproduced": not ok, "observed": got, "required": "never (> 3652425 days)" if want is None else want}
    from rp2.in_transaction import InTransaction
    from rp2.out_transaction import OutTransaction
    from rp2.gain_loss import GainLoss
    cfg = rp2h.configuration(name, desc.get("generic_days"))
    ev_ts = rp2h.iso(desc["event_ts"]["inst"], desc["event_ts"]["off"])
    if desc["lot_ts"] is None:
        ev = InTransaction(cfg, ev_ts, "B1", "Coinbase", "Bob", "interest", rp2h.D(10), rp2h.D(1), row=2)
        g = GainLoss(cfg, rp2h.D(1), ev, None)
        got = g.is_long_term_capital_gains()
        return {"reproduced": got is not False, "observed": got, "required": False, "inputs": {"event": ev_ts}}
    lot_ts = rp2h.iso(desc["lot_ts"]["inst"], desc["lot_ts"]["off"])
    lot = InTransaction(cfg, lot_ts, "B1", "Coinbase", "Bob", "buy", rp2h.D(10), rp2h.D(1), row=1)
    ev = OutTransaction(cfg, ev_ts, "B1", "Coinbase", "Bob", "sell", rp2h.D(10), rp2h.D(1), rp2h.D(0), row=2)
    g = GainLoss(cfg, rp2h.D(1), ev, lot)
    got = g.is_long_term_capital_gains()
    days = (desc["event_ts"]["inst"] - desc["lot_ts"]["inst"]) // (86400 * 1000000)
    th = thresholds[name]
    want = False if th is None else days >= th
    return {"reproduced": got != want, "observed": got, "required": want, "whole_days": days, "threshold": th,
            "inputs": {"lot": lot_ts, "event": ev_ts, "country": name}}


def nice(pr, vc):
    """Presentation constraints for counterexamples: whole-hour offsets within -12h..+14h, whole-second instants in 1970..2100."""
    from pyvc.replay import ModelView
    if "is_long_term_capital_gains" not in vc.func:
        return []
    mv = ModelView(pr.ex, None)
    self_ = z3.Const("self", V.Ref)
    out = []
    for spec in ("GainLoss.__taxable_event", "GainLoss.__acquired_lot"):
        ts = mv.field_term(mv.field_term(self_, spec), "AbstractTransaction.__timestamp")
        inst, off = V.DT.inst(ts), V.DT.off(ts)
        out += [off % 3600 == 0, off >= -12 * 3600, off <= 14 * 3600, inst % 1000000 == 0, inst >= 86400 * 1000000, inst < 4102444800 * 1000000]
    return out


MANIFEST_ENTRY = {
    "category": "proof",
    "text": ("Every obligation generated from the current source of GainLoss.is_long_term_capital_gains, the five country plugins' threshold getters "
             "and Generic.__init__ is discharged by z3 for all timestamps, UTC offsets, countries and configured values: long-term <=> a lot is "
             "present and floor((instant(event) - instant(lot)) / 1 day) >= threshold from the statement. Unbounded in the inputs; refutations are "
             "replayed on the real classes."),
    "note": ("Trusts: aware-datetime subtraction/`.days` semantics of CPython (A-DT), truthful annotations (A-ANNOT), os.environ / int(str) / pycountry as "
             "assumed external contracts, and the home-made VC generator (guarded by a must-fail canary on every run). GainLoss's validity "
             "(lot absent <=> earn-typed event, lot not later than event) is a precondition here and a postcondition of GainLoss.__init__ proved under C03/C02."),
}
