"""C17 - results depend only on the input: deterministic, order- and asset-independent."""
import ast
import z3
from pyvc.driver import fn, lemma, custom
from pyvc import astcheck as A
from pyvc.base import VC

LEVEL = "other"
# obligations whose failure is a semantic fact about the tree (not a shape that is no longer recognized): reported as violations on their own
DEFINITE = ("sort_key_mentions_the_whole_grouping_key",)
FLOOR = 25
EXPLANATION = ("Frame/effect contracts discharged over the AST: (a) no source of nondeterminism reaches a computed value - iteration over a set / frozenset "
               "(hash-seed dependent) is allowed only inside sorted() or for pure membership bookkeeping, and id(), hash(), random, time, datetime.now(), "
               "os.environ occur only at the listed, justified sites; (c) state that outlives an asset or a run: every class-level or module-level mutable "
               "value of the package is enumerated and must be on the justified list (never mutated, or reset per asset); the yearly list's sort key is "
               "injective on its grouping key (so sorted(set) is independent of set order). (b) Sort-uniqueness: entries are sorted by instant with a stable "
               "sort, so with pairwise distinct instants the order is unique (lemma). The functional postconditions proved for C03-C08/C10 make those "
               "functions deterministic in the strict sense. Bounded: identical reports under three hash seeds and a dirty output directory; row / table "
               "permutations; each asset alone vs. together.")
TRUSTED = ["CPython dict iteration is insertion order; pkgutil.iter_modules lists a package directory in sorted order", "ezodf writes the cell map it was given",
           "A-SORT (stable sort)"]
ASSUMPTIONS = TRUSTED
E2E = {"quick": 4, "thorough": 60, "on_doubt": 4, "cli": True}

# class-level / module-level mutable state that exists on the current tree, each with the reason it does not break the property
JUSTIFIED_STATE = {
    "rp2.plugin.report.rp2_full_report.Generator.__in_out_sheet_transaction_2_row": "reset at the start of every asset (see fix 84e0aa4)",
    "rp2.plugin.report.rp2_full_report.Generator.__tax_sheet_year_2_row": "keyed by (asset, year): entries of different assets never collide; written before read within an asset",
    "rp2.plugin.report.jp.tax_report_jp.Generator.__year_row_offset": "instance attribute assigned in generate() (annotation only at class level)",
}
NONDET_CALLS = {"id": "AbstractTransaction: row defaults to id(self) only when no row is given (parse_ods always passes the sheet row)",
                "hash": "__hash__ implementations hash immutable fields", "datetime.now": "logger: log file name only", "os.environ.get": "generic country / logger level: configuration by design",
                "getenv": "", "time.time": "", "random": ""}


def items(pr):
    return [custom("run_lived_state", run_lived_state), custom("set_iteration", set_iteration), custom("nondeterministic_calls", nondet_calls), custom("global_state", global_state),
            custom("yearly_sort_key_injective", sort_key_injective), lemma("C17.sort_unique")]


RUN_LIVED_ROOTS = ("AbstractAccountingMethod", "AbstractCountry", "AbstractReportGenerator", "AbstractODSGenerator", "Configuration")
MUTATORS = ("append", "add", "update", "setdefault", "pop", "clear", "insert", "insert_node", "extend", "remove", "discard", "popitem")
JUSTIFIED_INSTANCE_STATE = {
    "rp2.configuration.Configuration.__artificial_id_counter": "negative ids of artificial fee transactions: only their freshness matters, no report shows them (compared natively: each asset alone vs. together)",
    "rp2.plugin.report.jp.tax_report_jp.Generator.__year_row_offset": "one summary line per asset by design; the generator object is created for one report",
    "rp2.plugin.report.jp.tax_report_jp.Generator.__number_of_summaries": "position of the next summary sheet; one report per generator object",
    "rp2.plugin.report.rp2_full_report.Generator.__in_out_sheet_transaction_2_row": "re-created at the start of every asset (fix 84e0aa4; obligation transaction_link_map_is_reset_per_asset)",
    "rp2.plugin.report.rp2_full_report.Generator.__tax_sheet_year_2_row": "re-created at the start of every asset (fix 67a297a) and keyed by (asset, year)",
}


def _state_attrs(cls):
    res = {}

    def rec(attr, fn, how, container=False):
        d = res.setdefault(attr, {"assigned_in": set(), "mutated_in": set(), "container": False})
        d[how].add(fn)
        d["container"] = d["container"] or container
    for fn_ in [b for b in cls.body if isinstance(b, ast.FunctionDef)]:
        for n in ast.walk(fn_):
            if isinstance(n, (ast.Assign, ast.AnnAssign, ast.AugAssign)):
                for tg in (n.targets if isinstance(n, ast.Assign) else [n.target]):
                    if isinstance(tg, ast.Attribute) and isinstance(tg.value, ast.Name) and tg.value.id in ("self", "cls"):
                        v = getattr(n, "value", None)
                        cont = isinstance(v, (ast.Dict, ast.List, ast.Set, ast.DictComp, ast.ListComp, ast.SetComp)) or (isinstance(v, ast.Call) and A.dotted(v.func) in ("dict", "list", "set", "AVLTree", "defaultdict"))
                        rec(tg.attr, fn_.name, "assigned_in", cont)
                    if isinstance(tg, ast.Subscript) and isinstance(tg.value, ast.Attribute) and isinstance(tg.value.value, ast.Name) and tg.value.value.id in ("self", "cls"):
                        rec(tg.value.attr, fn_.name, "mutated_in", True)
            if isinstance(n, ast.Call) and isinstance(n.func, ast.Attribute) and n.func.attr in MUTATORS and isinstance(n.func.value, ast.Attribute) and \
                    isinstance(n.func.value.value, ast.Name) and n.func.value.value.id in ("self", "cls"):
                rec(n.func.value.attr, fn_.name, "mutated_in", True)
    return res


def run_lived_state(pr):
    """Objects that live for the whole run (accounting methods, configuration, country, report generators) must not carry state from one asset
    to the next: every attribute of such a class that is assigned or mutated outside __init__, or is a container mutated anywhere, is
    enumerated and must be on the justified list; accounting-method classes must carry no mutable attribute at all."""
    out = []
    classes = {}
    for m in A.all_modules(pr.tree):
        for c in [n for n in m.tree.body if isinstance(n, ast.ClassDef)]:
            classes[c.name + "@" + m.name] = (m, c)
    by_name = {}
    for k, (m, c) in classes.items():
        by_name.setdefault(c.name, []).append((m, c))

    def lived(c, seen=()):
        if c.name in RUN_LIVED_ROOTS:
            return c.name
        for b in c.bases:
            bn = A.dotted(b).split(".")[-1]
            if bn in RUN_LIVED_ROOTS:
                return bn
            for m2, c2 in by_name.get(bn, []):
                if c2 is not c and bn not in seen:
                    r = lived(c2, seen + (bn,))
                    if r:
                        return r
        return None
    n = 0
    for k, (m, c) in sorted(classes.items()):
        root = lived(c)
        if not root:
            continue
        for attr, d in sorted(_state_attrs(c).items()):
            outside = (d["assigned_in"] | d["mutated_in"]) - {"__init__"}
            text_only = outside <= {"_setup_text_data"} and not d["mutated_in"]
            method_state = root == "AbstractAccountingMethod"
            if not (outside or (d["container"] and d["mutated_in"]) or method_state) or text_only:
                continue
            n += 1
            name = f"{m.name}.{c.name}.{attr}"
            out.append(A.bvc(name, "frame", "state_of_a_run_lived_object_is_justified", name in JUSTIFIED_INSTANCE_STATE, m.relpath,
                             JUSTIFIED_INSTANCE_STATE.get(name, f"{root} objects live across assets; attribute assigned in {sorted(d['assigned_in'])}, mutated in {sorted(d['mutated_in'])}: "
                                                                "state that may carry over from one asset (or run phase) to the next")))
    out.append(A.bvc("tree:run_lived_state", "frame", "enumeration_ran", True, "src/rp2", f"{n} attributes"))
    TE = A.Fn(pr.tree, "rp2.tax_engine._create_unfiltered_gain_and_loss_set")
    te = TE.node
    shared = TE.scope.env.get("accounting_engine", "accounting_engine") if TE else "accounting_engine"
    out.append(A.bvc(TE.qual, "frame", "each_asset_gets_a_fresh_accounting_engine",
                     TE.has("new_accounting_engine = accounting_engine.__class__(accounting_engine.years_2_methods)") and
                     TE.has("new_accounting_engine.initialize(taxable_event_iterator, acquired_lot_iterator)") and
                     not [x for x in ast.walk(te) if isinstance(x, ast.Call) and isinstance(x.func, ast.Attribute) and isinstance(x.func.value, ast.Name) and x.func.value.id == shared and
                          x.func.attr not in ("__class__",)], "src/rp2/tax_engine.py"))
    # memoizing decorators on functions of run-lived modules
    memo = []
    for m in A.all_modules(pr.tree):
        for f in [x for x in ast.walk(m.tree) if isinstance(x, ast.FunctionDef)]:
            for d in f.decorator_list:
                if A.dotted(d).split("(")[0].split(".")[-1] in ("lru_cache", "cache", "cached_property"):
                    memo.append(f"{m.name}.{f.name}")
    out.append(A.bvc("tree:memoization", "frame", "memoized_functions_are_keyed_by_class_names_only", set(memo) <= {"rp2.ods_parser._get_decimal_constructor_argument_names"}, "src/rp2", str(memo)))
    return out


def _set_typed_names(fnode):
    names = set()
    for n in ast.walk(fnode):
        if isinstance(n, ast.AnnAssign) and isinstance(n.target, ast.Name) and "Set[" in ast.unparse(n.annotation):
            names.add(n.target.id)
        if isinstance(n, ast.Assign) and len(n.targets) == 1 and isinstance(n.targets[0], ast.Name) and isinstance(n.value, (ast.Set, ast.SetComp)):
            names.add(n.targets[0].id)
        if isinstance(n, ast.Assign) and len(n.targets) == 1 and isinstance(n.targets[0], ast.Name) and isinstance(n.value, ast.Call) and A.dotted(n.value.func) in ("set", "frozenset"):
            names.add(n.targets[0].id)
    for a in fnode.args.args + fnode.args.kwonlyargs:
        if a.annotation is not None and "Set[" in ast.unparse(a.annotation):
            names.add(a.arg)
    return names


SET_PROPERTIES = {"assets", "exchanges", "holders", "generators", "_entry_set"}       # Configuration's Set[str] properties and the membership set of entry sets


def set_iteration(pr):
    """A `for` (or comprehension) whose iterable is a set is hash-seed dependent for strings: allowed only when its result is order-insensitive
    (feeds a set/dict comprehension used for membership, or is wrapped in sorted())."""
    out = []
    for m in A.all_modules(pr.tree):
        bad = []
        for f in ast.walk(m.tree):
            if not isinstance(f, ast.FunctionDef):
                continue
            names = _set_typed_names(f)
            parents = {}
            for p in ast.walk(f):
                for ch in ast.iter_child_nodes(p):
                    parents[id(ch)] = p

            def is_set(e):
                if isinstance(e, ast.Name) and e.id in names:
                    return True
                if isinstance(e, ast.Attribute) and e.attr in SET_PROPERTIES:
                    return True
                if isinstance(e, ast.Call) and A.dotted(e.func) in ("set", "frozenset"):
                    return True
                if isinstance(e, ast.Call) and isinstance(e.func, ast.Attribute) and e.func.attr in ("copy", "union", "intersection", "difference") and is_set(e.func.value):
                    return True
                return isinstance(e, (ast.Set, ast.SetComp))
            for n in ast.walk(f):
                iters = []
                if isinstance(n, ast.For):
                    iters.append((n.iter, n))
                if isinstance(n, (ast.ListComp, ast.GeneratorExp)):
                    iters += [(g.iter, n) for g in n.generators]
                if isinstance(n, ast.Call) and A.dotted(n.func) in ("list", "tuple") and n.args:
                    iters.append((n.args[0], n))
                for it, node in iters:
                    if not is_set(it):
                        continue
                    p = parents.get(id(node))
                    sorted_later = False
                    if isinstance(node, ast.Call):       # list(set): fine if the very next use is .sort() / sorted(...)
                        tgt = p.targets[0].id if isinstance(p, ast.Assign) and isinstance(p.targets[0], ast.Name) else None
                        if tgt and any(isinstance(x, ast.Call) and isinstance(x.func, ast.Attribute) and x.func.attr == "sort" and A.dotted(x.func.value) == tgt for x in ast.walk(f)):
                            sorted_later = True
                    if isinstance(p, ast.Call) and A.dotted(p.func) == "sorted":
                        sorted_later = True
                    if isinstance(node, ast.For) and _loop_is_order_insensitive(node):
                        sorted_later = True
                    if not sorted_later:
                        bad.append(f"{f.name}:{getattr(node, 'lineno', 0)}:{ast.unparse(it)[:50]}")
        out.append(A.bvc(f"{m.name}/<module>", "effect", "no_order_sensitive_iteration_over_a_set", not bad, m.relpath, "; ".join(bad)))
    return out


def _loop_is_order_insensitive(loop: ast.For) -> bool:
    """Body only validates / raises / adds to sets or dicts keyed by the element (no output, no list append, no early exit)."""
    for n in ast.walk(loop):
        if isinstance(n, (ast.Break, ast.Return)):
            return False
        if isinstance(n, ast.Call) and isinstance(n.func, ast.Attribute) and n.func.attr in ("append", "extend", "insert", "write", "save", "set_value"):
            return False
        if isinstance(n, ast.Call) and A.dotted(n.func).endswith("_fill_cell"):
            return False
    return True


def nondet_calls(pr):
    out = []
    allowed_sites = {("rp2.abstract_transaction", "id"), ("rp2.logger", "datetime.now"), ("rp2.logger", "os.environ.get"), ("rp2.plugin.country.generic", "os.environ.get"),
                     ("rp2.rp2_main", "os.environ")}
    for m in A.all_modules(pr.tree):
        bad = []
        for c in A.calls(m):
            d = A.dotted(c.func)
            short = d.split("(")[0]
            if short in ("id", "datetime.now", "datetime.utcnow", "datetime.today", "date.today", "time.time", "os.getenv", "os.environ.get", "os.urandom", "uuid.uuid4", "os.getpid") or \
                    short.startswith("random.") or short.startswith("secrets."):
                if (m.name, short) not in allowed_sites:
                    bad.append(f"{short}:{c.lineno}")
            # the machine's time zone / locale: astimezone() without a zone, naive fromtimestamp, the time module's local clock functions
            if isinstance(c.func, ast.Attribute) and c.func.attr == "astimezone" and not c.args and not c.keywords:
                bad.append(f"astimezone() without a time zone (local zone of the machine):{c.lineno}")
            if isinstance(c.func, ast.Attribute) and c.func.attr == "fromtimestamp" and len(c.args) + len(c.keywords) < 2:
                bad.append(f"fromtimestamp() without a time zone:{c.lineno}")
            if short in ("time.localtime", "time.mktime", "time.tzset", "time.strftime", "time.ctime", "time.asctime", "locale.getlocale", "locale.getdefaultlocale", "locale.setlocale",
                         "locale.getpreferredencoding", "socket.gethostname", "getpass.getuser", "os.getlogin", "os.uname", "os.cpu_count"):
                bad.append(f"{short}:{c.lineno}")
            if short == "hash":
                f = next((x for x in ast.walk(m.tree) if isinstance(x, ast.FunctionDef) and any(y is c for y in ast.walk(x))), None)
                if f is None or f.name != "__hash__":
                    bad.append(f"hash:{c.lineno}")
        out.append(A.bvc(f"{m.name}/<module>", "effect", "no_unlisted_source_of_nondeterminism", not bad, m.relpath, "; ".join(bad)))
    return out


def global_state(pr):
    out = []
    found = []
    for m in A.all_modules(pr.tree):
        for n in m.tree.body:
            if isinstance(n, ast.ClassDef):
                for b in n.body:
                    tgt = val = None
                    if isinstance(b, ast.AnnAssign) and isinstance(b.target, ast.Name):
                        tgt, val = b.target.id, b.value
                        ann = ast.unparse(b.annotation)
                        mutable = any(x in ann for x in ("Dict[", "List[", "Set[", "dict", "list", "set"))
                    elif isinstance(b, ast.Assign) and len(b.targets) == 1 and isinstance(b.targets[0], ast.Name):
                        tgt, val = b.targets[0].id, b.value
                        mutable = isinstance(val, (ast.Dict, ast.List, ast.Set, ast.ListComp, ast.DictComp, ast.SetComp))
                    else:
                        continue
                    if mutable and isinstance(val, (ast.Dict, ast.List, ast.Set, ast.DictComp, ast.ListComp, ast.SetComp, ast.Call)):
                        # only attributes that the class itself mutates through self/cls matter
                        muts = [x for x in ast.walk(n) if isinstance(x, ast.Subscript) and isinstance(x.ctx, ast.Store) and isinstance(x.value, ast.Attribute) and x.value.attr == tgt]
                        muts += [x for x in ast.walk(n) if isinstance(x, ast.Call) and isinstance(x.func, ast.Attribute) and x.func.attr in ("append", "add", "update", "setdefault", "pop", "clear")
                                 and isinstance(x.func.value, ast.Attribute) and x.func.value.attr == tgt]
                        if muts:
                            found.append(f"{m.name}.{n.name}.{tgt}")
            if isinstance(n, (ast.Assign, ast.AnnAssign)):
                tg = n.targets[0] if isinstance(n, ast.Assign) else n.target
                val = n.value
                if isinstance(tg, ast.Name) and isinstance(val, (ast.Dict, ast.List, ast.Set)) and not tg.id.isupper() and not tg.id.startswith("_"):
                    found.append(f"{m.name}.{tg.id}")
        for g in ast.walk(m.tree):
            if isinstance(g, ast.Global):
                for name in g.names:
                    if not (m.name == "rp2.localization" and name == "_"):
                        found.append(f"{m.name}:global {name}")
    for f in found:
        out.append(A.bvc(f, "frame", "mutable_class_or_module_state_is_justified", f in JUSTIFIED_STATE, "", JUSTIFIED_STATE.get(f, "not on the justified list: state that may outlive an asset or a run")))
    out.append(A.bvc("tree:global_state", "frame", "enumeration_ran", True, "src/rp2", f"{len(found)} mutated class-level/module-level values: {found}"))
    # the fix for the link map must still be in place: reset per asset
    GA = A.Fn(pr.tree, "rp2.plugin.report.rp2_full_report.Generator.__generate_asset")
    out.append(A.bvc(GA.qual, "frame", "transaction_link_map_is_reset_per_asset", GA.has("self.__in_out_sheet_transaction_2_row = {}"), "src/rp2/plugin/report/rp2_full_report.py"))
    return out


def sort_key_injective(pr):
    """sorted(set, key=_yearly_gain_loss_sort_criteria): the key must mention all four grouping fields, else ties are left in set (hash) order."""
    F = A.Fn(pr.tree, "rp2.computed_data._yearly_gain_loss_sort_criteria")
    need = ["asset", "year", "is_long_term_capital_gains", "transaction_type"]
    param = F.node.args.args[0].arg if F and F.node.args.args else ""
    used = {n.attr for n in ast.walk(F.node) if isinstance(n, ast.Attribute) and isinstance(n.value, ast.Name) and n.value.id == param} if F else set()
    return [A.bvc(F.qual, "effect", "sort_key_mentions_the_whole_grouping_key", all(x in used for x in need), "src/rp2/computed_data.py",
                  "missing: " + ", ".join(x for x in need if x not in used))]


from pyvc.spec import lemma as _lemma


@_lemma("C17.sort_unique", props=["C17"])
def _(lm):
    """A sequence sorted (non-strictly) by pairwise distinct keys is strictly sorted, and two strictly sorted arrangements of the same two
    elements coincide: the induction step of 'the sorted order of distinct instants is unique' (independent of insertion order)."""
    a, b = z3.Ints("ka kb")
    x0, x1, y0, y1 = z3.Ints("x0 x1 y0 y1")
    lm.case("distinct_keys_sort_strictly", lambda ex: ([a <= b, a != b], a < b))
    lm.case("two_elements_one_order", lambda ex: ([x0 < x1, y0 < y1, z3.Or(z3.And(x0 == y0, x1 == y1), z3.And(x0 == y1, x1 == y0))], z3.And(x0 == y0, x1 == y1)))


def canaries(pr):
    def logger_is_deterministic(pr):
        m = pr.tree.modules["rp2.logger"]
        has_now = any(A.dotted(c.func).split("(")[0] in ("datetime.now",) for c in A.calls(m))
        return [A.bvc("canary", "effect", "logger_never_reads_the_clock", not has_now, m.relpath)]

    def no_shared_state(pr):
        n = len([v for v in run_lived_state(pr) if v.label == "state_of_a_run_lived_object_is_justified"])
        return [A.bvc("canary", "frame", "run_lived_objects_have_no_state_at_all", n == 0, "src/rp2")]
    return [("clock_read_in_logger_must_be_seen", logger_is_deterministic), ("run_lived_state_must_be_enumerated", no_shared_state)]

MANIFEST_ENTRY = {
    "category": "other",
    "text": ("Determinism as effect/frame contracts discharged over the AST of every module (no order-sensitive iteration over a set, no unlisted "
             "nondeterministic call, every mutated class-level/module-level value enumerated and justified, injective yearly sort key) plus the sort-uniqueness "
             "lemma; strict functional postconditions come from the proofs of C03-C08/C10. Bounded: real entry points under three PYTHONHASHSEED values and a "
             "dirty output directory (cell-by-cell comparison of all reports), row/table permutations and asset subsets through the public API."),
    "note": ("The flow check is syntactic and conservative (a flagged iteration is an open obligation to classify, not a proof of nondeterminism). The "
             "cross-asset link map of the full report is reset per asset since fix 84e0aa4; the obligation that it stays so is part of this check."),
    "technique": "frame/effect contracts discharged syntactically over the AST + pure lemma (z3) + bounded process-level stand-in",
}
