"""C13 - full report shows every transaction and fraction once, with the computed values."""
import ast
import z3
from pyvc.driver import custom, fn
from pyvc import astcheck as A
from pyvc.base import VC
from props import _fr

LEVEL = "other"
FLOOR = 120
EXPLANATION = ("Table-writer contracts (pyvc/astcheck.py: derived rule with side conditions W1-W5 checked on the AST) for the eight writer loops of "
               "rp2_full_report.py: each iterates the stated computed collection without break/continue/return, advances the row by one after the last "
               "write, and binds every column to the stated attribute / getter of the loop element; the header lists are cross-checked so that the label "
               "above a column names what the column carries. _fill_cell's frame (writes cell (row, column) only; RP2Decimal -> float, i.e. double "
               "precision) and the Legend clauses (method names per year, from/to or 'non-specified') are shape obligations on their bodies; the sheet "
               "sizes dominate the rows written (z3, shared with C16); generate() visits every asset. That the iterated collections are time-sorted and "
               "hold each in-window row once is C10; running sums and sold percentage are ComputedData getters (C05/C06 proofs cover the folds they "
               "return). Bounded: generated multi-asset inputs through every country, every sheet re-opened and compared cell by cell with values "
               "recomputed from the same files.")
TRUSTED = ["ezodf cell addressing and value round-trip (float, str, datetime)", "C10 (iteration = in-window rows, once, time-sorted)", "C05/C06 (fraction figures, yearly totals)",
           "ComputedData running sums / sold percentage getters return the folds accumulated in ComputedData.__init__ (exercised by the bounded stand-in)"]
ASSUMPTIONS = TRUSTED
E2E = {"quick": 6, "thorough": 80, "on_doubt": 10, "cli": True}


def items(pr):
    return [custom("tables", tables), custom("detail", detail), custom("misc", misc)]


def tables(pr):
    out = []
    for name in _fr.TABLES:
        out += _fr.table_vcs(pr, name)
    # Totals per holder under the balances
    q = _fr.G + "__generate_account_balances"
    f, w = A.writer_for(pr.tree, q, "sorted(totals.items())")
    out += A.writer_vcs(q, _fr.REL, w, "sorted(totals.items())", {0: "_('Total')", 1: "ELT0", 6: "ELT1"}, tag="totals")
    src = ast.unparse(f) if f else ""
    out.append(A.bvc(q, "writer", "holder_totals_accumulate_final_balances",
                     "value = totals.setdefault(balance.holder, _ZERO)\n        value += balance.final_balance\n        totals[balance.holder] = value" in src, _fr.REL))
    return out


def detail(pr):
    out = []
    q = _fr.G + "__generate_gain_loss_detail"
    f, w = _fr.detail_writer(pr)
    b = {c: v for c, (v, _) in _fr.DETAIL_PLAIN.items()}
    for c, (tx, val, _) in _fr.DETAIL_LINKED.items():
        cell = f"{_fr.TX}({tx}, {val})"
        b[c] = cell if tx == _fr.EV else {_fr.LOT: cell}
    out += A.writer_vcs(q, _fr.REL, w, "computed_data.gain_loss_set", b)
    sf = _fr.setup_fn(pr)
    hl = A.header_list(sf, "__gain_loss_detail_header_names_row_2") if sf else None
    want = {**{c: h for c, (_, h) in _fr.DETAIL_PLAIN.items()}, **{c: h for c, (_, _, h) in _fr.DETAIL_LINKED.items()}}
    out.append(A.bvc(q, "writer", "column_headers_name_what_the_columns_carry", hl is not None and all(c < len(hl) and hl[c] == h for c, h in want.items()), _fr.REL, str(hl), open_=hl is None))
    # the value displayed by a linked cell is the value passed: __get_hyperlinked_transaction_value returns value or a HYPERLINK formula around it
    h = A.func_node(pr.tree, _fr.G + "__get_hyperlinked_transaction_value")
    hs = ast.unparse(h) if h else ""
    out.append(A.bvc(_fr.G + "__get_hyperlinked_transaction_value", "post", "shows_the_value_it_was_given",
                     "if not row:\n        return value" in hs and hs.count("return") == 3 and '; {value})' in hs and '; "{value}")' in hs, _fr.REL))
    return out


def misc(pr):
    out = []
    # _fill_cell: frame and double precision
    q = "rp2.plugin.report.abstract_ods_generator.AbstractODSGenerator."
    rel = "src/rp2/plugin/report/abstract_ods_generator.py"
    f = A.func_node(pr.tree, q + "_fill_cell")
    s = ast.unparse(f) if f else ""
    subs = {ast.unparse(n) for n in ast.walk(f) if isinstance(n, ast.Subscript)} if f else set()
    out.append(A.bvc(q + "_fill_cell", "frame", "writes_exactly_the_addressed_cell", subs == {"sheet[row_index, column_index]", "value[0]"}, rel, str(subs)))
    out.append(A.bvc(q + "_fill_cell", "post", "decimal_goes_out_as_float_and_value_is_stored_as_given",
                     "if isinstance(value, RP2Decimal):\n        value = float(value)" in s and "sheet[row_index, column_index].set_value(value)" in s and "sheet[row_index, column_index].formula = value" in s and
                     "if isinstance(value, str) and value and (value[0] == '='):\n        is_formula = True" in s, rel))
    # average price
    f = A.func_node(pr.tree, _fr.G + "__generate_average_price_per_unit")
    s = ast.unparse(f) if f else ""
    out.append(A.bvc(_fr.G + "__generate_average_price_per_unit", "post", "average_price_cell_is_the_computed_price_per_unit",
                     "self._fill_cell(sheet, row_index + 3, 0, price_per_unit, visual_style='transparent', data_style='fiat')" in s and "return row_index + 4" in s, _fr.REL))
    # generate(): every asset, summary sheet renamed, saved
    g = A.func_node(pr.tree, _fr.G + "generate")
    _, wl = A.writer_for(pr.tree, _fr.G + "generate", "asset_to_computed_data.items()")
    out.append(A.bvc(_fr.G + "generate", "writer", "every_asset_is_generated", wl is not None and not [x for x in wl.skips if x[0] != "raise"] and
                     "summary_row_index = self.__generate_asset(computed_data, output_file, summary_row_index)" in ast.unparse(wl.loop), _fr.REL))
    ga = A.func_node(pr.tree, _fr.G + "__generate_asset")
    s = ast.unparse(ga) if ga else ""
    calls = ["self.__generate_in_table(transaction_sheet, computed_data, row_index)", "self.__generate_out_table(transaction_sheet, computed_data, row_index + 2)",
             "self.__generate_intra_table(transaction_sheet, computed_data, row_index + 2)", "self.__generate_gain_loss_summary(output_sheet, computed_data.yearly_gain_loss_list, row_index)",
             "self.__generate_account_balances(output_sheet, computed_data.balance_set, row_index + 2)",
             "self.__generate_average_price_per_unit(output_sheet, asset, computed_data.price_per_unit, row_index + 2)", "self.__generate_gain_loss_detail(output_sheet, asset, computed_data, row_index + 2)",
             "return self.__generate_yearly_gain_loss_summary(summary_sheet, asset, computed_data.yearly_gain_loss_list, summary_row_index)"]
    pos = [s.find(c) for c in calls]
    out.append(A.bvc(_fr.G + "__generate_asset", "writer", "all_eight_tables_are_written_from_the_assets_computed_data_in_order", all(p >= 0 for p in pos) and pos == sorted(pos), _fr.REL, str(pos)))
    out.append(A.bvc(_fr.G + "__generate_asset", "writer", "summary_sheet_grows_by_the_number_of_yearly_lines",
                     "new_lines: int = len(computed_data.yearly_gain_loss_list)\n    if new_lines:\n        summary_sheet.append_rows(new_lines)" in s, _fr.REL))
    # legend
    li = A.func_node(pr.tree, q + "_initialize_output_file")
    s = ast.unparse(li) if li else ""
    out.append(A.bvc(q + "_initialize_output_file", "post", "legend_states_the_method_of_a_single_method_run",
                     "if len(years_2_accounting_method_names) == 1:\n                accounting_method_by_year.append(years_2_accounting_method_names[MIN_DATE.year].upper())" in s, rel))
    out.append(A.bvc(q + "_initialize_output_file", "post", "legend_states_every_year_of_a_schedule",
                     "for year, method in years_2_accounting_method_names.items():" in s and "accounting_method_by_year.append(f'{year}:{method.upper()}')" in s and
                     "accounting_method_by_year.append(f'{old_year}->{year}:{method.upper()}')" in s and "cls._fill_cell(legend_sheet, index, 1, ', '.join(accounting_method_by_year), visual_style='transparent')" in s, rel))
    out.append(A.bvc(q + "_initialize_output_file", "post", "legend_states_the_date_filters_used",
                     "cls._fill_cell(legend_sheet, index + 1, 1, from_date if from_date != MIN_DATE else 'non-specified', visual_style='transparent')" in s and
                     "cls._fill_cell(legend_sheet, index + 2, 1, to_date if to_date != MAX_DATE else 'non-specified', visual_style='transparent')" in s, rel))
    mi = A.func_node(pr.tree, "rp2.rp2_main._find_and_run_report_generators")
    s = ast.unparse(mi) if mi else ""
    out.append(A.bvc("rp2.rp2_main._find_and_run_report_generators", "post", "generators_receive_the_schedule_and_filters_the_computation_used",
                     all(x in s for x in ("years_2_accounting_method_names=years_2_accounting_method_names", "from_date=from_date", "to_date=to_date", "asset_to_computed_data=asset_to_computed_data")),
                     "src/rp2/rp2_main.py"))
    from props import C16
    out += [vc for vc in C16.sizes(pr)]
    return out


MANIFEST_ENTRY = {
    "category": "other",
    "text": ("Table-writer contracts for the eight writer loops of rp2_full_report.py (iterated collection, no skipped element, one row per element, every "
             "column bound to the stated attribute of that element, header labels cross-checked), _fill_cell frame / float conversion, Legend clauses and "
             "sheet-size inequalities, all generated from the AST of the current tree (syntactic discharge; sizes by z3). Bounded: generated multi-asset "
             "inputs through the real entry points, all sheets of rp2_full_report.ods re-opened and compared cell by cell with independently recomputed "
             "values (transactions, running sums, sold %, fractions with k/n labels, balances, average price, yearly summaries, Legend)."),
    "note": ("The writer rule fixes the shape of the loops: a semantic rewrite is an open (undecided) obligation that the bounded stand-in then has to settle. "
             "Numerical equality of the getters with the engine's figures is C05/C06/C07 (proved there) plus the bounded comparison."),
    "technique": "table-writer contracts discharged over the AST of the real generator + z3 size obligations; bounded process-level stand-in",
}
