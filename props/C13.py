"""C13 - full report shows every transaction and fraction once, with the computed values."""
import ast
import z3
from pyvc.driver import custom, fn
from pyvc import astcheck as A
from pyvc.base import VC
from props import _fr

LEVEL = "other"
FLOOR = 120
EXPLANATION = ("Table-writer contracts (pyvc/astcheck.py: derived rule with side conditions W1-W5 checked on the AST) for the eight writer loops of "
               "rp2_full_report.py: each iterates the stated computed collection without break/continue/return, advances the row by one after the last "
               "write, and binds every column to the stated attribute / getter of the loop element; the header lists are cross-checked so that the label "
               "above a column names what the column carries. _fill_cell's frame (writes cell (row, column) only; RP2Decimal -> float, i.e. double "
               "precision) and the Legend clauses (method names per year, from/to or 'non-specified') are shape obligations on their bodies; the sheet "
               "sizes dominate the rows written (z3, shared with C16); generate() visits every asset. That the iterated collections are time-sorted and "
               "hold each in-window row once is C10; running sums and sold percentage are ComputedData getters (C05/C06 proofs cover the folds they "
               "return). Bounded: generated multi-asset inputs through every country, every sheet re-opened and compared cell by cell with values "
               "recomputed from the same files.")
TRUSTED = ["ezodf cell addressing and value round-trip (float, str, datetime)", "C10 (iteration = in-window rows, once, time-sorted)", "C05/C06 (fraction figures, yearly totals)",
           "ComputedData running sums / sold percentage getters return the folds accumulated in ComputedData.__init__ (exercised by the bounded stand-in)"]
ASSUMPTIONS = TRUSTED
E2E = {"quick": 6, "thorough": 80, "on_doubt": 10, "cli": True}


def items(pr):
    return [custom("tables", tables), custom("detail", detail), custom("misc", misc)]


def tables(pr):
    out = []
    for name in _fr.TABLES:
        out += _fr.table_vcs(pr, name)
    # Totals per holder under the balances
    q = _fr.G + "__generate_account_balances"
    f, w = A.writer_for(pr.tree, q, "sorted(totals.items())")
    out += A.writer_vcs(q, _fr.REL, w, "sorted(totals.items())", {0: "_('Total')", 1: "ELT0", 6: "ELT1"}, tag="totals")
    out.append(A.bvc(q, "writer", "holder_totals_accumulate_final_balances",
                     A.Fn(pr.tree, q).has("value = totals.setdefault(balance.holder, _ZERO)\nvalue += balance.final_balance\ntotals[balance.holder] = value"), _fr.REL))
    return out


def detail(pr):
    out = []
    q = _fr.G + "__generate_gain_loss_detail"
    f, w = _fr.detail_writer(pr)
    b = {c: v for c, (v, _) in _fr.DETAIL_PLAIN.items()}
    for c, (tx, val, _) in _fr.DETAIL_LINKED.items():
        cell = f"{_fr.TX}({tx}, {val})"
        b[c] = cell if tx == _fr.EV else {_fr.LOT: cell}
    out += A.writer_vcs(q, _fr.REL, w, "computed_data.gain_loss_set", b)
    sf = _fr.setup_fn(pr)
    hl = A.header_list(sf, "__gain_loss_detail_header_names_row_2") if sf else None
    want = {**{c: h for c, (_, h) in _fr.DETAIL_PLAIN.items()}, **{c: h for c, (_, _, h) in _fr.DETAIL_LINKED.items()}}
    out.append(A.bvc(q, "writer", "column_headers_name_what_the_columns_carry", hl is not None and all(c < len(hl) and hl[c] == h for c, h in want.items()), _fr.REL, str(hl), open_=hl is None))
    # the value displayed by a linked cell is the value passed: __get_hyperlinked_transaction_value returns value or a HYPERLINK formula around it
    Hf = A.Fn(pr.tree, _fr.G + "__get_hyperlinked_transaction_value")
    rets = [n for n in ast.walk(Hf.node) if isinstance(n, ast.Return)] if Hf else []
    out.append(A.bvc(Hf.qual, "post", "shows_the_value_it_was_given",
                     Hf.has("if not row:\n    return value") and len(rets) == 3 and
                     sum(1 for r in rets if isinstance(r.value, ast.JoinedStr) and any(isinstance(v, ast.FormattedValue) and A.expr_eq("value", ast.unparse(v.value), Hf.scope) for v in r.value.values)) == 2, _fr.REL))
    return out


def misc(pr):
    out = []
    # _fill_cell: frame and double precision
    q = "rp2.plugin.report.abstract_ods_generator.AbstractODSGenerator."
    rel = "src/rp2/plugin/report/abstract_ods_generator.py"
    FC = A.Fn(pr.tree, q + "_fill_cell")
    f = FC.node
    subs = [n for n in ast.walk(f) if isinstance(n, ast.Subscript)] if f else []
    cell_ok = FC and all(A.expr_eq("sheet[row_index, column_index]", ast.unparse(n), FC.scope) or A.expr_eq("value[0]", ast.unparse(n), FC.scope) for n in subs) and len(subs) >= 2
    out.append(A.bvc(FC.qual, "frame", "writes_exactly_the_addressed_cell", bool(cell_ok), rel, str({ast.unparse(n) for n in subs})))
    out.append(A.bvc(FC.qual, "post", "decimal_goes_out_as_float_and_value_is_stored_as_given",
                     FC.has("if isinstance(value, RP2Decimal):\n    value = float(value)") and
                     FC.has("if is_formula:\n    sheet[row_index, column_index].formula = value\nelse:\n    sheet[row_index, column_index].set_value(value)") and
                     FC.has("if isinstance(value, str) and value and (value[0] == '='):\n    is_formula = True"), rel))
    AP = A.Fn(pr.tree, _fr.G + "__generate_average_price_per_unit")
    out.append(A.bvc(AP.qual, "post", "average_price_cell_is_the_computed_price_per_unit",
                     AP.has("self._fill_cell(sheet, row_index + 3, 0, price_per_unit, visual_style='transparent', data_style='fiat')") and AP.has("return row_index + 4"), _fr.REL))
    # generate(): every asset, summary sheet renamed, saved
    _, wl = A.writer_for(pr.tree, _fr.G + "generate", "asset_to_computed_data.items()")
    out.append(A.bvc(_fr.G + "generate", "writer", "every_asset_is_generated", wl is not None and not [x for x in wl.skips if x[0] != "raise"] and
                     A.has(wl.loop, "summary_row_index = self.__generate_asset(computed_data, output_file, summary_row_index)", A._MOD_OF.get(id(wl.fnode)), scope=wl.scope), _fr.REL))
    GA = A.Fn(pr.tree, _fr.G + "__generate_asset")
    calls = ["row_index = self.__generate_in_table(transaction_sheet, computed_data, row_index)", "row_index = self.__generate_out_table(transaction_sheet, computed_data, row_index + 2)",
             "row_index = self.__generate_intra_table(transaction_sheet, computed_data, row_index + 2)", "row_index = self.__generate_gain_loss_summary(output_sheet, computed_data.yearly_gain_loss_list, row_index)",
             "row_index = self.__generate_account_balances(output_sheet, computed_data.balance_set, row_index + 2)",
             "row_index = self.__generate_average_price_per_unit(output_sheet, asset, computed_data.price_per_unit, row_index + 2)",
             "row_index = self.__generate_gain_loss_detail(output_sheet, asset, computed_data, row_index + 2)",
             "return self.__generate_yearly_gain_loss_summary(summary_sheet, asset, computed_data.yearly_gain_loss_list, summary_row_index)"]
    out.append(A.bvc(GA.qual, "writer", "all_eight_tables_are_written_from_the_assets_computed_data_in_order", GA.order(*calls), _fr.REL))
    out.append(A.bvc(GA.qual, "writer", "summary_sheet_grows_by_the_number_of_yearly_lines",
                     GA.has("new_lines = len(computed_data.yearly_gain_loss_list)\nif new_lines:\n    summary_sheet.append_rows(new_lines)"), _fr.REL))
    # legend
    LI = A.Fn(pr.tree, q + "_initialize_output_file")
    out.append(A.bvc(LI.qual, "post", "legend_states_the_method_of_a_single_method_run",
                     LI.has("if len(years_2_accounting_method_names) == 1:\n    accounting_method_by_year.append(next(iter(years_2_accounting_method_names.values())).upper())\nelse:\n    ..."), rel,
                     "the single entry of the schedule, whatever year it is keyed by"))
    out.append(A.bvc(LI.qual, "post", "legend_states_every_year_of_a_schedule",
                     LI.has("for year, method in years_2_accounting_method_names.items():\n    if year - old_year > 1:\n        accounting_method_by_year.append(f'{old_year}->{year}:{method.upper()}')\n"
                            "    else:\n        accounting_method_by_year.append(f'{year}:{method.upper()}')\n    old_year = year") and
                     LI.has("cls._fill_cell(legend_sheet, index, 1, ', '.join(accounting_method_by_year), visual_style='transparent')"), rel))
    out.append(A.bvc(LI.qual, "post", "legend_states_the_date_filters_used",
                     LI.has("cls._fill_cell(legend_sheet, index + 1, 1, from_date if from_date != MIN_DATE else 'non-specified', visual_style='transparent')\n"
                            "cls._fill_cell(legend_sheet, index + 2, 1, to_date if to_date != MAX_DATE else 'non-specified', visual_style='transparent')"), rel))
    MI = A.Fn(pr.tree, "rp2.rp2_main._find_and_run_report_generators")
    out.append(A.bvc(MI.qual, "post", "generators_receive_the_schedule_and_filters_the_computation_used",
                     MI.expr("years_2_accounting_method_names=years_2_accounting_method_names", "from_date=from_date", "to_date=to_date", "asset_to_computed_data=asset_to_computed_data"),
                     "src/rp2/rp2_main.py"))
    from props import C16
    out += [vc for vc in C16.sizes(pr)]
    return out


def canaries(pr):
    """Deliberately wrong bindings: the same writer rule has to reject them."""
    def swapped(pr):
        f, w = A.writer_for(pr.tree, _fr.G + "__generate_in_table", "computed_data.in_transaction_set")
        vcs = A.writer_vcs("canary", _fr.REL, w, "computed_data.in_transaction_set", {7: "ELT.fiat_fee", 9: "ELT.crypto_in"})
        return [v for v in vcs if "W4" in v.label]

    def wrong_collection(pr):
        f, w = A.writer_for(pr.tree, _fr.G + "__generate_out_table", "computed_data.in_transaction_set")
        return [A.bvc("canary", "writer", "out_table_iterates_the_in_set", w is not None, _fr.REL)]
    return [("in_table_columns_7_and_9_swapped_must_fail", swapped), ("out_table_over_in_set_must_fail", wrong_collection)]

MANIFEST_ENTRY = {
    "category": "other",
    "text": ("Table-writer contracts for the eight writer loops of rp2_full_report.py (iterated collection, no skipped element, one row per element, every "
             "column bound to the stated attribute of that element, header labels cross-checked), _fill_cell frame / float conversion, Legend clauses and "
             "sheet-size inequalities, all generated from the AST of the current tree (syntactic discharge; sizes by z3). Bounded: generated multi-asset "
             "inputs through the real entry points, all sheets of rp2_full_report.ods re-opened and compared cell by cell with independently recomputed "
             "values (transactions, running sums, sold %, fractions with k/n labels, balances, average price, yearly summaries, Legend)."),
    "note": ("The writer rule fixes the shape of the loops: a semantic rewrite is an open (undecided) obligation that the bounded stand-in then has to settle. "
             "Numerical equality of the getters with the engine's figures is C05/C06/C07 (proved there) plus the bounded comparison."),
    "technique": "table-writer contracts discharged over the AST of the real generator + z3 size obligations; bounded process-level stand-in",
}
