"""C20 - Japanese tax report: one sheet per asset-year, chained in year order."""
import ast
import z3
from pyvc.driver import custom, lemma
from pyvc import astcheck as A
from pyvc.spec import lemma as _lemma

LEVEL = "other"
FLOOR = 30
MOD = "rp2.plugin.report.jp.tax_report_jp"
G = MOD + ".Generator."
REL = "src/rp2/plugin/report/jp/tax_report_jp.py"
EXPLANATION = ("Contracts over the AST of tax_report_jp.py. (grouping) __generate_asset puts every transaction of the three sets into the bucket of its own year "
               "(one setdefault(entry.timestamp.year, []).append(entry) per element, no skip) and visits the buckets in increasing year order, passing each "
               "bucket time-sorted, the previous visited year and the row returned for it (0 / 0 for the first). (sheet) __generate_asset_year copies the "
               "template under get_tax_sheet_name(asset, year), writes one row per transaction (writer rule: month, day, exchange, type, purchased "
               "amount/yen, sold amount/yen, fee from the _TransactionRow of that element; the only skipped elements are transfers without fee, which have "
               "nothing to list), writes as opening balance 0 when there is no earlier year and otherwise references '<asset>_<previous year>'.I<r>, "
               "I<r+1> where r is the value the previous call returned, and returns row_index + 9 - a z3 lemma ties that value to the two cells "
               "(row_index + 8, row_index + 9; column I) where this call wrote its own closing balance. (summary) one summary sheet per year, created at "
               "the first asset that has the year, one inserted line per asset pointing at that asset-year sheet. Bounded: generated inputs with sparse, "
               "unordered and disposal-only years through rp2_jp -g en and -g kl, sheets and formula texts re-read.")
TRUSTED = ["ezodf sheet copy / insert_rows keep cell addressing as documented", "template row layout (transactions start at row 22; closing balance 8/9 rows below the last transaction row)",
           "sorted() on a dict's items with int keys is ascending"]
ASSUMPTIONS = TRUSTED
E2E = {"quick": 6, "thorough": 80, "on_doubt": 10, "cli": True}


def items(pr):
    return [custom("grouping", grouping), custom("sheet", sheet), custom("summary", summary), lemma("C20.closing_cells")]


def grouping(pr):
    out = []
    q = G + "__generate_asset"
    f = A.func_node(pr.tree, q)
    if f is None:
        return [A.bvc(q, "group", "function_present", False, REL, open_=True)]
    loops = A.loops_of(f)
    s = ast.unparse(f)
    first = next((lp for lp in loops if "chain(" in ast.unparse(lp.iter)), None)
    ok = first is not None and A.norm_expr(first.iter, A.function_env(f)) == "chain(computed_data.in_transaction_set, computed_data.out_transaction_set, computed_data.intra_transaction_set)" and \
        len(first.body) == 1 and ast.unparse(first.body[0]) == "years_2_transaction_sets.setdefault(entry.timestamp.year, []).append(entry)"
    out.append(A.bvc(q, "group", "every_transaction_of_the_three_sets_goes_once_into_the_bucket_of_its_year", ok, REL, ast.unparse(first)[:300] if first is not None else "loop not found"))
    second = next((lp for lp in loops if "years_2_transaction_sets" in ast.unparse(lp.iter) and lp is not first), None)
    it = ast.unparse(second.iter) if second is not None else ""
    out.append(A.bvc(q, "group", "years_are_visited_in_increasing_order", it == "sorted(years_2_transaction_sets.items())", REL,
                     f"iterates {it}: dict order is first-seen order across the IN, OUT, INTRA tables, not year order"))
    body = ast.unparse(second) if second is not None else ""
    call = "previous_year_row_offset = self.__generate_asset_year(asset=asset, year=year, transaction_list=sorted(transaction_set, key=lambda x: x.timestamp), output_file=output_file, previous_year=previous_year, previous_year_row_offset=previous_year_row_offset)"
    out.append(A.bvc(q, "group", "each_year_gets_its_bucket_time_sorted_and_the_previous_years_closing_row", call in body, REL))
    w = A.Writer(f, second, row_expr="row_index") if second is not None else None
    out.append(A.bvc(q, "group", "no_year_is_skipped", w is not None and not w.skips, REL))
    i, j = body.find("self.__generate_asset_year("), body.find("previous_year = year")
    out.append(A.bvc(q, "group", "previous_year_is_the_year_visited_last", 0 <= i < j and body.count("previous_year = ") == 1 and "previous_year: int = 0" in s and "previous_year_row_offset: int = 0" in s, REL))
    g = A.func_node(pr.tree, G + "generate")
    _, wl = A.writer_for(pr.tree, G + "generate", "asset_to_computed_data.items()")
    out.append(A.bvc(G + "generate", "group", "every_asset_is_generated", wl is not None and not [x for x in wl.skips if x[0] != "raise"] and
                     "self.__generate_asset(computed_data, output_file)" in ast.unparse(wl.loop), REL))
    return out


ROW = {0: "transaction_row.transaction_month", 1: "transaction_row.transaction_day", 2: "transaction_row.transaction_client", 3: "transaction_row.transaction_type",
       8: "transaction_row.fee_in_yen"}


def sheet(pr):
    out = []
    q = G + "__generate_asset_year"
    f, w = A.writer_for(pr.tree, q, "transaction_list")
    if w is None:
        return [A.bvc(q, "writer", "loop_present", False, REL, open_=True)]
    s = ast.unparse(f)
    out.append(A.bvc(q, "writer", "sheet_is_a_copy_of_the_template_named_asset_year",
                     "asset_year_sheet: Any = output_file.sheets[self.ASSET_TEMPLATE_SHEET].copy(newname=self.get_tax_sheet_name(asset, year))\n    output_file.sheets += asset_year_sheet" in s and
                     "row_index: int = 21" in s, REL))
    n = A.func_node(pr.tree, G + "get_tax_sheet_name")
    out.append(A.bvc(G + "get_tax_sheet_name", "post", "name_is_asset_underscore_year", n is not None and "return _('{}_{}').format(asset, year)" in ast.unparse(n), REL))
    # rows: the writer rule with the one documented skip (a transfer without fee has neither a purchase nor a sale to list)
    skips = [x for x in w.skips if x[0] != "raise"]
    ok_skip = len(skips) == 1 and skips[0][0] == "continue" and skips[0][1] == (("transaction_row.purchase_crypto_amount is None and transaction_row.sales_crypto_amount is None", True),)
    out.append(A.bvc(q, "writer", "W2_only_rows_with_nothing_to_list_are_skipped", ok_skip, REL, str(skips)))
    out.append(A.bvc(q, "writer", "W3_row_advances_once_by_one_after_the_last_write", len(w.advances) == 1 and w.advances[0][0] == "Add:1" and w.advances[0][1] == () and
                     w.advances[0][2] > max(c[3] for c in w.cells), REL, str(w.advances)))
    cells = {(c[0], c[2]): c[1] for c in w.cells if c[4] == "row_index"}
    for col, val in sorted(ROW.items()):
        out.append(A.bvc(q, "writer", f"W4_column_{col}_is_{A._lab(val)}", cells.get((col, ())) == val, REL, str(cells.get((col, ())))))
    pur, sal = (("transaction_row.purchase_crypto_amount is not None", True),), (("transaction_row.sales_crypto_amount is not None", True),)
    out.append(A.bvc(q, "writer", "W4_purchase_columns_4_5", cells.get((4, pur)) == "transaction_row.purchase_crypto_amount" and cells.get((5, pur)) == "transaction_row.purchase_amount_in_yen", REL))
    out.append(A.bvc(q, "writer", "W4_sale_columns_6_7", cells.get((6, sal)) == "transaction_row.sales_crypto_amount" and
                     cells.get((7, sal)) == "transaction_row.sales_amount_in_yen if formatted_donation_amount is None else formatted_donation_amount", REL))
    body = ast.unparse(w.loop)
    disp = ["if isinstance(entry, InTransaction):\n        transaction_row = self.__process_in_transaction(entry)", "elif isinstance(entry, OutTransaction):\n        transaction_row = self.__process_out_transaction(entry)",
            "elif isinstance(entry, IntraTransaction):\n        transaction_row = self.__process_intra_transaction(entry)"]
    out.append(A.bvc(q, "writer", "row_record_is_built_from_the_loop_element_by_its_kind", all(d in body for d in disp), REL))
    for name, fields in (("__process_in_transaction", ["transaction_month=transaction.timestamp.month", "transaction_day=transaction.timestamp.day", "transaction_client=transaction.exchange",
                                                       "transaction_type=transaction.transaction_type.value.upper()", "purchase_crypto_amount=transaction.crypto_in", "purchase_amount_in_yen=purchase_amount_in_yen"]),
                         ("__process_out_transaction", ["transaction_month=transaction.timestamp.month", "transaction_day=transaction.timestamp.day", "transaction_client=transaction.exchange",
                                                        "transaction_type=transaction.transaction_type.value.upper()", "sales_crypto_amount=transaction.crypto_out_with_fee", "sales_amount_in_yen=sales_amount_in_yen"]),
                         ("__process_intra_transaction", ["transaction_month=transaction.timestamp.month", "transaction_day=transaction.timestamp.day",
                                                          "sales_crypto_amount=transaction_fee_in_crypto if transaction_fee_in_crypto > ZERO else None"])):
        pf = A.func_node(pr.tree, G + name)
        ps = ast.unparse(pf) if pf else ""
        out.append(A.bvc(G + name, "post", "row_record_fields_come_from_that_transaction", all(x in ps for x in fields), REL, str([x for x in fields if x not in ps])))
    # chaining
    chain_ok = ("if previous_year_row_offset != 0:\n        previous_year_sheet_name: str = self.get_tax_sheet_name(asset, previous_year)\n"
                "        previous_year_crypto_cell = f\"='{previous_year_sheet_name}'.I{previous_year_row_offset}\"\n"
                "        previous_year_yen_cell = f\"='{previous_year_sheet_name}'.I{previous_year_row_offset + 1}\"") in s
    out.append(A.bvc(q, "chain", "opening_balance_refers_to_the_previous_visited_years_sheet_and_returned_row", chain_ok, REL,
                     "the predecessor must be the year passed in (most recent earlier year with a sheet), not year - 1"))
    out.append(A.bvc(q, "chain", "opening_balance_is_zero_without_a_predecessor",
                     "self._fill_cell(asset_year_sheet, row_index + 8, 4, previous_year_crypto_cell if previous_year_crypto_cell else 0, apply_style=False)" in s and
                     "self._fill_cell(asset_year_sheet, row_index + 9, 4, previous_year_yen_cell if previous_year_yen_cell else 0, apply_style=False)" in s and
                     "previous_year_crypto_cell: Optional[str] = None" in s, REL))
    out.append(A.bvc(q, "chain", "closing_balance_cells_are_column_I_rows_plus_8_and_9",
                     "self._fill_cell(asset_year_sheet, row_index + 8, 8, f'=E{row_index + 9}+F{row_index + 9}-H{row_index + 9}', apply_style=False)" in s and
                     "self._fill_cell(asset_year_sheet, row_index + 9, 8, f'=I{row_index + 9}*G{row_index + 10}', apply_style=False)" in s, REL))
    rets = [ast.unparse(n.value) for n in ast.walk(f) if isinstance(n, ast.Return)]
    out.append(A.bvc(q, "chain", "returns_the_one_based_row_of_its_closing_quantity_cell", rets == ["row_index + 9"], REL, str(rets)))
    return out


def summary(pr):
    out = []
    q = G + "__generate_asset_year"
    f = A.func_node(pr.tree, q)
    s = ast.unparse(f) if f else ""
    out.append(A.bvc(q, "summary", "one_summary_sheet_per_year_created_on_first_use",
                     "if self.__year_row_offset.setdefault(year, 7) == 7:\n        year_summary_sheet = output_file.sheets[self.SUMMARY_TEMPLATE_SHEET].copy(newname=self.get_summary_sheet_name(year))" in s and
                     "else:\n        year_summary_sheet = output_file.sheets[self.get_summary_sheet_name(year)]" in s, REL))
    out.append(A.bvc(q, "summary", "one_inserted_line_per_asset_and_the_offset_advances",
                     "self.__insert_summary_row(year_summary_sheet, self.__year_row_offset[year])" in s and "self.__year_row_offset[year] += 1" in s and
                     "self._fill_cell(year_summary_sheet, self.__year_row_offset[year], 0, asset, apply_style=False)" in s, REL))
    refs = [f"f\"='{{self.get_tax_sheet_name(asset, year)}}'.{c}{{row_index + {k}}}\"" for c, k in (("G", 10), ("I", 9), ("I", 10), ("I", 18))]
    out.append(A.bvc(q, "summary", "summary_line_points_at_that_asset_years_result_cells", all(r in s for r in refs), REL, str([r for r in refs if r not in s])))
    init = A.func_node(pr.tree, G + "__init__")
    out.append(A.bvc(G + "__init__", "summary", "offsets_start_empty_per_generator_instance", init is not None and "self.__year_row_offset: Dict[int, int] = {}" in ast.unparse(init), REL))
    return out


@_lemma("C20.closing_cells", props=["C20"])
def _(lm):
    """The value a year's call returns (row_index + 9, as a 1-based row) names the cell where that call wrote the closing quantity
    (_fill_cell row index row_index + 8, i.e. 1-based row_index + 9), and the next one the closing yen amount."""
    ri, ret = z3.Ints("row_index returned")
    lm.case("returned_row_is_the_closing_quantity_cell", lambda ex: ([ret == ri + 9], ret == (ri + 8) + 1))
    lm.case("returned_row_plus_one_is_the_closing_yen_cell", lambda ex: ([ret == ri + 9], ret + 1 == (ri + 9) + 1))
    lm.case("a_sheet_with_rows_never_returns_zero", lambda ex: ([ri >= 21, ret == ri + 9], ret != 0))


MANIFEST_ENTRY = {
    "category": "other",
    "text": ("Grouping, per-year sheet, row-writer, chaining and summary contracts discharged over the AST of tax_report_jp.py (buckets by own year, years "
             "visited in increasing order, predecessor = year visited last with the row it returned, zero opening balance for the first year, one row per "
             "listed transaction, one summary line per asset-year) plus a z3 lemma tying the returned row to the closing-balance cells. Bounded: generated "
             "inputs with sparse / unordered / disposal-only years through rp2_jp with -g en and -g kl; sheet names, transaction rows and cross-sheet "
             "formula texts re-read."),
    "note": ("The chaining defect described in the property's rationale (first-seen order, year-1 predecessor) was genuine and is repaired in c5e0eaf; the "
             "obligations years_are_visited_in_increasing_order and opening_balance_refers_to_the_previous_visited_years_sheet guard it. ezodf's sheet "
             "copy / insert_rows and the template layout are assumed."),
    "technique": "grouping/chaining/writer contracts discharged over the AST of the real generator + z3 lemma; bounded process-level stand-in",
}
