"""C20 - Japanese tax report: one sheet per asset-year, chained in year order."""
import ast
import z3
from pyvc.driver import custom, lemma
from pyvc import astcheck as A
from pyvc.spec import lemma as _lemma

LEVEL = "other"
FLOOR = 30
MOD = "rp2.plugin.report.jp.tax_report_jp"
G = MOD + ".Generator."
REL = "src/rp2/plugin/report/jp/tax_report_jp.py"
EXPLANATION = ("Contracts over the AST of tax_report_jp.py. (grouping) __generate_asset puts every transaction of the three sets into the bucket of its own year "
               "(one setdefault(entry.timestamp.year, []).append(entry) per element, no skip) and visits the buckets in increasing year order, passing each "
               "bucket time-sorted, the previous visited year and the row returned for it (0 / 0 for the first). (sheet) __generate_asset_year copies the "
               "template under get_tax_sheet_name(asset, year), writes one row per transaction (writer rule: month, day, exchange, type, purchased "
               "amount/yen, sold amount/yen, fee from the _TransactionRow of that element; the only skipped elements are transfers without fee, which have "
               "nothing to list), writes as opening balance 0 when there is no earlier year and otherwise references '<asset>_<previous year>'.I<r>, "
               "I<r+1> where r is the value the previous call returned, and returns row_index + 9 - a z3 lemma ties that value to the two cells "
               "(row_index + 8, row_index + 9; column I) where this call wrote its own closing balance. (summary) one summary sheet per year, created at "
               "the first asset that has the year, one inserted line per asset pointing at that asset-year sheet. Bounded: generated inputs with sparse, "
               "unordered and disposal-only years through rp2_jp -g en and -g kl, sheets and formula texts re-read.")
TRUSTED = ["ezodf sheet copy / insert_rows keep cell addressing as documented", "template row layout (transactions start at row 22; closing balance 8/9 rows below the last transaction row)",
           "sorted() on a dict's items with int keys is ascending"]
ASSUMPTIONS = TRUSTED
E2E = {"quick": 6, "thorough": 80, "on_doubt": 10, "cli": True}


def items(pr):
    return [custom("grouping", grouping), custom("sheet", sheet), custom("summary", summary), lemma("C20.closing_cells")]


def grouping(pr):
    out = []
    q = G + "__generate_asset"
    F = A.Fn(pr.tree, q)
    f = F.node
    if f is None:
        return [A.bvc(q, "group", "function_present", False, REL, open_=True)]
    out.append(A.bvc(q, "group", "every_transaction_of_the_three_sets_goes_once_into_the_bucket_of_its_year",
                     F.has("for entry in chain(in_transaction_set, out_transaction_set, intra_transaction_set):\n    years_2_transaction_sets.setdefault(entry.timestamp.year, []).append(entry)") and
                     F.has("in_transaction_set = computed_data.in_transaction_set\nout_transaction_set = computed_data.out_transaction_set\nintra_transaction_set = computed_data.intra_transaction_set") and
                     F.has("years_2_transaction_sets = {}"), REL))
    loops = A.loops_of(f)
    second = next((lp for lp in loops if any(isinstance(c, ast.Call) and isinstance(c.func, ast.Attribute) and c.func.attr == "__generate_asset_year" for c in ast.walk(lp))), None)
    it = ast.unparse(second.iter) if second is not None else ""
    out.append(A.bvc(q, "group", "years_are_visited_in_increasing_order", second is not None and A.expr_eq("sorted(years_2_transaction_sets.items())", it, F.scope), REL,
                     f"iterates {it}: dict order is first-seen order across the IN, OUT, INTRA tables, not year order"))
    call = ("previous_year_row_offset = self.__generate_asset_year(asset=asset, year=year, transaction_list=sorted(transaction_set, key=lambda x: x.timestamp), output_file=output_file, "
            "previous_year=previous_year, previous_year_row_offset=previous_year_row_offset)")
    out.append(A.bvc(q, "group", "each_year_gets_its_bucket_time_sorted_and_the_previous_years_closing_row", second is not None and A.has(second, call, F.mod, scope=F.scope) and
                     isinstance(second.target, ast.Tuple) and [ast.unparse(x) for x in second.target.elts] == [F.scope.env.get("year", "year"), F.scope.env.get("transaction_set", "transaction_set")], REL))
    w = A.Writer(f, second, row_expr="row_index") if second is not None else None
    out.append(A.bvc(q, "group", "no_year_is_skipped", w is not None and not w.skips, REL))
    py = F.scope.env.get("previous_year", "previous_year")
    n_store = len([n for n in ast.walk(f) if isinstance(n, ast.Name) and isinstance(n.ctx, ast.Store) and n.id == py])
    out.append(A.bvc(q, "group", "previous_year_is_the_year_visited_last",
                     second is not None and A.has(second, "previous_year_row_offset = self.__generate_asset_year(ANY)\n...\nprevious_year = year", F.mod, scope=F.scope) and n_store == 2 and
                     F.has("previous_year = 0") and F.has("previous_year_row_offset = 0"), REL))
    _, wl = A.writer_for(pr.tree, G + "generate", "asset_to_computed_data.items()")
    out.append(A.bvc(G + "generate", "group", "every_asset_is_generated", wl is not None and not [x for x in wl.skips if x[0] != "raise"] and
                     A.has(wl.loop, "self.__generate_asset(computed_data, output_file)", A._MOD_OF.get(id(wl.fnode)), scope=wl.scope), REL))
    return out


ROW = {0: "transaction_row.transaction_month", 1: "transaction_row.transaction_day", 2: "transaction_row.transaction_client", 3: "transaction_row.transaction_type",
       8: "transaction_row.fee_in_yen"}


def sheet(pr):
    out = []
    q = G + "__generate_asset_year"
    f, w = A.writer_for(pr.tree, q, "transaction_list")
    if w is None:
        return [A.bvc(q, "writer", "loop_present", False, REL, open_=True)]
    F = A.Fn(pr.tree, q)
    sc = F.scope
    out.append(A.bvc(q, "writer", "sheet_is_a_copy_of_the_template_named_asset_year",
                     F.has("asset_year_sheet = output_file.sheets[self.ASSET_TEMPLATE_SHEET].copy(newname=self.get_tax_sheet_name(asset, year))\noutput_file.sheets += asset_year_sheet") and
                     F.has(f"{w.row_src} = 21"), REL))
    N = A.Fn(pr.tree, G + "get_tax_sheet_name")
    out.append(A.bvc(N.qual, "post", "name_is_asset_underscore_year", N.has("return _('{}_{}').format(asset, year)"), REL))
    # rows: the writer rule with the one documented skip (a transfer without fee has neither a purchase nor a sale to list)
    skips = [x for x in w.skips if x[0] != "raise"]
    ok_skip = len(skips) == 1 and skips[0][0] == "continue" and len(skips[0][1]) == 1 and skips[0][1][0][1] is True and \
        A.expr_eq("transaction_row.purchase_crypto_amount is None and transaction_row.sales_crypto_amount is None", skips[0][1][0][0], sc)
    out.append(A.bvc(q, "writer", "W2_only_rows_with_nothing_to_list_are_skipped", ok_skip, REL, str(skips)))
    out.append(A.bvc(q, "writer", "W3_row_advances_once_by_one_after_the_last_write", len(w.advances) == 1 and w.advances[0][0] == "Add:1" and w.advances[0][1] == () and
                     w.advances[0][2] > max(c[3] for c in w.cells), REL, str(w.advances)))
    rows_ = [c for c in w.cells if c[4] == w.row_norm]

    def cell(col, guard):
        for c in rows_:
            if c[0] == col and A._guards_eq(guard, c[2], sc):
                return c[1]
        return None
    for col, val in sorted(ROW.items()):
        got = cell(col, ())
        out.append(A.bvc(q, "writer", f"W4_column_{col}_is_{A._lab(val)}", got is not None and A.expr_eq(val, got, sc), REL, str(got)))
    pur, sal = (("transaction_row.purchase_crypto_amount is not None", True),), (("transaction_row.sales_crypto_amount is not None", True),)
    eq = lambda want, got: got is not None and A.expr_eq(want, got, sc)
    out.append(A.bvc(q, "writer", "W4_purchase_columns_4_5", eq("transaction_row.purchase_crypto_amount", cell(4, pur)) and eq("transaction_row.purchase_amount_in_yen", cell(5, pur)), REL))
    out.append(A.bvc(q, "writer", "W4_sale_columns_6_7", eq("transaction_row.sales_crypto_amount", cell(6, sal)) and
                     eq("transaction_row.sales_amount_in_yen if formatted_donation_amount is None else formatted_donation_amount", cell(7, sal)), REL))
    disp = ("if isinstance(entry, InTransaction):\n    transaction_row = self.__process_in_transaction(entry)\n    ...\n"
            "elif isinstance(entry, OutTransaction):\n    transaction_row = self.__process_out_transaction(entry)\n    ...\n"
            "elif isinstance(entry, IntraTransaction):\n    transaction_row = self.__process_intra_transaction(entry)\nelse:\n    raise RP2RuntimeError(ANY)")
    out.append(A.bvc(q, "writer", "row_record_is_built_from_the_loop_element_by_its_kind", A.has(w.loop, disp, F.mod, scope=F.scope), REL))
    for name, fields in (("__process_in_transaction", ["transaction_month=transaction.timestamp.month", "transaction_day=transaction.timestamp.day", "transaction_client=transaction.exchange",
                                                       "transaction_type=transaction.transaction_type.value.upper()", "purchase_crypto_amount=transaction.crypto_in", "purchase_amount_in_yen=purchase_amount_in_yen"]),
                         ("__process_out_transaction", ["transaction_month=transaction.timestamp.month", "transaction_day=transaction.timestamp.day", "transaction_client=transaction.exchange",
                                                        "transaction_type=transaction.transaction_type.value.upper()", "sales_crypto_amount=transaction.crypto_out_with_fee", "sales_amount_in_yen=sales_amount_in_yen"]),
                         ("__process_intra_transaction", ["transaction_month=transaction.timestamp.month", "transaction_day=transaction.timestamp.day",
                                                          "sales_crypto_amount=transaction_fee_in_crypto if transaction_fee_in_crypto > ZERO else None"])):
        P = A.Fn(pr.tree, G + name)
        out.append(A.bvc(P.qual, "post", "row_record_fields_come_from_that_transaction", P.expr(*fields), REL, str([x for x in fields if not P.expr(x)])))
    PI = A.Fn(pr.tree, G + "__process_in_transaction")
    out.append(A.bvc(PI.qual, "post", "purchase_amount_in_yen_is_amount_times_spot_price", PI.has("purchase_amount_in_yen = transaction.crypto_in * transaction.spot_price"), REL))
    # chaining
    chain_ok = F.has("if previous_year_row_offset != 0:\n    previous_year_sheet_name = self.get_tax_sheet_name(asset, previous_year)\n"
                     "    previous_year_crypto_cell = f\"='{previous_year_sheet_name}'.I{previous_year_row_offset}\"\n"
                     "    previous_year_yen_cell = f\"='{previous_year_sheet_name}'.I{previous_year_row_offset + 1}\"")
    out.append(A.bvc(q, "chain", "opening_balance_refers_to_the_previous_visited_years_sheet_and_returned_row", chain_ok, REL,
                     "the predecessor must be the year passed in (most recent earlier year with a sheet), not year - 1"))
    out.append(A.bvc(q, "chain", "opening_balance_is_zero_without_a_predecessor",
                     F.has("self._fill_cell(asset_year_sheet, row_index + 8, 4, previous_year_crypto_cell if previous_year_crypto_cell else 0, apply_style=False)") and
                     F.has("self._fill_cell(asset_year_sheet, row_index + 9, 4, previous_year_yen_cell if previous_year_yen_cell else 0, apply_style=False)") and
                     F.has("previous_year_crypto_cell = None\nprevious_year_yen_cell = None"), REL))
    out.append(A.bvc(q, "chain", "closing_balance_cells_are_column_I_rows_plus_8_and_9",
                     F.has("self._fill_cell(asset_year_sheet, row_index + 8, 8, f'=E{row_index + 9}+F{row_index + 9}-H{row_index + 9}', apply_style=False)") and
                     F.has("self._fill_cell(asset_year_sheet, row_index + 9, 8, f'=I{row_index + 9}*G{row_index + 10}', apply_style=False)"), REL))
    rets = [n.value for n in ast.walk(f) if isinstance(n, ast.Return)]
    out.append(A.bvc(q, "chain", "returns_the_one_based_row_of_its_closing_quantity_cell", len(rets) == 1 and A.expr_eq("row_index + 9", ast.unparse(rets[0]), sc), REL, str([ast.unparse(r) for r in rets])))
    return out


def summary(pr):
    out = []
    q = G + "__generate_asset_year"
    F = A.Fn(pr.tree, q)
    out.append(A.bvc(q, "summary", "one_summary_sheet_per_year_created_on_first_use",
                     F.has("if self.__year_row_offset.setdefault(year, 7) == 7:\n    year_summary_sheet = output_file.sheets[self.SUMMARY_TEMPLATE_SHEET].copy(newname=self.get_summary_sheet_name(year))\n    ...\n"
                           "else:\n    year_summary_sheet = output_file.sheets[self.get_summary_sheet_name(year)]"), REL))
    out.append(A.bvc(q, "summary", "one_inserted_line_per_asset_and_the_offset_advances",
                     F.order("self.__insert_summary_row(year_summary_sheet, self.__year_row_offset[year])", "self._fill_cell(year_summary_sheet, self.__year_row_offset[year], 0, asset, apply_style=False)",
                             "self.__year_row_offset[year] += 1"), REL))
    refs = [f"f\"='{{self.get_tax_sheet_name(asset, year)}}'.{c}{{row_index + {k}}}\"" for c, k in (("G", 10), ("I", 9), ("I", 10), ("I", 18))]
    out.append(A.bvc(q, "summary", "summary_line_points_at_that_asset_years_result_cells", F.expr(*refs), REL, str([r for r in refs if not F.expr(r)])))
    I = A.Fn(pr.tree, G + "__init__")
    out.append(A.bvc(I.qual, "summary", "offsets_start_empty_per_generator_instance", I.has("self.__year_row_offset = {}") and I.has("self.__number_of_summaries = 0"), REL))
    return out


@_lemma("C20.closing_cells", props=["C20"])
def _(lm):
    """The value a year's call returns (row_index + 9, as a 1-based row) names the cell where that call wrote the closing quantity
    (_fill_cell row index row_index + 8, i.e. 1-based row_index + 9), and the next one the closing yen amount."""
    ri, ret = z3.Ints("row_index returned")
    lm.case("returned_row_is_the_closing_quantity_cell", lambda ex: ([ret == ri + 9], ret == (ri + 8) + 1))
    lm.case("returned_row_plus_one_is_the_closing_yen_cell", lambda ex: ([ret == ri + 9], ret + 1 == (ri + 9) + 1))
    lm.case("a_sheet_with_rows_never_returns_zero", lambda ex: ([ri >= 21, ret == ri + 9], ret != 0))


def canaries(pr):
    def unsorted(pr):
        F = A.Fn(pr.tree, G + "__generate_asset")
        second = next((lp for lp in A.loops_of(F.node) if any(isinstance(c, ast.Call) and isinstance(c.func, ast.Attribute) and c.func.attr == "__generate_asset_year" for c in ast.walk(lp))), None)
        return [A.bvc("canary", "group", "years_visited_in_dict_order", second is not None and A.expr_eq("years_2_transaction_sets.items()", ast.unparse(second.iter), F.scope), REL)]

    def year_minus_one(pr):
        F = A.Fn(pr.tree, G + "__generate_asset_year")
        return [A.bvc("canary", "chain", "predecessor_is_year_minus_one", F.has("previous_year_sheet_name = self.get_tax_sheet_name(asset, year - 1)"), REL)]
    return [("first_seen_order_must_fail", unsorted), ("year_minus_one_predecessor_must_fail", year_minus_one)]

MANIFEST_ENTRY = {
    "category": "other",
    "text": ("Grouping, per-year sheet, row-writer, chaining and summary contracts discharged over the AST of tax_report_jp.py (buckets by own year, years "
             "visited in increasing order, predecessor = year visited last with the row it returned, zero opening balance for the first year, one row per "
             "listed transaction, one summary line per asset-year) plus a z3 lemma tying the returned row to the closing-balance cells. Bounded: generated "
             "inputs with sparse / unordered / disposal-only years through rp2_jp with -g en and -g kl; sheet names, transaction rows and cross-sheet "
             "formula texts re-read."),
    "note": ("The chaining defect described in the property's rationale (first-seen order, year-1 predecessor) was genuine and is repaired in c5e0eaf; the "
             "obligations years_are_visited_in_increasing_order and opening_balance_refers_to_the_previous_visited_years_sheet guard it. ezodf's sheet "
             "copy / insert_rows and the template layout are assumed."),
    "technique": "grouping/chaining/writer contracts discharged over the AST of the real generator + z3 lemma; bounded process-level stand-in",
}
