"""C06 - yearly gain/loss summary equals the sum of its detail fractions."""
import ast
import z3
from pyvc.driver import fn, lemma, custom
from pyvc import spec as S, vals as V
from pyvc.base import VC

LEVEL = "proof"
FLOOR = 15
CD = "rp2.computed_data.ComputedData"
EXPLANATION = ("_create_yearly_gain_loss_list is verified against: the returned list has exactly one line per grouping key (year of the taxable "
               "event's own timestamp, asset, transaction type, long/short) that has fractions dated up to the to-date, none for other keys, and each "
               "line's four amounts are the folds (sums) of crypto amount, proceeds, cost basis and gain over exactly those fractions - by an inductive "
               "invariant over the dictionary accumulator (unbounded number of fractions and keys); _filter_yearly_gain_loss_by_year against 'year >= from year'.")
TRUSTED = ["A-SORT / A-DICTORDER (sorted() of a set yields each member once; dict iteration visits each key once)", "A-REAL: sums are exact real sums",
           "the unfiltered gain/loss set handed in is chronologically sorted (established by duplicate() in ComputedData.__init__ before the call) and holds valid fractions dated 1970..9999",
           "immutability of GainLoss/transactions after construction (figures are functions of the object)",
           "folds YC/YS and the cut YN are defined by their recursion equations (definitions, not assumptions about rp2)"]
ASSUMPTIONS = TRUSTED
E2E = {"quick": 40, "thorough": 1500, "on_doubt": 400}


def items(pr):
    return [fn(CD + "._create_yearly_gain_loss_list"), fn(CD + "._filter_yearly_gain_loss_by_year"), custom("computed_data_call_sites", computed_data_call_sites)]


def computed_data_call_sites(pr):
    """ComputedData.__init__ is the only caller of the functions proved here: it must hand them the unfiltered sets and the to-date (the
    window-filtered views are for display only), and the from-date's YEAR to the line filter."""
    from pyvc import astcheck as A
    F = A.Fn(pr.tree, "rp2.computed_data.ComputedData.__init__")
    rel = "src/rp2/computed_data.py"
    q = F.qual
    out = [A.bvc(q, "callsite", "yearly_lines_are_summed_over_the_unfiltered_fractions_up_to_the_to_date",
                 F.has("yearly_gain_loss_list = self._create_yearly_gain_loss_list(unfiltered_gain_loss_set, to_date)"), rel),
           A.bvc(q, "callsite", "yearly_lines_are_filtered_by_the_from_dates_year_only",
                 F.has("self.__filtered_yearly_gain_loss_list = self._filter_yearly_gain_loss_by_year(yearly_gain_loss_list, from_date.year)"), rel),
           A.bvc(q, "callsite", "displayed_sets_are_window_views_of_the_unfiltered_sets",
                 F.has("self.__filtered_taxable_event_set = unfiltered_taxable_event_set.duplicate(from_date=from_date, to_date=to_date)\n"
                       "self.__filtered_gain_loss_set = unfiltered_gain_loss_set.duplicate(from_date=from_date, to_date=to_date)"), rel),
           A.bvc(q, "callsite", "balances_and_average_price_use_all_history_up_to_the_to_date",
                 F.has("self.__filtered_balance_set = BalanceSet(unfiltered_taxable_event_set.configuration, input_data, to_date)\n"
                       "self.__filtered_price_per_unit = self._compute_price_per_unit(input_data.unfiltered_in_transaction_set, to_date)"), rel)]
    n_calls = len([c for c in ast.walk(pr.tree.modules["rp2.computed_data"].tree) if isinstance(c, ast.Call) and isinstance(c.func, ast.Attribute) and c.func.attr == "_create_yearly_gain_loss_list"])
    out.append(A.bvc(q, "callsite", "single_caller_of_the_yearly_summary", n_calls == 1, rel, f"{n_calls} calls"))
    return out


def canaries(pr):
    def year_filter_strict(pr):
        from contracts import computed_data as C
        q = CD + "._filter_yearly_gain_loss_by_year"
        saved = S.CONTRACTS[q]
        k = S.Contract(q)
        k.ensures("strictly_after", lambda s: z3.ForAll([z3.Int("fy_i")], z3.Implies(z3.And(0 <= z3.Int("fy_i"), z3.Int("fy_i") < s.result.len),
                                                                                         s.ex.rec_sort(C.YGL)[0].year(s.result[z3.Int("fy_i")].t) > s.a.from_year.t)))
        S.CONTRACTS[q] = k
        try:
            return pr.gen_fn(q, canary=True)
        finally:
            S.CONTRACTS[q] = saved
    return [("year_filter_strict_must_fail", year_filter_strict)]


MANIFEST_ENTRY = {
    "category": "proof",
    "text": ("Every obligation generated from the current source of ComputedData._create_yearly_gain_loss_list (accumulator loop over the gain/loss "
             "set, line-building loop over the dictionary, sorted()) and _filter_yearly_gain_loss_by_year is discharged: exactly one line per key "
             "(event year, asset, type, long/short) having fractions dated up to the to-date, each amount the sum over exactly those fractions of "
             "crypto amount / proceeds / cost basis / gain as defined in the statement of C04, lines kept iff year >= from-date's year. Unbounded in "
             "the number of fractions and keys (inductive invariants)."),
    "note": ("Assumes the gain/loss set handed in is chronological and holds valid fractions (established by the matcher, C02, and by duplicate(), C10); "
             "'up to the to-date' is the prefix cut at the first fraction dated after the to-date, which equals 'all fractions dated up to the to-date' "
             "only when local dates are monotone along the list (mixed time zones: DESIGN 9.2, known finding shared with C10). Sums are exact real sums "
             "(A-REAL); sorted()/dict iteration/set semantics are assumed language contracts."),
}
