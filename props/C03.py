"""C03 - exactly the taxable transactions are taxed, each once and in full."""
import z3
from pyvc.driver import fn, lemma, custom
from pyvc import spec as S, vals as V
from pyvc.base import VC

LEVEL = "proof"
FLOOR = 40
EXPLANATION = ("taxable(t) from the statement (seven earn types on IN; every OUT; INTRA with non-zero fee) is the postcondition of the real "
               "is_earn_type / is_taxable / is_earning / crypto_taxable_amount / fiat_taxable_amount of the three transaction classes; the type "
               "whitelists are postconditions of the three constructors; GainLoss.__init__ establishes 'no lot <=> earn event, amount = full amount'; "
               "event-set construction and the earn branch of the matcher are proved with C02's loop invariant (see C02 evidence).")
TRUSTED = ["A-ANNOT", "A-REAL (one product fee*spot)", "amounts lie on the 1e-11 grid (documented format; established by the parser, C11)",
           "dateutil.parser.parse assumed total-or-raising", "Configuration membership sets as parsed"]
ASSUMPTIONS = TRUSTED + ["engine hand-over (get_next_taxable_event_and_amount): proved under engine_inv, which is assumed to hold after AccountingEngine.initialize (A-AVL), and under the assumed AVL / heap contracts of contracts/engine.py; the while loop of _create_unfiltered_gain_and_loss_set that consumes the events is bounded (C02's stand-in), not proved"]
E2E = {"quick": 60, "thorough": 2000, "on_doubt": 400}
TX = ["rp2.in_transaction.InTransaction", "rp2.out_transaction.OutTransaction", "rp2.intra_transaction.IntraTransaction"]


def items(pr):
    out = [fn("rp2.entry_types.TransactionType.is_earn_type")]
    for c in TX:
        for m in ("is_taxable", "is_earning", "crypto_taxable_amount", "fiat_taxable_amount", "crypto_balance_change", "__init__"):
            out.append(fn(f"{c}.{m}"))
    out.append(fn("rp2.gain_loss.GainLoss.__init__"))
    out.append(fn("rp2.gain_loss.GainLoss.fiat_cost_basis"))
    out.append(fn("rp2.tax_engine._create_unfiltered_taxable_event_set"))
    out.append(fn("rp2.transaction_set.TransactionSet.add_entry"))
    # the engine hands the matcher every element of the event set, in order, none skipped (contracts/engine.py, K1: `next_event_with_its_full_amount`)
    out.append(fn("rp2.accounting_engine.AccountingEngine.get_next_taxable_event_and_amount"))
    out.append(custom("enum_members", enum_members))
    return out


def enum_members(pr):
    """The statement lists 14 transaction types; a 15th member would need a clause in taxable()."""
    want = {"AIRDROP", "BUY", "DONATE", "FEE", "GIFT", "HARDFORK", "INCOME", "INTEREST", "LOST", "MINING", "MOVE", "SELL", "STAKING", "WAGES"}
    have = {m for m, _ in pr.tree.cls("rp2.entry_types.TransactionType").enum_members}
    return [VC("tree:TransactionType", "enum", "exactly_the_14_types", [], z3.BoolVal(have == want), "src/rp2/entry_types.py", 0,
               note=f"extra={sorted(have - want)} missing={sorted(want - have)}")]


def vc_filter(vc):
    return True


def canaries(pr):
    def wages_not_earn(pr):
        from contracts.transactions import tt, TT
        q = TT + ".is_earn_type"
        k = S.Contract(q)
        k.ensures("six_types", lambda s: s.result.t == z3.Or(*[s.a.self.t == tt(s.ex, n) for n in ["AIRDROP", "HARDFORK", "INCOME", "INTEREST", "MINING", "STAKING"]]))
        saved = S.CONTRACTS[q]
        S.CONTRACTS[q] = k
        try:
            return pr.gen_fn(q, canary=True)
        finally:
            S.CONTRACTS[q] = saved
    return [("earn_set_without_wages_must_fail", wages_not_earn)]


# ------------------------------------------------------------------ replay
def replay(pr, vc, model):
    from pyvc.replay import ModelView, run_native
    mv = ModelView(pr.ex, model)
    self_ = z3.Const("self", V.Ref)
    if vc.func.endswith("IntraTransaction.is_taxable"):
        desc = {"kind": "intra_is_taxable", "sent": mv.field(self_, "IntraTransaction.__crypto_sent"),
                "received": mv.field(self_, "IntraTransaction.__crypto_received"), "spot": mv.field(self_, "AbstractTransaction.__spot_price")}
    elif vc.func.endswith("is_earn_type"):
        desc = {"kind": "earn_types"}
    elif vc.func.endswith(".is_taxable") or vc.func.endswith(".is_earning"):
        tname = str(mv.ev(mv.field_term(self_, "AbstractTransaction.__transaction_type")))
        desc = {"kind": "flag", "cls": vc.func.split(".")[-2], "method": vc.func.split(".")[-1], "type": tname}
    else:
        return None
    return {"desc": desc, **run_native("C03", desc, pr.repo)}


def nice(pr, vc):
    from pyvc.replay import ModelView
    if not vc.func.endswith("IntraTransaction.is_taxable"):
        return []
    mv = ModelView(pr.ex, None)
    self_ = z3.Const("self", V.Ref)
    sent = mv.field_term(self_, "IntraTransaction.__crypto_sent")
    spot = mv.field_term(self_, "AbstractTransaction.__spot_price")
    return [sent <= 1000, sent >= z3.RealVal("1e-8"), spot >= z3.RealVal("1e-8"), spot <= 10000000, z3.IsInt(spot * 10 ** 8)]


EARN = ["airdrop", "hardfork", "income", "interest", "mining", "staking", "wages"]


def native(desc):
    from harness import rp2h
    cfg = rp2h.configuration("us")
    if desc["kind"] == "intra_is_taxable":
        from rp2.intra_transaction import IntraTransaction
        t = IntraTransaction(cfg, "2020-01-01T00:00:00+00:00", "B1", "Coinbase", "Bob", "Kraken", "Bob", rp2h.D(desc["spot"]), rp2h.D(desc["sent"]), rp2h.D(desc["received"]), row=2)
        from fractions import Fraction
        fee_nonzero = Fraction(desc["sent"]) != Fraction(desc["received"])
        got = t.is_taxable()
        return {"reproduced": got != fee_nonzero, "observed": got, "required": fee_nonzero,
                "inputs": {"crypto_sent": str(t.crypto_sent), "crypto_received": str(t.crypto_received), "spot_price": str(t.spot_price), "crypto_fee": str(t.crypto_fee)}}
    if desc["kind"] == "earn_types":
        from rp2.entry_types import TransactionType
        bad = [m.name for m in TransactionType if m.is_earn_type() != (m.value in EARN)]
        return {"reproduced": bool(bad), "observed": bad, "required": "is_earn_type() true exactly for " + ", ".join(EARN)}
    if desc["kind"] == "flag":
        from rp2.in_transaction import InTransaction
        from rp2.out_transaction import OutTransaction
        typ = desc["type"].lower()
        if desc["cls"] == "InTransaction":
            t = InTransaction(cfg, "2020-01-01T00:00:00+00:00", "B1", "Coinbase", "Bob", typ, rp2h.D(10), rp2h.D(1), row=2)
            want = typ in EARN
        elif desc["cls"] == "OutTransaction":
            t = OutTransaction(cfg, "2020-01-01T00:00:00+00:00", "B1", "Coinbase", "Bob", typ, rp2h.D(10), rp2h.D(0 if typ == "fee" else 1), rp2h.D(1), row=2)
            want = desc["method"] == "is_taxable"
        else:
            return {"reproduced": False, "error": "no native builder"}
        got = getattr(t, desc["method"])()
        return {"reproduced": got != want, "observed": got, "required": want, "inputs": {"class": desc["cls"], "type": typ}}
    return {"reproduced": False}


MANIFEST_ENTRY = {
    "category": "proof",
    "text": ("The statement's definition of 'taxable' (7 earn types / every OUT / INTRA with non-zero fee), the per-class taxable amounts and the "
             "table whitelists are postconditions of the real methods and constructors, discharged for all field values (complete case analysis over "
             "the 14 enum members); GainLoss.__init__ is proved to tie 'no lot' to 'earn event, full amount'. Once-and-in-full over whole histories "
             "is carried by the matcher invariant proved under C02."),
    "note": ("Assumes amounts on the 1e-11 grid (parser postcondition), truthful annotations, dateutil as an opaque parser. The event-set loop and the "
             "matcher loop are reported under C02; a refutation is replayed on real IntraTransaction/InTransaction/OutTransaction objects."),
}
