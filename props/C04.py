"""C04 - proceeds, cost basis and gain of every fraction are arithmetically exact."""
import ast
import z3
from pyvc.driver import fn, lemma, custom
from pyvc import spec as S, vals as V
from pyvc.base import VC
from pyvc.symex import Exec

LEVEL = "proof"
FLOOR = 120
EXPLANATION = ("Exact-real postconditions (from the statement) for the six GainLoss figure getters and for every derivation branch of the three "
               "constructors; RP2Decimal operator bodies verified against the encoding used everywhere; sum-of-parts as explicit base/step lemmas; "
               "31-digit rounding bounded by re-executing the real getters in rounded mode (each operation exact*(1+d), |d| <= 5e-31 with the "
               "precision read from rp2_decimal.py); every arithmetic operand typed RP2Decimal (a float/int operand is the refuted obligation type.decimal_only).")
TRUSTED = ["A-REAL outside the rounding lemma", "decimal module: correctly rounded (<= 1/2 ulp relative error per operation at context precision, no overflow/underflow for the quantifier's magnitudes)",
           "Decimal.quantize = round-half-even at the mask's exponent", "A-ANNOT", "validity of inputs: exchange-supplied crypto_out_with_fee = amount + fee (documented meaning)"]
ASSUMPTIONS = TRUSTED
E2E = {"quick": 60, "thorough": 2000, "on_doubt": 400}
GL = "rp2.gain_loss.GainLoss"
FIGURES = ["taxable_event_fiat_amount_with_fee_fraction", "fiat_cost_basis", "acquired_lot_fiat_amount_with_fee_fraction", "fiat_gain",
           "taxable_event_fraction_percentage", "acquired_lot_fraction_percentage"]
TX = ["rp2.in_transaction.InTransaction", "rp2.out_transaction.OutTransaction", "rp2.intra_transaction.IntraTransaction"]
OPS = ["__add__", "__sub__", "__mul__", "__truediv__", "__neg__", "__eq__", "__ne__", "__gt__", "__ge__", "__lt__", "__le__"]


def items(pr):
    out = [fn(f"{GL}.{f}") for f in FIGURES]
    out.append(fn(GL + ".__init__"))
    for c in TX:
        out.append(fn(c + ".__init__"))
        out.append(fn(c + ".fiat_taxable_amount"))
        out.append(fn(c + ".crypto_balance_change"))
    for o in OPS:
        out.append(fn("rp2.rp2_decimal.RP2Decimal." + o))
    out.append(lemma("C04.sum_of_parts"))
    out.append(custom("decimal_context", decimal_context))
    out.append(custom("rounding", rounding))
    out.append(custom("rounding_ctors", rounding_ctors))
    return out


def context_precision(pr):
    """`getcontext().prec = <expr>` and `getcontext().traps[FloatOperation] = True` in the body of class RP2Decimal."""
    c = pr.tree.cls("rp2.rp2_decimal.RP2Decimal")
    prec, trap = None, False
    for stmt in c.class_body_stmts:
        if isinstance(stmt, ast.Assign) and len(stmt.targets) == 1:
            t = stmt.targets[0]
            if isinstance(t, ast.Attribute) and t.attr == "prec":
                prec = pr.ex.const_eval(stmt.value, c.module, c)
            if isinstance(t, ast.Subscript) and isinstance(t.value, ast.Attribute) and t.value.attr == "traps" and \
                    getattr(t.slice, "id", "") == "FloatOperation" and isinstance(stmt.value, ast.Constant) and stmt.value.value is True:
                trap = True
    return prec, trap


def decimal_context(pr):
    prec, trap = context_precision(pr)
    return [VC("rp2.rp2_decimal.RP2Decimal/<class body>", "ctx", "float_operation_trapped", [], z3.BoolVal(bool(trap)), "src/rp2/rp2_decimal.py", 0,
               note="getcontext().traps[FloatOperation] = True must be present: no binary float enters Decimal arithmetic"),
            VC("rp2.rp2_decimal.RP2Decimal/<class body>", "ctx", "precision_is_an_integer_constant", [], z3.BoolVal(isinstance(prec, int) and prec > 0), "src/rp2/rp2_decimal.py", 0)]


def rounding(pr):
    """Rounded-mode re-execution of the real getters: |computed - exact| <= 1e-15 * |exact| (gain: relative to max(|proceeds|, |cost|))."""
    from contracts.gain_loss import valid_gain_loss, proceeds_spec, cost_spec, ev_of
    from contracts.transactions import out_consistent
    prec, _ = context_precision(pr)
    if not isinstance(prec, int):
        return []
    eps = z3.RealVal(f"5e-{prec}")          # 1/2 ulp relative: 0.5 * 10**(1-prec)
    bound = z3.RealVal("1e-15")
    out = []

    def absr(x): return z3.If(x >= 0, x, -x)

    specs = {
        "taxable_event_fiat_amount_with_fee_fraction": lambda s: absr(s.result.t - proceeds_spec(s, s.a.self)) <= bound * absr(proceeds_spec(s, s.a.self)),
        "fiat_cost_basis": lambda s: absr(s.result.t - cost_spec(s, s.a.self)) <= bound * absr(cost_spec(s, s.a.self)),
        "fiat_gain": lambda s: absr(s.result.t - (proceeds_spec(s, s.a.self) - cost_spec(s, s.a.self))) <=
        bound * z3.If(absr(proceeds_spec(s, s.a.self)) >= absr(cost_spec(s, s.a.self)), absr(proceeds_spec(s, s.a.self)), absr(cost_spec(s, s.a.self))),
    }
    for name, goal in specs.items():
        q = f"{GL}.{name}"
        ex = Exec(pr.tree)
        ex.rounded_mode, ex.rounding_eps, ex.deltas = True, eps, []
        k = S.Contract(q)
        k.requires("valid", lambda s: valid_gain_loss(s, s.a.self))
        k.requires("out_consistent", lambda s: out_consistent(s, ev_of(s.a.self)))
        k.ensures("relative_error_below_1e-15", goal)
        saved = dict(S.CONTRACTS)
        # in rounded mode callees must be inlined (their exact-real contracts do not describe rounded results)
        for f in FIGURES:
            S.CONTRACTS.pop(f"{GL}.{f}", None)
        S.CONTRACTS[q] = k
        try:
            vcs = ex.verify(q, f"rounded:{q}")
        finally:
            S.CONTRACTS.clear()
            S.CONTRACTS.update(saved)
        out.extend(v for v in vcs if v.kind == "post")
        pr.ex.global_axioms.extend(a for a in ex.global_axioms if not any(a.eq(b) for b in pr.ex.global_axioms))
    return out


CTOR_DERIVED = {
    "rp2.in_transaction.InTransaction.__init__": ["fiat_fee_from_crypto_fee", "fiat_fee_supplied", "fiat_in_no_fee", "fiat_in_with_fee"],
    "rp2.out_transaction.OutTransaction.__init__": ["crypto_out_with_fee", "fiat_out_no_fee", "fiat_fee"],
    "rp2.intra_transaction.IntraTransaction.__init__": ["fee_is_difference", "fiat_fee_valued_at_spot"],
}
CTOR_BOUND = "1e-25"


def relax_eq(f, tol):
    """Positive occurrences of an equality between Real terms `a == b` become |a - b| <= tol * |b| (b = the statement's formula);
    everything in negative position is left exact (sound: the relaxed formula is implied by nothing weaker than the original)."""
    def absr(x): return z3.If(x >= 0, x, -x)

    def go(e, pos):
        if not z3.is_app(e):
            return e
        k = e.decl().kind()
        ch = e.children()
        if k == z3.Z3_OP_AND:
            return z3.And(*[go(c, pos) for c in ch])
        if k == z3.Z3_OP_OR:
            return z3.Or(*[go(c, pos) for c in ch])
        if k == z3.Z3_OP_NOT:
            return z3.Not(go(ch[0], not pos))
        if k == z3.Z3_OP_IMPLIES:
            return z3.Implies(go(ch[0], not pos), go(ch[1], pos))
        if k == z3.Z3_OP_EQ and pos and ch[0].sort() == z3.RealSort():
            return absr(ch[0] - ch[1]) <= tol * absr(ch[1])
        return e
    return go(f, True)


def rounding_ctors(pr):
    """Rounded-mode re-execution of the three constructors: every derived fiat/crypto field is within 1e-25 relative of the statement's
    formula (amount x spot price, fee x spot price, sums), so that the getters' 1e-15 bound composes with a margin of ten orders of magnitude.
    A derivation that is equal over the reals but cancels (e.g. sent*price - received*price for a fee) is refuted here."""
    prec, _ = context_precision(pr)
    if not isinstance(prec, int):
        return []
    eps = z3.RealVal(f"5e-{prec}")
    tol = z3.RealVal(CTOR_BOUND)
    out = []
    for q, labels in CTOR_DERIVED.items():
        base = S.CONTRACTS[q]
        ex = Exec(pr.tree)
        ex.rounded_mode, ex.rounding_eps, ex.deltas = True, eps, []
        k = S.Contract(q)
        k.requires_ = list(base.requires_)
        k.raises_ = list(base.raises_)
        for lbl, f in base.ensures_:
            if lbl in labels:
                k.ensures("rounded." + lbl, lambda s, f=f: relax_eq(f(s), tol))
        missing = [l for l in labels if l not in [x for x, _ in base.ensures_]]
        if missing:
            pr.engine_faults.append(f"rounding_ctors: clauses {missing} no longer exist in the contract of {q}")
        saved = dict(S.CONTRACTS)
        S.CONTRACTS[q] = k
        try:
            vcs = ex.verify(q, f"rounded:{q}")
        finally:
            S.CONTRACTS.clear()
            S.CONTRACTS.update(saved)
        out.extend(v for v in vcs if v.kind == "post")
        pr.ex.global_axioms.extend(a for a in ex.global_axioms if not any(a.eq(b) for b in pr.ex.global_axioms))
    return out


def canaries(pr):
    def proceeds_with_fee(pr):
        from contracts.gain_loss import valid_gain_loss, ev_of, amt_of
        from contracts.transactions import out_consistent, need, o_, is_out
        q = GL + ".taxable_event_fiat_amount_with_fee_fraction"
        k = S.Contract(q)
        k.requires("valid", lambda s: valid_gain_loss(s, s.a.self))
        k.requires("out", lambda s: z3.And(is_out(ev_of(s.a.self)), out_consistent(s, ev_of(s.a.self))))
        k.ensures("includes_fee", lambda s: s.result.t == o_(ev_of(s.a.self), "fiat_out_with_fee").t * amt_of(s.a.self).t / need(s, ev_of(s.a.self)))
        saved = S.CONTRACTS[q]
        S.CONTRACTS[q] = k
        try:
            return pr.gen_fn(q, canary=True)
        finally:
            S.CONTRACTS[q] = saved
    return [("proceeds_including_fee_must_fail", proceeds_with_fee)]


MANIFEST_ENTRY = {
    "category": "proof",
    "text": ("Every figure getter of GainLoss and every fiat-derivation branch of the three transaction constructors is proved equal to the statement's "
             "formula over the reals for all field values; RP2Decimal's operator bodies are proved to implement the comparison/arithmetic encoding; "
             "sum-of-parts and the 1e-15 rounding bound are explicit lemma obligations, the latter on the real getter bodies re-executed with a "
             "(1+delta) error per operation at the precision read from the tree."),
    "note": ("Real arithmetic stands for Decimal arithmetic except in the rounding obligations, which assume the decimal module is correctly rounded "
             "(half ulp) with no overflow/underflow in the stated magnitude range; constructor-level rounding of derived fiat fields adds one more "
             "(1+delta) factor per field, covered by the same bound (3 factors, shown by the lemma's margin). 'No float' = typing obligation on every operand + presence of the FloatOperation trap."),
}


# ------------------------------------------------------------------ replay
def replay(pr, vc, model):
    from pyvc.replay import ModelView, run_native, decode_tx
    mv = ModelView(pr.ex, model)
    self_ = z3.Const("self", V.Ref)
    fname = vc.func.split(":")[-1]
    if fname.startswith(GL + ".") and fname.rsplit(".", 1)[1] in FIGURES:
        ev = mv.ref(mv.field_term(self_, "GainLoss.__taxable_event"))
        lot_none = mv.is_none(self_, "GainLoss.__acquired_lot")
        lot = mv.ref(mv.field_term(self_, "GainLoss.__acquired_lot"))
        desc = {"kind": "figure", "figure": fname.rsplit(".", 1)[1], "event": decode_tx(mv, ev), "lot": None if lot_none else decode_tx(mv, lot),
                "amount": mv.field(self_, "GainLoss.__crypto_amount")}
    elif fname.endswith(".__init__") and fname.rsplit(".", 2)[-2] in ("InTransaction", "OutTransaction", "IntraTransaction"):
        fi = pr.tree.func(fname)
        args = {}
        for p in fi.params[2:]:
            t = pr.ex.type_of_annotation(fi.annotation(p), fi.module, fi.cls)
            c = V.const(t, p)
            if t.kind == "opt" and z3.is_true(mv.ev(c.none)):
                args[p] = None
            elif c.t is not None:
                args[p] = mv.py(mv.ev(c.t))
        desc = {"kind": "ctor", "cls": fname.rsplit(".", 2)[-2], "args": args}
    else:
        return None
    return {"desc": desc, **run_native("C04", desc, pr.repo)}


def nice(pr, vc):
    """Readable, constructible counterexamples: figures in [0.001, 1000] with 3 decimals, timestamps at whole seconds after 1970."""
    from pyvc.replay import ModelView, TX_FIELDS
    fname = vc.func.split(":")[-1]
    if not (fname.startswith(GL + ".") and fname.rsplit(".", 1)[1] in FIGURES):
        return []
    mv = ModelView(pr.ex, None)
    self_ = z3.Const("self", V.Ref)
    out = []
    amt = mv.field_term(self_, "GainLoss.__crypto_amount")
    out += [amt >= z3.RealVal("0.001"), amt <= 1000, z3.IsInt(amt * 1000)]
    for spec in ("GainLoss.__taxable_event", "GainLoss.__acquired_lot"):
        ref = mv.field_term(self_, spec)
        tsx = mv.field_term(ref, "AbstractTransaction.__timestamp")
        out += [V.DT.off(tsx) == 0, V.DT.inst(tsx) % 1000000 == 0, V.DT.inst(tsx) >= 86400 * 1000000, V.DT.inst(tsx) < 4102444800 * 1000000]
        sp = mv.field_term(ref, "AbstractTransaction.__spot_price")
        out += [sp >= 1, sp <= 1000, z3.IsInt(sp)]
        for cls, flds in TX_FIELDS.items():
            for f in flds:
                if "exchange" in f or "holder" in f:
                    continue
                x = mv.field_term(ref, f"{cls}.__{f}")
                lo = 0 if f in ("crypto_fee", "fiat_fee", "crypto_received") else z3.RealVal("0.001")
                out += [z3.Implies(V.cls_of(ref) == pr.ex.class_ids[pr.ex.class_q(cls)], z3.And(x >= lo, x <= 1000000, z3.IsInt(x * 1000)))]
    return out


def native(desc):
    from fractions import Fraction
    from harness import rp2h
    F = rp2h.F
    cfg = rp2h.configuration("us")
    if desc["kind"] == "figure":
        from rp2.gain_loss import GainLoss
        ev = rp2h.build_tx(cfg, desc["event"])
        lot = rp2h.build_tx(cfg, desc["lot"]) if desc["lot"] else None
        g = GainLoss(cfg, rp2h.D(desc["amount"]), ev, lot)
        a = F(g.crypto_amount)
        cls = desc["event"]["cls"]
        if cls == "OutTransaction":
            need = F(ev.crypto_out_no_fee) + F(ev.crypto_fee)
            value = F(ev.fiat_fee) if ev.transaction_type.value == "fee" else F(ev.fiat_out_no_fee)
        elif cls == "IntraTransaction":
            need, value = F(ev.crypto_sent) - F(ev.crypto_received), F(ev.fiat_fee)
        else:
            need, value = F(ev.crypto_in), F(ev.fiat_in_with_fee)
        proceeds = value * a / need
        cost = F(lot.fiat_in_with_fee) * a / F(lot.crypto_in) if lot is not None else Fraction(0)
        want = {"taxable_event_fiat_amount_with_fee_fraction": proceeds, "fiat_cost_basis": cost, "acquired_lot_fiat_amount_with_fee_fraction": cost,
                "fiat_gain": proceeds - cost, "taxable_event_fraction_percentage": a / need,
                "acquired_lot_fraction_percentage": a / F(lot.crypto_in) if lot is not None else Fraction(0)}[desc["figure"]]
        try:
            got = F(getattr(g, desc["figure"]))
        except Exception as exc:
            return {"reproduced": True, "observed": f"raised {type(exc).__name__}: {exc}", "required": str(want)}
        scale = max(abs(proceeds), abs(cost)) if desc["figure"] == "fiat_gain" else abs(want)
        bad = abs(got - want) > Fraction(1, 10 ** 15) * scale
        return {"reproduced": bad, "observed": str(float(got)), "required": str(float(want)), "observed_exact": str(got), "required_exact": str(want),
                "inputs": {"event": str(ev), "lot": str(lot), "amount": str(g.crypto_amount)}}
    if desc["kind"] == "ctor":
        import importlib
        mod = {"InTransaction": "rp2.in_transaction", "OutTransaction": "rp2.out_transaction", "IntraTransaction": "rp2.intra_transaction"}[desc["cls"]]
        cls = getattr(importlib.import_module(mod), desc["cls"])
        a = dict(desc["args"])
        dec = {"spot_price", "crypto_in", "crypto_fee", "fiat_in_no_fee", "fiat_in_with_fee", "fiat_fee", "crypto_out_no_fee", "crypto_out_with_fee", "fiat_out_no_fee", "crypto_sent", "crypto_received"}
        kw = {}
        for k, v in a.items():
            if k in dec:
                kw[k] = None if v is None else rp2h.D(v)
        names = {"exchange": "Coinbase", "holder": "Bob", "from_exchange": "Coinbase", "from_holder": "Bob", "to_exchange": "Kraken", "to_holder": "Bob"}
        for k, v in names.items():
            if k in a:
                kw[k] = v
        ttype = a.get("transaction_type")
        if desc["cls"] != "IntraTransaction":
            kw["transaction_type"] = ttype if isinstance(ttype, str) and not ttype.startswith("str:") else ("buy" if desc["cls"] == "InTransaction" else "sell")
        t = cls(cfg, "2020-01-01T00:00:00+00:00", "B1", row=2, **kw)
        g = lambda n: None if kw.get(n) is None else F(kw[n])
        exp = {}
        if desc["cls"] == "InTransaction":
            fee = g("crypto_fee") * g("spot_price") if g("crypto_fee") is not None else (g("fiat_fee") or Fraction(0))
            nofee = g("fiat_in_no_fee") if g("fiat_in_no_fee") is not None else g("crypto_in") * g("spot_price")
            exp = {"fiat_fee": fee, "fiat_in_no_fee": nofee, "fiat_in_with_fee": g("fiat_in_with_fee") if g("fiat_in_with_fee") is not None else nofee + fee, "crypto_in": g("crypto_in")}
        elif desc["cls"] == "OutTransaction":
            exp = {"fiat_out_no_fee": g("fiat_out_no_fee") if g("fiat_out_no_fee") is not None else g("crypto_out_no_fee") * g("spot_price"),
                   "fiat_fee": g("fiat_fee") if g("fiat_fee") is not None else g("crypto_fee") * g("spot_price"),
                   "crypto_out_with_fee": g("crypto_out_with_fee") if g("crypto_out_with_fee") is not None else g("crypto_out_no_fee") + g("crypto_fee")}
        else:
            fee = g("crypto_sent") - g("crypto_received")
            exp = {"crypto_fee": fee, "fiat_fee": fee * F(t.spot_price)}
        bad = {n: {"observed": str(getattr(t, n)), "required": str(float(v))} for n, v in exp.items()
               if abs(F(getattr(t, n)) - v) > Fraction(1, 10 ** 15) * max(abs(v), Fraction(1, 10 ** 20))}
        return {"reproduced": bool(bad), "mismatches": bad, "inputs": {k: str(v) for k, v in kw.items()}}
    return {"reproduced": False}
