"""C09 - later transactions never change results already computed for earlier periods."""
import ast
import z3
from pyvc.driver import fn, lemma, custom
from pyvc import spec as S, vals as V
from pyvc.base import VC

LEVEL = "other"
FLOOR = 20
AAM = "rp2.abstract_accounting_method."
PLUG = "rp2.plugin.accounting_method."
EXPLANATION = ("Read-frame obligations proved/checked on the real code: the FIFO seek reads lots only inside [from_index, to_index] (its contract: selection "
               "and availability changes are confined to the window); the plugins' keys read only fields of the lot itself; keys injective on rows; the "
               "to-date consumers are prefix computations (C06: yearly list = folds up to the cut; C07: balances = folds up to the cut; C10: iterator). "
               "Syntactic frame: no module of the matcher reads module-level or class-level mutable state. The two-run relation itself (prefix of a "
               "longer history = the shorter history's result, for every cut point) is checked by the bounded end-to-end stand-in.")
TRUSTED = ["A-AVL: find_max_value_less_than(key) = value under the greatest key <= key (to_index is a function of the past)", "A-HEAP", "A-SORT (stable sort: later entries stay after the common prefix)"]
ASSUMPTIONS = TRUSTED
E2E = {"quick": 100, "thorough": 3000, "on_doubt": 500}
MATCHER_MODULES = ["rp2.tax_engine", "rp2.accounting_engine", "rp2.abstract_accounting_method", PLUG + "fifo", PLUG + "lifo", PLUG + "hifo", PLUG + "lofo"]


def items(pr):
    out = [fn(AAM + "AbstractChronologicalAccountingMethod.seek_non_exhausted_acquired_lot"), lemma("C01.rank"), custom("no_global_state", no_global_state),
           custom("set_to_index_window", set_to_index_window), custom("computed_data_call_sites", computed_data_call_sites)]
    for m in ("lifo", "hifo", "lofo"):
        out.append(fn(f"{PLUG}{m}.AccountingMethod.sort_key"))
    return out


def no_global_state(pr):
    """Nothing in the matcher keeps state that outlives a run: no module-level or class-level mutable value is assigned or mutated."""
    out = []
    for mname in MATCHER_MODULES:
        m = pr.tree.modules[mname]
        bad = []
        for n in m.tree.body:
            if isinstance(n, (ast.Assign, ast.AnnAssign)) and isinstance(getattr(n, "value", None), (ast.List, ast.Dict, ast.Set, ast.ListComp, ast.DictComp, ast.SetComp)):
                bad.append(f"module-level mutable at line {n.lineno}")
            if isinstance(n, ast.ClassDef):
                for b in n.body:
                    if isinstance(b, (ast.Assign, ast.AnnAssign)) and isinstance(getattr(b, "value", None), (ast.List, ast.Dict, ast.Set, ast.Call)) and \
                            not (isinstance(b.value, ast.Call) and getattr(b.value.func, "id", "") in ("str", "int")):
                        bad.append(f"class-level mutable {n.name} line {b.lineno}")
        for f in ast.walk(m.tree):
            if isinstance(f, ast.Global):
                bad.append(f"global statement line {f.lineno}")
        out.append(VC(f"{mname}/<module>", "frame", "no_state_outlives_a_run", [], z3.BoolVal(not bad), m.relpath, 0, note="; ".join(bad)))
    return out


def set_to_index_window(pr):
    """FeatureBasedAcquiredLotCandidates.set_to_index pushes exactly lots[old to_index .. to_index]: the loop is `for i in range(self.to_index, to_index + 1)`
    and the only subscript of the lot list in its body is [i] (read-frame: no lot after the disposal's upper bound is looked at)."""
    f = pr.tree.func(AAM + "FeatureBasedAcquiredLotCandidates.set_to_index")
    loops = [n for n in ast.walk(f.node) if isinstance(n, ast.For)]
    ok = len(loops) == 1 and ast.unparse(loops[0].iter) == "range(self.to_index, to_index + 1)" and isinstance(loops[0].target, ast.Name)
    subs = [ast.unparse(n) for n in ast.walk(f.node) if isinstance(n, ast.Subscript)]
    ok2 = ok and all(s == f"self.acquired_lot_list[{loops[0].target.id}]" for s in subs) and bool(subs)
    e = pr.tree.func("rp2.accounting_engine.AccountingEngine.get_acquired_lot_for_taxable_event")
    probe = [ast.unparse(n) for n in ast.walk(e.node) if isinstance(n, ast.Call) and getattr(n.func, "attr", "") == "find_max_value_less_than"]
    ok3 = "self.__acquired_lot_avl.find_max_value_less_than(self._get_avl_node_key_with_max_disambiguator(taxable_event.timestamp))" in probe
    k = pr.tree.func("rp2.accounting_engine.AccountingEngine._get_avl_node_key")
    from pyvc import astcheck as A
    K = A.Fn(pr.tree, "rp2.accounting_engine.AccountingEngine._get_avl_node_key")
    # fixed-width UTC digits down to the microsecond, then the zero-padded id: string order = (instant, id) order
    ok4 = K.has("return f\"{timestamp.astimezone(timezone.utc).strftime('%Y%m%d%H%M%S.%f')}_{internal_id:0>{self.KEY_DISAMBIGUATOR_LENGTH}}\"") and len(K.node.body) <= 2
    return [VC(f.qualname, "readframe", "pushes_only_lots_up_to_to_index", [], z3.BoolVal(ok2), f.loc(), 0, note=f"iter={ast.unparse(loops[0].iter) if loops else None} subs={subs}"),
            VC(e.qualname, "readframe", "upper_bound_is_the_last_lot_not_later_than_the_event", [], z3.BoolVal(ok3), e.loc(), 0, note=str(probe)),
            VC(k.qualname, "readframe", "lot_keys_are_utc_instants", [], z3.BoolVal(ok4), k.loc(), 0)]


def computed_data_call_sites(pr):
    from props import C06
    return C06.computed_data_call_sites(pr)


MANIFEST_ENTRY = {
    "category": "other",
    "text": ("Proved: window-confined selection of the FIFO seek, plugin keys as functions of the lot alone, key injectivity, prefix (fold-up-to-the-cut) "
             "postconditions of the to-date consumers (C06/C07/C10 evidence); checked syntactically over the AST: no state outlives a run in the matcher "
             "modules, set_to_index pushes only lots up to the disposal's upper bound, the AVL probe and UTC keys. Bounded: for every curated/random "
             "history and every cut point between distinct instants, the fractions of the full run dated up to the cut equal the run on the truncated history."),
    "note": ("The two-run uniqueness argument of DESIGN 8.C09 is not discharged as a lemma over proved functional postconditions (the engine loop is not "
             "under an inductive invariant here): level 'other'. The to-date form inherits known finding 9.2 (mixed time zones) through C06/C07/C10."),
    "technique": "contract-based deductive verification of leaf functions + syntactic read-frame obligations over the AST + bounded native stand-in for the two-run relation (labelled bounded)",
}
