"""C09 - later transactions never change results already computed for earlier periods."""
import ast
import re
import z3
from pyvc.driver import fn, lemma, custom
from pyvc import spec as S, vals as V
from pyvc.base import VC

LEVEL = "other"
FLOOR = 20
AAM = "rp2.abstract_accounting_method."
PLUG = "rp2.plugin.accounting_method."
EXPLANATION = ("Read-frame obligations proved/checked on the real code: the FIFO seek reads lots only inside [from_index, to_index] (its contract: selection "
               "and availability changes are confined to the window); the plugins' keys read only fields of the lot itself; keys injective on rows; the "
               "to-date consumers are prefix computations (C06: yearly list = folds up to the cut; C07: balances = folds up to the cut; C10: iterator). "
               "Syntactic frame: no module of the matcher reads module-level or class-level mutable state. The two-run relation itself (prefix of a "
               "longer history = the shorter history's result, for every cut point) is checked by the bounded end-to-end stand-in."
               " Since session 5 also proved on the real bodies, against contracts over the engine's representation invariant engine_inv (contracts/engine.py): AccountingEngine.get_acquired_lot_for_taxable_event (same event with taxable_event_amount - acquired_lot_amount left; the lot returned is one of the engine's lots, not later than the event, with all that was available of it, > 0; no other lot's availability changes), AccountingEngine.get_next_taxable_event_and_amount (next list element with its full crypto_balance_change; same instant keeps the lot in hand with the difference; a newer event writes the remainder back and seeks again; a used-up lot is not handed out again) and tax_engine._get_next_taxable_event_and_acquired_lot; callee preconditions (the seek's wf) discharged at the call sites. Assumed and listed: prezzemolo's floor lookup as a pure function, engine_inv after initialize (its visible part pinned by shape obligations), the heap-based set_to_index/seek (A-HEAP). The while loop of _create_unfiltered_gain_and_loss_set is not proved.")
TRUSTED = ["A-AVL: find_max_value_less_than(key) = value under the greatest key <= key (to_index is a function of the past)", "A-HEAP", "A-SORT (stable sort: later entries stay after the common prefix)"]
ASSUMPTIONS = TRUSTED + ["A-AVL/engine_inv: the engine's representation invariant holds after AccountingEngine.initialize (AVL insertions and tree walk outside the subset; visible part pinned by the establishes.* shape obligations)"]
E2E = {"quick": 100, "thorough": 3000, "on_doubt": 500}
MATCHER_MODULES = ["rp2.tax_engine", "rp2.accounting_engine", "rp2.abstract_accounting_method", PLUG + "fifo", PLUG + "lifo", PLUG + "hifo", PLUG + "lofo"]


def items(pr):
    out = [fn(AAM + "AbstractChronologicalAccountingMethod.seek_non_exhausted_acquired_lot"), lemma("C01.rank"), custom("no_global_state", no_global_state),
           custom("set_to_index_window", set_to_index_window), custom("key_order", key_order), custom("computed_data_call_sites", computed_data_call_sites),
           fn("rp2.accounting_engine.AccountingEngine.get_acquired_lot_for_taxable_event"), custom("engine_initialize", engine_initialize)]
    for m in ("lifo", "hifo", "lofo"):
        out.append(fn(f"{PLUG}{m}.AccountingMethod.sort_key"))
    return out


def no_global_state(pr):
    """Nothing in the matcher keeps state that outlives a run: no module-level or class-level mutable value is assigned or mutated."""
    out = []
    for mname in MATCHER_MODULES:
        m = pr.tree.modules[mname]
        bad = []
        for n in m.tree.body:
            if isinstance(n, (ast.Assign, ast.AnnAssign)) and isinstance(getattr(n, "value", None), (ast.List, ast.Dict, ast.Set, ast.ListComp, ast.DictComp, ast.SetComp)):
                bad.append(f"module-level mutable at line {n.lineno}")
            if isinstance(n, ast.ClassDef):
                for b in n.body:
                    if isinstance(b, (ast.Assign, ast.AnnAssign)) and isinstance(getattr(b, "value", None), (ast.List, ast.Dict, ast.Set, ast.Call)) and \
                            not (isinstance(b.value, ast.Call) and getattr(b.value.func, "id", "") in ("str", "int")):
                        bad.append(f"class-level mutable {n.name} line {b.lineno}")
        for f in ast.walk(m.tree):
            if isinstance(f, ast.Global):
                bad.append(f"global statement line {f.lineno}")
        out.append(VC(f"{mname}/<module>", "frame", "no_state_outlives_a_run", [], z3.BoolVal(not bad), m.relpath, 0, note="; ".join(bad)))
    return out


def set_to_index_window(pr):
    """FeatureBasedAcquiredLotCandidates.set_to_index pushes exactly lots[old to_index .. to_index]: the loop is `for i in range(self.to_index, to_index + 1)`
    and the only subscript of the lot list in its body is [i] (read-frame: no lot after the disposal's upper bound is looked at)."""
    f = pr.tree.func(AAM + "FeatureBasedAcquiredLotCandidates.set_to_index")
    loops = [n for n in ast.walk(f.node) if isinstance(n, ast.For)]
    ok = len(loops) == 1 and ast.unparse(loops[0].iter) == "range(self.to_index, to_index + 1)" and isinstance(loops[0].target, ast.Name)
    subs = [ast.unparse(n) for n in ast.walk(f.node) if isinstance(n, ast.Subscript)]
    ok2 = ok and all(s == f"self.acquired_lot_list[{loops[0].target.id}]" for s in subs) and bool(subs)
    e = pr.tree.func("rp2.accounting_engine.AccountingEngine.get_acquired_lot_for_taxable_event")
    probe = [ast.unparse(n) for n in ast.walk(e.node) if isinstance(n, ast.Call) and getattr(n.func, "attr", "") == "find_max_value_less_than"]
    ok3 = "self.__acquired_lot_avl.find_max_value_less_than(self._get_avl_node_key_with_max_disambiguator(taxable_event.timestamp))" in probe
    k = pr.tree.func("rp2.accounting_engine.AccountingEngine._get_avl_node_key")
    from pyvc import astcheck as A
    K = A.Fn(pr.tree, "rp2.accounting_engine.AccountingEngine._get_avl_node_key")
    # fixed-width UTC digits down to the microsecond, then the zero-padded id: string order = (instant, id) order
    ok4 = K.has("return f\"{timestamp.astimezone(timezone.utc).strftime('%Y%m%d%H%M%S.%f')}_{internal_id:0>{self.KEY_DISAMBIGUATOR_LENGTH}}\"") and len(K.node.body) <= 2
    return [VC(f.qualname, "readframe", "pushes_only_lots_up_to_to_index", [], z3.BoolVal(ok2), f.loc(), 0, note=f"iter={ast.unparse(loops[0].iter) if loops else None} subs={subs}"),
            VC(e.qualname, "readframe", "upper_bound_is_the_last_lot_not_later_than_the_event", [], z3.BoolVal(ok3), e.loc(), 0, note=str(probe)),
            VC(k.qualname, "readframe", "lot_keys_are_utc_instants", [], z3.BoolVal(ok4), k.loc(), 0)]


def engine_initialize(pr):
    """`engine_inv` (contracts/engine.py) is assumed to hold after AccountingEngine.initialize (A-AVL: the AVL insertions and the tree walk are outside
    the subset).  These shape obligations pin down the part of that assumption that is visible in the text: every candidates object is created by
    `create_lot_candidates(<the engine's lot list>, <the engine's partial-amount map>)` and handed to the year tree as it is - nothing in
    initialize advances a window (`set_to_index`, `set_from_index`), writes a partial amount or touches a heap; each lot is appended to the list
    and inserted in the lot tree under its own key with its own index; the only call site of initialize passes iterators of the two sets."""
    from pyvc import astcheck as A
    f = pr.tree.func("rp2.accounting_engine.AccountingEngine.initialize")
    calls = [n for n in ast.walk(f.node) if isinstance(n, ast.Call)]
    names = [getattr(c.func, "attr", getattr(c.func, "id", "")) for c in calls]
    forbidden = sorted(set(names) & {"set_to_index", "set_from_index", "set_partial_amount", "clear_partial_amount", "add_selected_lot_to_heap", "heappush", "heappop",
                                     "_set_partial_amount", "add_acquired_lot"})
    # abbreviations (names bound once, in the whole function or inside one of its while loops) are inlined before the comparison
    env = dict(A._single_assignments(list(f.node.body), exclude={a.arg for a in f.node.args.args}))
    for lp in [n for n in ast.walk(f.node) if isinstance(n, ast.While)]:
        env.update(A._single_assignments(list(lp.body), exclude={a.arg for a in f.node.args.args}))
    lot_var = next((k for k, v in env.items() if ast.unparse(v) == "next(acquired_lot_iterator)"), None)
    env_noiter = {k: v for k, v in env.items() if k != lot_var}
    n = lambda e: A.norm_expr(e, env_noiter)
    ins = [c for c in calls if getattr(c.func, "attr", "") == "insert_node" and len(c.args) == 2]
    cand_ins = [c for c in ins if "years_2_lot_candidates" in ast.unparse(c.func)]
    created = [n(c.args[1]) for c in cand_ins]
    ok_created = len(cand_ins) == 1 and created[0].endswith(".create_lot_candidates(self.__acquired_lot_list, self.__acquired_lot_2_partial_amount)") \
        and names.count("create_lot_candidates") == 1
    lot_ins = [c for c in ins if "acquired_lot_avl" in ast.unparse(c.func)]
    ok_lot, note_lot = False, ""
    if len(lot_ins) == 1 and lot_var is not None:
        key, val = n(lot_ins[0].args[0]), n(lot_ins[0].args[1])
        m = re.fullmatch(r"_AcquiredLotAndIndex\(" + re.escape(lot_var) + r", (\w+)\)", val)
        note_lot = f"key={key} value={val}"
        if m and f"self._get_avl_node_key({lot_var}.timestamp, {lot_var}.internal_id)" in key:
            idx = m.group(1)
            stores = [x for x in ast.walk(f.node) if isinstance(x, (ast.AugAssign, ast.Assign, ast.AnnAssign))
                      and any(isinstance(t, ast.Name) and t.id == idx for t in (x.targets if isinstance(x, ast.Assign) else [x.target]))]
            shapes = sorted(ast.unparse(A._Canon().visit(ast.parse(ast.unparse(x)).body[0])) if not isinstance(x, ast.AnnAssign) else f"{idx} = {ast.unparse(x.value)}" for x in stores)
            ok_lot = shapes == sorted([f"{idx} = 0", f"{idx} = {idx} + 1"]) and f"self.__acquired_lot_list.append({lot_var})" in ast.unparse(f.node)
            note_lot += f" index stores={shapes}"
    te = A.Fn(pr.tree, "rp2.tax_engine._create_unfiltered_gain_and_loss_set")
    ok_site = bool(te) and te.has("taxable_event_iterator: Iterator[AbstractTransaction] = iter(cast(Iterable[AbstractTransaction], unfiltered_taxable_event_set))",
                                  "acquired_lot_iterator: Iterator[InTransaction] = iter(cast(Iterable[InTransaction], input_data.unfiltered_in_transaction_set))",
                                  "new_accounting_engine.initialize(taxable_event_iterator, acquired_lot_iterator)")
    tef = pr.tree.func("rp2.tax_engine._create_unfiltered_gain_and_loss_set")
    return [VC(f.qualname, "establishes", "candidates_are_handed_to_the_year_tree_as_created", [], z3.BoolVal(not forbidden and ok_created), f.loc(), 0,
               note=f"forbidden calls={forbidden} inserted={created}"),
            VC(f.qualname, "establishes", "each_lot_is_listed_and_keyed_with_its_own_index", [], z3.BoolVal(ok_lot), f.loc(), 0, note=note_lot),
            VC(tef.qualname, "establishes", "initialize_is_given_iterators_of_the_event_set_and_the_lot_set", [], z3.BoolVal(ok_site), tef.loc(), 0)]


def computed_data_call_sites(pr):
    from props import C06
    return C06.computed_data_call_sites(pr)


KEY_SAMPLES = [("2020-05-01T12:00:00.250000+00:00", "3"), ("2020-05-01T12:00:00.750000+00:00", "4"), ("2020-05-01T12:00:00+00:00", "12"), ("2020-05-01T12:00:00+00:00", "2"),
               ("2020-05-01T21:00:00+09:00", "7"), ("2020-05-01T07:30:00-05:00", "8"), ("2020-05-01T12:30:00+00:00", "9"), ("2020-11-01T01:30:00-04:00", "5"), ("2020-11-01T01:10:00-05:00", "6"),
               ("2020-03-08T06:59:59.999999+00:00", "10"), ("2020-03-08T07:00:00+00:00", "11"), ("2019-12-31T23:59:59+00:00", "100"), ("2020-01-01T08:59:58+09:00", "99"),
               ("2021-01-01T00:00:00+14:00", "1"), ("2020-12-31T10:00:00.000001+00:00", "13")]


def key_order(pr):
    """The lot window of a disposal is found through string keys.  Their order must be the order of (instant, row id) - whatever the machine's time
    zone - and the probe key of an instant must sit after every key of that instant and before every key of a later one.  Decided by evaluating the
    real key functions of the tree under test on a fixed set of timestamps (sub-second differences, equal instants in different zones, DST
    transition hours of two zones, year boundaries) under two TZ settings."""
    from pyvc import astcheck as A
    from pyvc.replay import run_native
    import json
    out = []
    for tz in ("UTC", "EST5EDT,M3.2.0,M11.1.0"):
        os_env = {"TZ": tz}
        res = run_native("C09", {"kind": "avl_keys", "tz": tz}, pr.repo)
        bad = res.get("observed") if res.get("reproduced") else ([] if "keys" in res else [res.get("error", "no result")])
        vc = A.bvc("rp2.accounting_engine.AccountingEngine._get_avl_node_key", "readframe", f"keys_order_like_instant_then_id_under_TZ_{A._lab(tz)[:12]}", not bad, "src/rp2/accounting_engine.py", str(bad)[:400],
                   open_="keys" not in res and not res.get("reproduced"), definite=True)
        vc.note = "native:" + json.dumps({"kind": "avl_keys", "tz": tz})
        out.append(vc)
    return out


def replay(pr, vc, model):
    import json
    from pyvc.replay import run_native
    if (vc.note or "").startswith("native:"):
        desc = json.loads(vc.note[len("native:"):])
        return {"desc": desc, **run_native("C09", desc, pr.repo)}
    return None


def native(desc):
    if desc.get("kind") == "avl_keys":
        import os
        import time
        os.environ["TZ"] = desc.get("tz", "UTC")
        time.tzset()
        from dateutil.parser import parse
        from prezzemolo.avl_tree import AVLTree
        from rp2.accounting_engine import AccountingEngine
        from rp2.plugin.accounting_method.fifo import AccountingMethod
        t = AVLTree()
        t.insert_node(1970, AccountingMethod())
        eng = AccountingEngine(years_2_methods=t)
        items = [(parse(ts), rid) for ts, rid in KEY_SAMPLES]
        keys = [eng._get_avl_node_key(ts, rid) for ts, rid in items]
        probes = [eng._get_avl_node_key_with_max_disambiguator(ts) for ts, _ in items]
        bad = []
        for i, (ta, ia) in enumerate(items):
            for j, (tb, ib) in enumerate(items):
                want = (ta.timestamp(), int(ia)) < (tb.timestamp(), int(ib)) if ta != tb or ia != ib else False
                if ta == tb:
                    want = int(ia) < int(ib)
                if (keys[i] < keys[j]) != want:
                    bad.append(f"key({KEY_SAMPLES[i]}) < key({KEY_SAMPLES[j]}) is {keys[i] < keys[j]}, (instant, id) order says {want}")
                # the probe of instant a covers exactly the keys of instants <= a
                if (keys[j] <= probes[i]) != (tb <= ta):
                    bad.append(f"probe({KEY_SAMPLES[i][0]}) covers key({KEY_SAMPLES[j]}): {keys[j] <= probes[i]}, instants say {tb <= ta}")
        return {"reproduced": bool(bad), "keys": keys[:3], "observed": bad[:6], "required": "string order of the keys = order of (instant, row id), independent of the local time zone"}
    return {"reproduced": False}


MANIFEST_ENTRY = {
    "category": "other",
    "text": ("Proved: window-confined selection of the FIFO seek, plugin keys as functions of the lot alone, key injectivity, prefix (fold-up-to-the-cut) "
             "postconditions of the to-date consumers (C06/C07/C10 evidence); checked syntactically over the AST: no state outlives a run in the matcher "
             "modules, set_to_index pushes only lots up to the disposal's upper bound, the AVL probe, the call sites inside ComputedData.__init__; decided by "
             "evaluating the real key functions on 15 timestamps under two TZ settings: string order of the lot-window keys = order of (instant, row id). Bounded: for every curated/random "
             "history and every cut point between distinct instants, the fractions of the full run dated up to the cut equal the run on the truncated history; "
             "for every day boundary the run limited by that to-date equals the run on the history truncated there (figures, k/n numbering, yearly totals)."),
    "note": ("The two-run uniqueness argument of DESIGN 8.C09 is not discharged as a lemma over proved functional postconditions (the engine loop is not "
             "under an inductive invariant here): level 'other'. The to-date form inherits known finding 9.2 (mixed time zones) through C06/C07/C10."),
    "technique": "contract-based deductive verification of leaf functions and of AccountingEngine.get_acquired_lot_for_taxable_event (lot window: the lot handed to a disposal is not later than it; AVL lookup and heap-based half as assumed contracts) + syntactic read-frame obligations over the AST + bounded native stand-in for the two-run relation (labelled bounded)",
}
