"""C08 - histories that overdraw an account are rejected unless -n is given."""
import ast
import z3
from pyvc.driver import fn, lemma, custom
from pyvc import spec as S, vals as V
from pyvc.base import VC

LEVEL = "proof"
FLOOR = 15
BS = "rp2.balance.BalanceSet"
EXPLANATION = ("The overdraft clauses of BalanceSet.__init__: normal return without -n implies that no running balance (acquired + received - sent after "
               "any prefix of the chronological flow list up to the to-date cut) is below -1e-10; RP2ValueError from the flow loop implies -n is off and "
               "some running balance is negative; with -n the loop never raises. The guard is the real code's (is_equal_within_precision with the 1e-10 "
               "mask, RP2Decimal.__lt__), executed symbolically with Decimal.quantize = round-half-even. The -n flag's way into "
               "Configuration.allow_negative_balances is a syntactic obligation on rp2_main.")
TRUSTED = ["Decimal.quantize(mask) = round-half-even at the mask's exponent", "argparse store_true semantics", "assumptions of C07 (flow list, A-SORT, A-LISTITER)",
           "chronological order of simultaneous flows = stable sort of IN + INTRA + OUT (credits of an instant before its transfers and disposals)"]
ASSUMPTIONS = TRUSTED
E2E = {"quick": 40, "thorough": 1500, "on_doubt": 400}


def items(pr):
    return [fn(BS + ".__init__"), custom("n_flag_plumbing", n_flag_plumbing)]


def vc_filter(vc):
    return vc.func != BS + ".__init__" or "running_balance" in vc.label or "rejected_only" in vc.label or "no_overdraft" in vc.label or vc.kind in ("safety", "pre")


def n_flag_plumbing(pr):
    """-n is a store_true option stored in allow_negative_balances, handed to Configuration(...) as its allow_negative_balances argument, and
    Configuration.allow_negative_balances returns the stored field."""
    m = pr.tree.modules["rp2.rp2_main"]
    opt_ok = cfg_ok = False
    for n in ast.walk(m.tree):
        if isinstance(n, ast.Call) and isinstance(n.func, ast.Attribute) and n.func.attr == "add_argument":
            flags = [a.value for a in n.args if isinstance(a, ast.Constant)]
            kws = {k.arg: k.value for k in n.keywords}
            if "-n" in flags and isinstance(kws.get("action"), ast.Constant) and kws["action"].value == "store_true" and \
                    (("dest" in kws and getattr(kws["dest"], "value", None) == "allow_negative_balances") or "--allow_negative_balances" in flags or "--allow-negative-balances" in flags):
                opt_ok = True
        if isinstance(n, ast.Call) and getattr(n.func, "id", "") == "Configuration":
            for k in n.keywords:
                if k.arg == "allow_negative_balances" and ast.unparse(k.value) == "args.allow_negative_balances":
                    cfg_ok = True
            if len(n.args) >= 5 and ast.unparse(n.args[4]) == "args.allow_negative_balances":
                cfg_ok = True
    out = [VC("rp2.rp2_main/<module>", "plumbing", "n_option_is_store_true_into_allow_negative_balances", [], z3.BoolVal(opt_ok), m.relpath, 0),
           VC("rp2.rp2_main/<module>", "plumbing", "configuration_receives_the_flag", [], z3.BoolVal(cfg_ok), m.relpath, 0)]
    return out


def canaries(pr):
    def tighter_tolerance(pr):
        from contracts import balance as B
        saved = B.TEN
        B.TEN = z3.RealVal("1e-12")
        try:
            return [v for v in pr.gen_fn(BS + ".__init__", canary=True) if "no_running_balance" in v.label and "preserved" in v.kind]
        finally:
            B.TEN = saved
    return [("accepting_only_above_minus_1e-12_must_fail", tighter_tolerance)]


MANIFEST_ENTRY = {
    "category": "proof",
    "text": ("The exceptional and normal postconditions of BalanceSet.__init__ about overdrafts are discharged for all histories: without -n a normal "
             "return implies every running balance of every account after every prefix of the chronological flow list (up to the to-date cut) is >= -1e-10; "
             "an RP2ValueError from the flow loop implies -n is off and a running balance is negative (so a history that never goes negative is never "
             "rejected for this reason); with -n the check never raises. Inductive invariant over all prefixes; the guard's rounding is executed, not assumed."),
    "note": ("Between -1e-10 and 0 the statement leaves the outcome open and so does the contract (the code rejects below -5e-11). The error message "
             "naming the account and 'no report is produced' (process level) are outside the encoding: checked by the bounded native stand-in. Order of "
             "simultaneous flows as in DESIGN 5.2."),
}
