"""C02 - every disposal is fully covered by earlier lots; no lot is ever overspent."""
import z3
from pyvc.driver import fn, lemma, custom
from pyvc import spec as S, vals as V
from pyvc.base import VC

LEVEL = "other"
FLOOR = 30
AAM = "rp2.abstract_accounting_method."
EXPLANATION = ("Proved on the real code: GainLoss.__init__ accepts a fraction only if its amount is positive, does not exceed the event's outgoing amount "
               "nor the lot's amount, the lot is not later than the event, and 'no lot' <=> earn-typed event with the full amount; the FIFO seek hands out "
               "exactly what is left of the selected lot and changes no other lot's availability (no double spending inside seek); the event set holds "
               "only taxable transactions and spans all time. The conservation over whole histories (sums per event / per lot, error iff uncoverable, "
               "sell-everything) is checked by the bounded end-to-end stand-in."
               " Since session 5 also proved on the real bodies, against contracts over the engine's representation invariant engine_inv (contracts/engine.py): AccountingEngine.get_acquired_lot_for_taxable_event (same event with taxable_event_amount - acquired_lot_amount left; the lot returned is one of the engine's lots, not later than the event, with all that was available of it, > 0; no other lot's availability changes), AccountingEngine.get_next_taxable_event_and_amount (next list element with its full crypto_balance_change; same instant keeps the lot in hand with the difference; a newer event writes the remainder back and seeks again; a used-up lot is not handed out again) and tax_engine._get_next_taxable_event_and_acquired_lot; callee preconditions (the seek's wf) discharged at the call sites. Assumed and listed: prezzemolo's floor lookup as a pure function, engine_inv after initialize (its visible part pinned by shape obligations), the heap-based set_to_index/seek (A-HEAP). The while loop of _create_unfiltered_gain_and_loss_set is not proved.")
TRUSTED = ["A-HEAP / A-AVL (heapq, prezzemolo AVL tree: not under contract)", "amounts on the 1e-11 grid", "exchange-supplied crypto_out_with_fee = amount + fee (documented meaning)"]
ASSUMPTIONS = TRUSTED + ["A-AVL/engine_inv: the engine's representation invariant holds after AccountingEngine.initialize (AVL insertions and tree walk outside the subset; visible part pinned by the establishes.* shape obligations)"]
E2E = {"quick": 120, "thorough": 4000, "on_doubt": 600}


def items(pr):
    return [fn("rp2.gain_loss.GainLoss.__init__"), fn(AAM + "AbstractChronologicalAccountingMethod.seek_non_exhausted_acquired_lot"),
            fn("rp2.tax_engine._create_unfiltered_taxable_event_set"), fn("rp2.transaction_set.TransactionSet.add_entry"), custom("lot_window", lot_window),
            fn("rp2.accounting_engine.AccountingEngine.get_acquired_lot_for_taxable_event"), fn("rp2.accounting_engine.AccountingEngine.get_next_taxable_event_and_amount"),
            fn("rp2.tax_engine._get_next_taxable_event_and_acquired_lot"), custom("engine_initialize", engine_initialize)]


def vc_filter(vc):
    return True


def canaries(pr):
    """Must-fail canary for the engine contracts (vacuity guard on every run): with the same preconditions (engine_inv ...), the claim 'the event's
    amount is handed on unreduced' must be refuted for get_acquired_lot_for_taxable_event - if it verified, engine_inv (or an assumed contract) would be
    contradictory and everything proved about the engine vacuous."""
    def unreduced_amount(pr):
        import copy
        q = "rp2.accounting_engine.AccountingEngine.get_acquired_lot_for_taxable_event"
        saved = S.CONTRACTS[q]
        k = copy.copy(saved)
        k.ensures_ = [("amount_handed_on_unreduced", lambda s: s.result.taxable_event_amount.t == s.a.taxable_event_amount.t)]
        k.modifies_, k.modifies_declared, k.exc_ensures_ = [], False, []
        S.CONTRACTS[q] = k
        try:
            return pr.gen_fn(q, canary=True)
        finally:
            S.CONTRACTS[q] = saved
    return [("engine_hand_over_without_subtraction_must_fail", unreduced_amount)]


def native(desc):
    from props import C09
    return C09.native(desc)


def engine_initialize(pr):
    from props import C09
    return C09.engine_initialize(pr)


def lot_window(pr):
    """The window of lots offered to a disposal: lots up to the last one not later than the event, found through keys that order like (instant, id)."""
    from props import C09
    return C09.set_to_index_window(pr) + C09.key_order(pr)


MANIFEST_ENTRY = {
    "category": "other",
    "text": ("Proved for all inputs: the per-fraction sanity postcondition of GainLoss.__init__, the availability bookkeeping of the FIFO seek, the taxable "
             "event set construction (two nested loops with invariants) and TransactionSet.add_entry. Bounded: conservation over whole histories through "
             "the real compute_tax (fractions positive and summing to amount + fee, no lot overspent, no lot acquired after the disposal, RP2ValueError "
             "iff the lots acquired so far cannot cover a disposal) on curated + seeded random histories under all four methods and schedules."),
    "note": ("The whole-history invariant of the matcher loop is not discharged deductively (heapq / AVL tree outside the verified subset): level 'other'. "
             "Over-spending histories and the sell-everything extension are part of the bounded generator."),
    "technique": "contract-based deductive verification of the leaf functions and of the accounting-engine methods between the matcher loop and the lot seek (sidecar contracts, VCs from the AST, z3/cvc5; AVL lookups and the heap-based half as assumed contracts) + bounded native stand-in for the matcher loop's composition (labelled bounded)",
}
