"""C02 - every disposal is fully covered by earlier lots; no lot is ever overspent."""
import z3
from pyvc.driver import fn, lemma, custom
from pyvc import spec as S, vals as V
from pyvc.base import VC

LEVEL = "other"
FLOOR = 30
AAM = "rp2.abstract_accounting_method."
EXPLANATION = ("Proved on the real code: GainLoss.__init__ accepts a fraction only if its amount is positive, does not exceed the event's outgoing amount "
               "nor the lot's amount, the lot is not later than the event, and 'no lot' <=> earn-typed event with the full amount; the FIFO seek hands out "
               "exactly what is left of the selected lot and changes no other lot's availability (no double spending inside seek); the event set holds "
               "only taxable transactions and spans all time. The conservation over whole histories (sums per event / per lot, error iff uncoverable, "
               "sell-everything) is checked by the bounded end-to-end stand-in.")
TRUSTED = ["A-HEAP / A-AVL (heapq, prezzemolo AVL tree: not under contract)", "amounts on the 1e-11 grid", "exchange-supplied crypto_out_with_fee = amount + fee (documented meaning)"]
ASSUMPTIONS = TRUSTED
E2E = {"quick": 120, "thorough": 4000, "on_doubt": 600}


def items(pr):
    return [fn("rp2.gain_loss.GainLoss.__init__"), fn(AAM + "AbstractChronologicalAccountingMethod.seek_non_exhausted_acquired_lot"),
            fn("rp2.tax_engine._create_unfiltered_taxable_event_set"), fn("rp2.transaction_set.TransactionSet.add_entry"), custom("lot_window", lot_window)]


def vc_filter(vc):
    return True


def native(desc):
    from props import C09
    return C09.native(desc)


def lot_window(pr):
    """The window of lots offered to a disposal: lots up to the last one not later than the event, found through keys that order like (instant, id)."""
    from props import C09
    return C09.set_to_index_window(pr) + C09.key_order(pr)


MANIFEST_ENTRY = {
    "category": "other",
    "text": ("Proved for all inputs: the per-fraction sanity postcondition of GainLoss.__init__, the availability bookkeeping of the FIFO seek, the taxable "
             "event set construction (two nested loops with invariants) and TransactionSet.add_entry. Bounded: conservation over whole histories through "
             "the real compute_tax (fractions positive and summing to amount + fee, no lot overspent, no lot acquired after the disposal, RP2ValueError "
             "iff the lots acquired so far cannot cover a disposal) on curated + seeded random histories under all four methods and schedules."),
    "note": ("The whole-history invariant of the matcher loop is not discharged deductively (heapq / AVL tree outside the verified subset): level 'other'. "
             "Over-spending histories and the sell-everything extension are part of the bounded generator."),
    "technique": "contract-based deductive verification of the leaf functions (sidecar contracts, VCs from the AST, z3/cvc5) + bounded native stand-in for the composition (labelled bounded)",
}
