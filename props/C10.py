"""C10 - date filters only hide rows; they never change the figures shown."""
import z3
from pyvc.driver import fn, lemma, custom
from pyvc import spec as S, vals as V
from pyvc.base import VC

LEVEL = "proof"
FLOOR = 5
EXPLANATION = ""
TRUSTED = []
ASSUMPTIONS = TRUSTED
AES = "rp2.abstract_entry_set.AbstractEntrySet"


def items(pr):
    return [fn("rp2.abstract_entry_set.EntrySetIterator.__next__"), fn(AES + "._sort_entries"), fn(AES + ".__iter__"), fn(AES + ".duplicate"), fn("rp2.input_data.InputData.__init__")]
