"""C10 - date filters only hide rows; they never change the figures shown."""
import z3
from pyvc.driver import fn, lemma, custom
from pyvc import spec as S, vals as V
from pyvc.base import VC

LEVEL = "proof"
FLOOR = 100
EXPLANATION = ("EntrySetIterator.__next__ is verified (inductive invariant over the skipped prefix) to yield exactly the next entry whose own calendar date lies "
               "in [from, to], both bounds inclusive, and to stop only at the end of the list or at the first entry dated after the to-date; duplicate() / "
               "InputData.__init__ to produce views that share the entry list (same objects => same figures) with exactly the requested window; "
               "_sort_entries/__iter__ to keep a chronological list as it is; the matcher's independence of the window is a read-frame obligation over the "
               "AST of tax_engine / accounting_engine / abstract_accounting_method / gain_loss (no from_date/to_date/filtered_* read outside compute_tax's "
               "final ComputedData(...) call, event and gain/loss sets created with MIN_DATE/MAX_DATE).")
TRUSTED = ["A-SORT (list.sort is a stable sort by key)", "copy.copy is a shallow copy", "A-DT: .date() is the calendar date of the timestamp in its own UTC offset",
           "A-ANNOT", "heap closedness (fields of allocated objects refer to allocated objects)"]
ASSUMPTIONS = TRUSTED
E2E = {"quick": 40, "thorough": 1500, "on_doubt": 400}
AES = "rp2.abstract_entry_set.AbstractEntrySet"
MATCHER_MODULES = ["rp2.tax_engine", "rp2.accounting_engine", "rp2.abstract_accounting_method", "rp2.gain_loss", "rp2.plugin.accounting_method.fifo",
                   "rp2.plugin.accounting_method.lifo", "rp2.plugin.accounting_method.hifo", "rp2.plugin.accounting_method.lofo"]


def items(pr):
    return [fn("rp2.abstract_entry_set.EntrySetIterator.__next__"), fn(AES + "._sort_entries"), fn(AES + ".__iter__"), fn(AES + ".duplicate"),
            fn("rp2.input_data.InputData.__init__"), custom("matcher_read_frame", matcher_read_frame), custom("computed_data_call_sites", computed_data_call_sites)]


def matcher_read_frame(pr):
    """Lot matching always starts from the beginning of the history: nothing that computes gain/loss fractions reads the date window."""
    import ast
    out = []
    forbidden = {"from_date", "to_date", "filtered_in_transaction_set", "filtered_out_transaction_set", "filtered_intra_transaction_set", "_from_date", "_to_date"}
    for mname in MATCHER_MODULES:
        m = pr.tree.modules.get(mname)
        if m is None:
            out.append(VC(f"tree:{mname}", "readframe", "module_present", [], z3.BoolVal(False), mname, 0))
            continue
        hits = []
        for fnode in ast.walk(m.tree):
            if not isinstance(fnode, ast.FunctionDef):
                continue
            for n in ast.walk(fnode):
                if isinstance(n, ast.Attribute) and n.attr in forbidden:
                    # the one allowed use: compute_tax hands the window to ComputedData (which only filters what is shown)
                    if mname == "rp2.tax_engine" and fnode.name == "compute_tax" and isinstance(n.value, ast.Name) and n.value.id == "configuration":
                        continue
                    hits.append(f"{fnode.name}:{n.lineno}:{n.attr}")
                if isinstance(n, ast.Name) and n.id in ("from_date", "to_date") and mname != "rp2.gain_loss":
                    hits.append(f"{fnode.name}:{n.lineno}:{n.id}")
        out.append(VC(f"{mname}/<module>", "readframe", "no_read_of_the_date_window", [], z3.BoolVal(not hits), m.relpath, 0, note="; ".join(hits)))
    # the two sets the matcher builds span all of time
    te = pr.tree.modules["rp2.tax_engine"]
    ok_ctor = {"TransactionSet": False, "GainLossSet": False}
    for n in ast.walk(te.tree):
        if isinstance(n, ast.Call) and isinstance(n.func, ast.Name) and n.func.id in ok_ctor:
            names = [a.id for a in n.args if isinstance(a, ast.Name)]
            ok_ctor[n.func.id] = names[-2:] == ["MIN_DATE", "MAX_DATE"]
    for k, ok in ok_ctor.items():
        out.append(VC("rp2.tax_engine/<module>", "readframe", f"{k}_spans_all_time", [], z3.BoolVal(ok), te.relpath, 0))
    # compute_tax passes exactly configuration.from_date / to_date to ComputedData and the unfiltered sets to the matcher
    ct = pr.tree.func("rp2.tax_engine.compute_tax")
    ret = [n for n in ast.walk(ct.node) if isinstance(n, ast.Return)]
    good = False
    if len(ret) == 1 and isinstance(ret[0].value, ast.Call) and getattr(ret[0].value.func, "id", "") == "ComputedData":
        a = ret[0].value.args
        good = len(a) == 6 and ast.unparse(a[4]) == "configuration.from_date" and ast.unparse(a[5]) == "configuration.to_date" and \
            ast.unparse(a[1]) == "unfiltered_taxable_event_set" and ast.unparse(a[2]) == "unfiltered_gain_loss_set"
    out.append(VC("rp2.tax_engine.compute_tax", "readframe", "window_goes_only_to_ComputedData", [], z3.BoolVal(good), ct.loc(), 0))
    return out


def canaries(pr):
    def exclusive_upper_bound(pr):
        from contracts import entry_set as E
        q = "rp2.abstract_entry_set.EntrySetIterator.__next__"
        saved = S.CONTRACTS[q]
        k = S.Contract(q)
        k.requires_ = list(saved.requires_)
        k.modifies_, k.modifies_declared = list(saved.modifies_), True
        k.raises_ = list(saved.raises_)
        k.ensures("strictly_before_to_date", lambda s: E.entry_day(s, s.result) < E.eto(E.it_set(s.a.self)).t)
        S.CONTRACTS[q] = k
        try:
            return pr.gen_fn(q, canary=True)
        finally:
            S.CONTRACTS[q] = saved
    return [("window_exclusive_at_to_date_must_fail", exclusive_upper_bound)]


def computed_data_call_sites(pr):
    from props import C06
    return C06.computed_data_call_sites(pr)


MANIFEST_ENTRY = {
    "category": "proof",
    "text": ("Every obligation generated from the current source of EntrySetIterator.__next__ (loop invariant, normal and StopIteration postconditions), "
             "AbstractEntrySet._sort_entries / __iter__ / duplicate and InputData.__init__ is discharged by z3 for all lists, windows and time zones: the "
             "iterator yields exactly the entries whose own calendar date is in [from, to] up to the first entry dated after the to-date; filtered sets are "
             "views sharing the unfiltered entry list; plus syntactic read-frame obligations showing the matcher never reads the window."),
    "note": ("'iter_view = window' for a whole list needs local dates to be monotone along the instant-sorted list; with mixed time zones the iterator "
             "stops at the first entry dated after the to-date although later entries may be inside the window (DESIGN 9.2) - the contract states exactly "
             "what the iterator does, the end-to-end consequence is reported by the bounded native check as a known finding. ComputedData.__init__'s own "
             "loops (running sums, sold percentage) are reported under C13/C15."),
}
