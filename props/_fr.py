"""Table-writer contracts of rp2_full_report.py shared by C13 (values) and C19 (links)."""
import ast
from pyvc import astcheck as A

MOD = "rp2.plugin.report.rp2_full_report"
G = MOD + ".Generator."
REL = "src/rp2/plugin/report/rp2_full_report.py"
TX = "self.__get_hyperlinked_transaction_value"
SM = "self.__get_hyperlinked_summary_value"
YES = "_('YES') if ELT.is_taxable() else _('NO')"

# table -> (iterated collection, header attribute, first header column, {column: (value of the loop element, header label)})
TABLES = {
    "__generate_in_table": ("computed_data.in_transaction_set", "__in_header_names_row_2", 0, {
        0: ("in_lot_sold_percentage if in_lot_sold_percentage is not None else ''", "Sent/Sold"), 1: ("ELT.timestamp", "Timestamp"), 2: ("ELT.asset", "Asset"), 3: ("ELT.exchange", "Exchange"),
        4: ("ELT.holder", "Holder"), 5: ("ELT.transaction_type.get_translation().upper()", "Type"), 6: ("ELT.spot_price", "Spot Price"), 7: ("ELT.crypto_in", "In"),
        8: ("computed_data.get_crypto_in_running_sum(ELT)", "Running Sum"), 9: ("ELT.fiat_fee", "{} Fee"), 10: ("ELT.fiat_in_no_fee", "No Fee"), 11: ("ELT.fiat_in_with_fee", "With Fee"),
        12: (YES, "Event"), 14: ("ELT.unique_id", "Unique Id"), 15: ("ELT.notes", "Notes")}),
    "__generate_out_table": ("computed_data.out_transaction_set", "__out_header_names_row_2", 1, {
        1: ("ELT.timestamp", "Timestamp"), 2: ("ELT.asset", "Asset"), 3: ("ELT.exchange", "Exchange"), 4: ("ELT.holder", "Holder"), 5: ("ELT.transaction_type.get_translation().upper()", "Type"),
        6: ("ELT.spot_price", "Spot Price"), 7: ("ELT.crypto_out_no_fee", "Crypto Out"), 8: ("ELT.crypto_fee", "Crypto Fee"), 9: ("computed_data.get_crypto_out_running_sum(ELT)", "Running Sum"),
        10: ("computed_data.get_crypto_out_fee_running_sum(ELT)", "Running Sum"), 11: ("ELT.fiat_out_no_fee", "{} Out"), 12: ("ELT.fiat_fee", "{} Fee"), 13: (YES, "Event"),
        14: ("ELT.unique_id", "Unique Id"), 15: ("ELT.notes", "Notes")}),
    "__generate_intra_table": ("computed_data.intra_transaction_set", "__intra_header_names_row_2", 1, {
        1: ("ELT.timestamp", "Timestamp"), 2: ("ELT.asset", "Asset"), 3: ("ELT.from_exchange", "Exchange"), 4: ("ELT.from_holder", "Holder"), 5: ("ELT.to_exchange", "To Exchange"),
        6: ("ELT.to_holder", "To Holder"), 7: ("ELT.spot_price", "Spot Price"), 8: ("ELT.crypto_sent", "Crypto Sent"), 9: ("ELT.crypto_received", "Received"), 10: ("ELT.crypto_fee", "Crypto Fee"),
        11: ("computed_data.get_crypto_intra_fee_running_sum(ELT)", "Running Sum"), 12: ("ELT.fiat_fee", "{} Fee"), 13: (YES, "Event"), 14: ("ELT.unique_id", "Unique Id"), 15: ("ELT.notes", "Notes")}),
    "__generate_gain_loss_summary": ("yearly_gain_loss_list", "__gain_loss_summary_header_names_row_2", 0, {
        0: ("ELT.year", "Year"), 1: ("ELT.asset", "Asset"), 2: ("ELT.fiat_gain_loss", "Gains"), 3: ("_('LONG') if ELT.is_long_term_capital_gains else _('SHORT')", "Gains Type"),
        4: ("ELT.transaction_type.get_translation().upper()", "Type"), 5: ("ELT.crypto_amount", "Taxable Total"), 6: ("ELT.fiat_amount", "Taxable Total"), 7: ("ELT.fiat_cost_basis", "Cost Basis")}),
    "__generate_account_balances": ("balance_set", "__balance_header_names_row_2", 0, {
        0: ("ELT.exchange", "Exchange"), 1: ("ELT.holder", "Holder"), 2: ("ELT.asset", "Asset"), 3: ("ELT.acquired_balance", "Balance"), 4: ("ELT.sent_balance", "Balance"),
        5: ("ELT.received_balance", "Balance"), 6: ("ELT.final_balance", "Balance")}),
    "__generate_yearly_gain_loss_summary": ("yearly_gain_loss_list", "__yearly_gain_loss_summary_header_names_row_2", 0, {
        0: (f"{SM}(asset, ELT.year, ELT.year)", "Year"), 1: (f"{SM}(asset, asset, ELT.year)", "Asset"), 2: (f"{SM}(asset, ELT.fiat_gain_loss, ELT.year)", "Gains"),
        3: (f"{SM}(asset, _('LONG') if ELT.is_long_term_capital_gains else _('SHORT'), ELT.year)", "Gains Type"), 4: (f"{SM}(asset, ELT.transaction_type.get_translation().upper(), ELT.year)", "Type"),
        5: (f"{SM}(asset, ELT.crypto_amount, ELT.year)", "Taxable Total"), 6: (f"{SM}(asset, ELT.fiat_amount, ELT.year)", "Taxable Total"), 7: (f"{SM}(asset, ELT.fiat_cost_basis, ELT.year)", "Cost Basis")}),
}
EV, LOT = "ELT.taxable_event", "ELT.acquired_lot"
NOTE_EV = "f'{computed_data.gain_loss_set.get_taxable_event_fraction(ELT) + 1}/{computed_data.gain_loss_set.get_taxable_event_number_of_fractions(ELT.taxable_event)}: {ELT.crypto_amount:.8f} of {ELT.taxable_event.crypto_balance_change:.8f} {asset}'"
NOTE_LOT = "f'{computed_data.gain_loss_set.get_acquired_lot_fraction(ELT) + 1}/{computed_data.gain_loss_set.get_acquired_lot_number_of_fractions(ELT.acquired_lot)}: {ELT.crypto_amount:.8f} of {ELT.acquired_lot.crypto_balance_change:.8f} {asset}'"
DETAIL_PLAIN = {0: ("ELT.crypto_amount", "Amount"), 1: ("ELT.asset", "Asset"), 2: ("computed_data.get_crypto_gain_loss_running_sum(ELT)", "Running Sum"), 3: ("ELT.fiat_gain", "Gains"),
                4: ("_('LONG') if ELT.is_long_term_capital_gains() else _('SHORT')", "Gains Type")}
# column -> (transaction the cell describes and links to, displayed value, header)
DETAIL_LINKED = {5: (EV, "ELT.taxable_event.timestamp", "Timestamp"),
                 6: (EV, "f'{self._get_table_type_from_transaction(ELT.taxable_event)} / {ELT.taxable_event.transaction_type.get_translation().upper()}'", "Direction/Type"),
                 7: (EV, "ELT.taxable_event_fraction_percentage", "Fraction %"), 8: (EV, "ELT.taxable_event_fiat_amount_with_fee_fraction", "Amount Fraction"),
                 9: (EV, "ELT.taxable_event.spot_price", "Spot Price"), 10: (EV, "ELT.taxable_event.unique_id", "Unique Id"), 11: (EV, NOTE_EV, "Fraction Description"),
                 12: (LOT, "ELT.acquired_lot.timestamp", "Timestamp"), 13: (LOT, "ELT.acquired_lot_fraction_percentage", "Fraction %"),
                 14: (LOT, "ELT.acquired_lot_fiat_amount_with_fee_fraction", "Amount Fraction"), 15: (LOT, "ELT.acquired_lot.fiat_fee * ELT.acquired_lot_fraction_percentage", "Fee Fraction"),
                 16: (LOT, "ELT.fiat_cost_basis", "Cost Basis"), 17: (LOT, "ELT.acquired_lot.spot_price", "Spot Price"), 18: (LOT, "ELT.acquired_lot.unique_id", "Unique Id"),
                 19: (LOT, NOTE_LOT, "Description")}


def setup_fn(pr):
    return A.func_node(pr.tree, G + "_setup_text_data")


def table_vcs(pr, name, with_headers=True):
    it, hattr, hcol, cols = TABLES[name]
    q = G + name
    f, w = A.writer_for(pr.tree, q, it)
    out = A.writer_vcs(q, REL, w, it, {c: v for c, (v, _) in cols.items()})
    if with_headers:
        sf = setup_fn(pr)
        hl = A.header_list(sf, hattr) if sf else None
        ok = hl is not None and all(0 <= c - hcol < len(hl) and hl[c - hcol] == h for c, (_, h) in cols.items())
        out.append(A.bvc(q, "writer", "column_headers_name_what_the_columns_carry", ok, REL, f"{hattr} = {hl}", open_=hl is None))
        owner = A.Fn(pr.tree, G + ("generate" if name == "__generate_yearly_gain_loss_summary" else name))
        sheet_args = "summary_sheet, 0, 0" if name == "__generate_yearly_gain_loss_summary" else f"sheet, row_index, {hcol}"
        out.append(A.bvc(q, "writer", "header_is_written_from_the_first_bound_column", owner.expr(f"self._fill_header(ANY, ANY, self.{hattr}, {sheet_args})"), REL))
    return out


def detail_writer(pr):
    return A.writer_for(pr.tree, G + "__generate_gain_loss_detail", "computed_data.gain_loss_set")
