"""C11 - parsed transactions equal the spreadsheet rows for any column layout."""
import ast
import z3
from pyvc.driver import custom, lemma, fn
from pyvc import astcheck as A, dtable as D
from pyvc.base import VC
from pyvc.spec import lemma as _lemma

LEVEL = "other"
# obligations whose failure is a semantic fact about the tree (not a shape that is no longer recognized): reported as violations on their own
DEFINITE = ("at_least_11_decimal_digits_are_kept", "first_cell_", "config_field_names_are_constructor_parameter_names", "row_loop_never_stops")
FLOOR = 40
REL = "src/rp2/ods_parser.py"
CFG = "src/rp2/configuration.py"
EXPLANATION = ("(rows) The decision table of the row loop of parse_ods (symbolic execution of the real loop body, pyvc/dtable.py; shared with C12) gives: a "
               "row inside a table and below its header is handed exactly once to _create_and_process_transaction with its own cells, its 1-based sheet "
               "row and the type of the enclosing table, the row counter advances by one, blank rows between tables are skipped, tables may come in any "
               "order (the table type is read from the keyword, no order is assumed). (columns) Configuration.__get_table_constructor_argument_pack is "
               "{argument: data[position] for argument, position in header.items()} over the header map of the table, and _validate_header_section "
               "builds that map as field -> int(column) while rejecting negative, duplicate and unknown entries; the three per-table accessors pass "
               "their own map. Unmapped columns are never read (the comprehension reads mapped positions only); an unmapped optional field is simply "
               "absent from the keyword pack, so the constructor default applies; the constructors' own postconditions (fields stored as given, documented "
               "defaults, fiat fee = crypto fee x spot price and its inclusion in fiat_in_with_fee) are proved here by symbolic execution of their bodies. (numbers) every numeric "
               "constructor parameter is converted by RP2Decimal(f'{value:.11f}') - a z3 lemma bounds the rounding error by 5e-12. (fee split) the "
               "keyword bindings of the two constructor calls in _create_and_process_transaction are compared with the statement: same instant, asset, "
               "exchange, holder, spot price; acquisition keeps crypto_in and the fiat fields with crypto_fee dropped; the artificial out-transaction has "
               "type FEE, amount 0, fee = the crypto fee, a fresh negative id; lemmas for coin flow and cost basis. Bounded: permuted layouts, table "
               "orders, blank rows, extra columns, 11-digit numbers and crypto fees through the real parser, compared field by field.")
TRUSTED = ["Python's '%.11f' float formatting rounds correctly to 11 decimals (IEEE-754 doubles: ezodf returns floats)", "ezodf rows()/cell.value return the cells of the sheet in order",
           "parse(str(timestamp)) == timestamp for zoned datetimes (dateutil round trip)", "configparser yields each section key once", "C04: constructor defaults for absent optional fields"]
ASSUMPTIONS = TRUSTED
E2E = {"quick": 3, "thorough": 60, "on_doubt": 8, "cli": True}


CTOR_LABELS = ("fiat_fee_from_crypto_fee", "fiat_fee_supplied", "crypto_fee_stored", "fiat_in_no_fee", "fiat_in_with_fee", "crypto_in_stored", "spot_price_stored", "row_is_id", "asset_stored",
               "amounts_stored", "fiat_out_no_fee", "fiat_fee", "crypto_out_with_fee", "fee_is_difference", "fiat_fee_valued_at_spot", "exchange_holder_known", "accounts_known")


def vc_filter(vc):
    return vc.kind != "post" or not vc.func.endswith(".__init__") or any(l in vc.label for l in CTOR_LABELS)


def items(pr):
    return [fn("rp2.in_transaction.InTransaction.__init__"), fn("rp2.out_transaction.OutTransaction.__init__"), fn("rp2.intra_transaction.IntraTransaction.__init__"), custom("rows", rows), custom("row_classes", row_classes), custom("columns", columns), custom("numbers", numbers), custom("fee_split", fee_split), lemma("C11.rounding"), lemma("C11.fee_model")]


def row_classes(pr):
    from props import C12
    return C12.row_classes(pr)


def replay(pr, vc, model):
    from props import C12
    return C12.replay(pr, vc, model)


def native(desc):
    from props import C12
    return C12.native(desc)


def _split_fn(pr):
    """_create_and_process_transaction with the local holding the freshly built transaction renamed to `transaction`."""
    q = "rp2.ods_parser._create_and_process_transaction"
    f = A.func_node(pr.tree, q)
    if f is None:
        return None
    m = {}
    for st in f.body:
        tg = st.targets[0] if isinstance(st, ast.Assign) and len(st.targets) == 1 else st.target if isinstance(st, ast.AnnAssign) else None
        if isinstance(tg, ast.Name) and isinstance(getattr(st, "value", None), ast.Call) and A.dotted(st.value.func) == "_create_transaction":
            m[tg.id] = "transaction"
    fr = A.renamed(f, m)
    A._MOD_OF[id(fr)] = A._MOD_OF.get(id(f))
    return fr


def rows(pr):
    from props import C12
    keep = ("data_row_is_processed_exactly_once", "header_row_is_not_added", "table_keyword_opens", "table_end_closes", "blank_row_between_tables", "loop_body_is_within",
            "row_classes_begin_end_empty", "input_data_is_built")
    out = [vc for vc in C12.structure(pr) if any(k in vc.label for k in keep)]
    f, lp = C12.row_loop(pr)
    mod = pr.tree.modules["rp2.ods_parser"]
    if lp is not None:
        out.append(A.bvc(C12.Q, "shape", "row_values_are_all_cells_of_the_row_in_order", A.has(lp, "row_values = [cell.value for cell in row]", mod.tree, scope=A.scope_of(f, mod.tree)), REL))
        out.append(A.bvc(C12.Q, "shape", "no_break_continue_return_in_the_row_loop", not [n for n in ast.walk(lp) if isinstance(n, (ast.Break, ast.Continue, ast.Return))], REL))
    q = "rp2.ods_parser._create_and_process_transaction"
    fn_ = _split_fn(pr)
    if fn_ is not None:
        sc = A.scope_of(fn_, mod.tree)
        t = D.Table()
        paths = t.run(fn_.body, [D.Path([], [], {})])
        split = t.atom("isinstance(transaction, InTransaction)")
        fee = t.atom("transaction.is_crypto_fee_defined")
        adds = lambda p: [e for k, e in p.effects if k == "call" and ".add_entry(" in e]
        arts = lambda p: [e for k, e in p.effects if k == "call" and ".append(" in e]
        live = [p for p in paths if D.feasible([z3.Not(z3.And(split, fee))] + p.cond)]
        plain = lambda p: len(adds(p)) == 1 and A.expr_eq("unfiltered_transaction_sets[current_table_type].add_entry(transaction)", adds(p)[0], sc) and not arts(p) and not p.done
        out.append(VC(q, "case", "row_without_crypto_fee_is_added_once_to_the_set_of_its_table", [z3.Not(z3.And(split, fee))],
                      z3.And(*[z3.Implies(z3.And(*p.cond) if p.cond else z3.BoolVal(True), z3.BoolVal(plain(p))) for p in live]) if live else z3.BoolVal(False), REL, 0))
        live = [p for p in paths if D.feasible([split, fee] + p.cond)]
        two = lambda p: len(adds(p)) == 1 and A.expr_eq("unfiltered_transaction_sets[EntrySetType.IN].add_entry(InTransaction(ANY))", adds(p)[0], sc) and \
            len(arts(p)) == 1 and A.expr_eq("artificial_transaction_list.append(OutTransaction(ANY))", arts(p)[0], sc) and not p.done
        out.append(VC(q, "case", "in_row_with_crypto_fee_becomes_one_acquisition_plus_one_artificial_fee_disposal", [split, fee],
                      z3.And(*[z3.Implies(z3.And(*p.cond), z3.BoolVal(two(p))) for p in live]) if live else z3.BoolVal(False), REL, 0))
        out.append(A.bvc(q, "shape", "transaction_is_built_from_this_rows_values_and_sheet_row", A.has(fn_, "transaction = _create_transaction(configuration, current_table_type, internal_id, row_values)", mod.tree), REL))
    P = A.Fn(pr.tree, "rp2.ods_parser.parse_ods")
    out.append(A.bvc("rp2.ods_parser.parse_ods", "shape", "artificial_fee_disposals_end_up_in_the_out_set",
                     P.has("for transaction in artificial_transaction_list:\n    if isinstance(transaction, InTransaction):\n        ...\n    elif isinstance(transaction, OutTransaction):\n"
                           "        unfiltered_transaction_sets[EntrySetType.OUT].add_entry(transaction)\n    else:\n        ..."), REL))
    return out


def columns(pr):
    out = []
    C = "rp2.configuration.Configuration."
    q = C + "__get_table_constructor_argument_pack"
    F = A.Fn(pr.tree, q)
    out.append(A.bvc(q, "post", "pack_maps_each_configured_field_to_the_cell_at_its_configured_column", F.has("pack = {argument: data[position] for argument, position in header.items()}\nreturn pack") or
                     F.has("return {argument: data[position] for argument, position in header.items()}"), CFG))
    out.append(A.bvc(q, "post", "short_row_is_rejected_not_padded", F.has("max_column = header[max(header, key=header.get)]\nif len(data) <= max_column:\n    raise RP2ValueError(ANY)"), CFG))
    for tab in ("in", "out", "intra"):
        G = A.Fn(pr.tree, C + f"get_{tab}_table_constructor_argument_pack")
        out.append(A.bvc(G.qual, "post", "uses_the_header_map_of_its_own_table", G.has(f"return self.__get_table_constructor_argument_pack(data, '{tab}', self.__{tab}_header)"), CFG))
    CT = A.Fn(pr.tree, "rp2.ods_parser._create_transaction")
    for typ, tab, cls in (("IN", "in", "InTransaction"), ("OUT", "out", "OutTransaction"), ("INTRA", "intra", "IntraTransaction")):
        body = (f"argument_pack = configuration.get_{tab}_table_constructor_argument_pack(row_values)\n"
                f"argument_pack = _process_constructor_argument_pack(configuration, argument_pack, internal_id, '{cls}')\ntransaction = {cls}(**argument_pack)")
        ok = CT and any(isinstance(n, ast.If) and ast.unparse(n.test).endswith(f"== EntrySetType.{typ}") and A._match_block(ast.parse(body.replace("\\n", "\n")).body, n.body, CT.scope, anchored=True)
                        for n in ast.walk(CT.node))
        out.append(A.bvc(CT.qual, "post", f"{typ}_table_rows_use_the_{tab}_column_map_and_the_{cls}_constructor", bool(ok), REL))
    V = A.Fn(pr.tree, C + "_validate_header_section")
    out.append(A.bvc(V.qual, "post", "map_is_field_to_integer_column_as_written_in_the_config",
                     V.has("column_value = int(column.strip())") and V.has("header_2_column[header.strip()] = column_value") and V.has("return header_2_column") and
                     any(isinstance(n, ast.For) and A.expr_eq("section.items()", ast.unparse(n.iter), V.scope) for n in ast.walk(V.node)) if V else False, CFG))
    out.append(A.bvc(V.qual, "post", "negative_duplicate_and_unknown_columns_are_rejected",
                     V.has("if column_value < 0:\n    raise RP2ValueError(ANY)") and V.has("if column_value in column_to_header:\n    raise RP2ValueError(ANY)") and
                     V.has("if header not in _HEADER_COLUMNS[normalized_section_name]:\n    raise RP2ValueError(ANY)") and V.has("column_to_header[column_value] = header"), CFG))
    I = A.Fn(pr.tree, C + "__init__")
    ok = all(I.has(f"if self.__{t}_header:\n    raise RP2ValueError(ANY)\nself.__{t}_header = self._validate_header_section(ini_configuration[section_name], normalized_section_name, configuration_path)")
             for t in ("in", "out", "intra"))
    sec = I and all(any(isinstance(n, ast.If) and A.expr_eq(f"normalized_section_name == Keyword.{k}.value", ast.unparse(n.test), I.scope) and
                        A.has(n, f"self.__{t}_header = self._validate_header_section(ANY, ANY, ANY)", I.mod, scope=I.scope) and
                        not any(A.has(n.body[0] if False else ast.Module(body=n.body, type_ignores=[]), f"self.__{o}_header = self._validate_header_section(ANY, ANY, ANY)", I.mod, scope=I.scope) for o in ("in", "out", "intra") if o != t)
                        for n in ast.walk(I.node)) for k, t in (("IN_HEADER", "in"), ("OUT_HEADER", "out"), ("INTRA_HEADER", "intra")))
    out.append(A.bvc(I.qual, "post", "each_header_section_fills_the_map_of_its_table", bool(ok and sec), CFG))
    # the field names of the config are the constructor parameter names
    mod = pr.tree.modules["rp2.configuration"]
    hc = mod.assigns.get("_HEADER_COLUMNS")
    names_ok = hc is not None
    if names_ok:
        kwcls = next((n for n in mod.tree.body if isinstance(n, ast.ClassDef) and n.name == "Keyword"), None)
        kv = {b.targets[0].id: b.value.value for b in kwcls.body if isinstance(b, ast.Assign) and isinstance(b.value, ast.Constant)} if kwcls else {}
        for tab, cls in (("in_header", "rp2.in_transaction.InTransaction"), ("out_header", "rp2.out_transaction.OutTransaction"), ("intra_header", "rp2.intra_transaction.IntraTransaction")):
            ctor = A.func_node(pr.tree, cls + ".__init__")
            params = {a.arg for a in ctor.args.args} if ctor else set()
            fields = set()
            for k, val in zip(hc.keys, hc.values):
                if tab.upper() in ast.unparse(k).upper():
                    fields = {ast.unparse(e) for e in val.elts} if isinstance(val, ast.Set) else set()
            strs = {kv.get(x.split(".")[1]) for x in fields if x.startswith("Keyword.") and x.endswith(".value")}
            names_ok = names_ok and bool(strs) and None not in strs and strs <= params
    out.append(A.bvc("rp2.configuration/<module>", "post", "config_field_names_are_constructor_parameter_names", bool(names_ok), CFG, open_=hc is None))
    return out


def numbers(pr):
    out = []
    q = "rp2.ods_parser._process_constructor_argument_pack"
    F = A.Fn(pr.tree, q)
    f = F.node
    out.append(A.bvc(q, "post", "every_numeric_parameter_present_in_the_pack_is_converted_with_11_decimals",
                     F.has("numeric_parameters = _get_decimal_constructor_argument_names(class_name)\nfor numeric_parameter in numeric_parameters:\n    if numeric_parameter in argument_pack:\n        ...") and
                     F.has("argument_pack[numeric_parameter] = RP2Decimal(f'{value:.11f}') if value is not None else None") and F.has("value = argument_pack[numeric_parameter]"), REL))
    fmt = [n for n in ast.walk(f) if isinstance(n, ast.FormattedValue) and n.format_spec is not None and any(isinstance(c, ast.Call) and A.dotted(c.func) == "RP2Decimal" and any(y is n for y in ast.walk(c)) for c in ast.walk(f))] if f else []
    spec = ["".join(v.value for v in n.format_spec.values if isinstance(v, ast.Constant)) for n in fmt]
    digits = [int(x[1:-1]) for x in spec if x.startswith(".") and x.endswith("f") and x[1:-1].isdigit()]
    out.append(A.bvc(q, "post", "at_least_11_decimal_digits_are_kept", bool(digits) and len(digits) == len(spec) and min(digits) >= 11, REL, str(spec)))
    out.append(A.bvc(q, "post", "row_id_and_configuration_are_added_to_the_pack", F.has("argument_pack.update({'configuration': configuration, 'row': internal_id})"), REL))
    G = A.Fn(pr.tree, "rp2.ods_parser._get_decimal_constructor_argument_names")
    out.append(A.bvc(G.qual, "post", "numeric_parameters_are_those_annotated_as_decimal",
                     G.has("for parameter_name, parameter_type in arg_spec.annotations.items():\n    if parameter_type in [RP2Decimal, Optional[RP2Decimal]]:\n        result.append(parameter_name)") and
                     G.has("arg_spec = inspect.getfullargspec(class_to_inspect.__init__)") and G.has("return result"), REL))
    return out


IN_KW = {"configuration": "configuration", "timestamp": "f'{transaction.timestamp}'", "asset": "transaction.asset", "exchange": "transaction.exchange", "holder": "transaction.holder",
         "transaction_type": "transaction.transaction_type.value", "spot_price": "transaction.spot_price", "crypto_in": "transaction.crypto_in", "crypto_fee": "None",
         "fiat_in_no_fee": "transaction.fiat_in_no_fee", "fiat_in_with_fee": "transaction.fiat_in_with_fee", "fiat_fee": "transaction.fiat_fee", "row": "internal_id",
         "unique_id": "transaction.unique_id"}
OUT_KW = {"configuration": "configuration", "timestamp": "f'{transaction.timestamp}'", "asset": "transaction.asset", "exchange": "transaction.exchange", "holder": "transaction.holder",
          "transaction_type": "TransactionType.FEE.value", "spot_price": "transaction.spot_price", "crypto_out_no_fee": "ZERO", "crypto_fee": "transaction.crypto_fee",
          "row": "configuration.get_new_artificial_id()", "unique_id": "transaction.unique_id"}


def fee_split(pr):
    out = []
    q = "rp2.ods_parser._create_and_process_transaction"
    f = _split_fn(pr)
    if f is None:
        return [A.bvc(q, "post", "function_present", False, REL, open_=True)]
    sc = A.scope_of(f, pr.tree.modules["rp2.ods_parser"].tree)
    for cls, want in (("InTransaction", IN_KW), ("OutTransaction", OUT_KW)):
        calls = [n for n in ast.walk(f) if isinstance(n, ast.Call) and A.dotted(n.func) == cls]
        kw = {k.arg: ast.unparse(k.value) for k in calls[0].keywords} if len(calls) == 1 else {}
        for name, val in sorted(want.items()):
            out.append(A.bvc(q, "post", f"{cls}_{name}_is_{A._lab(val)}", name in kw and A.expr_eq(val, kw[name], sc), REL, f"{name}={kw.get(name)}"))
        extra = set(kw) - set(want) - {"notes"}
        out.append(A.bvc(q, "post", f"{cls}_no_further_value_arguments", len(calls) == 1 and not extra and not calls[0].args, REL, str(sorted(extra))))
    G = A.Fn(pr.tree, "rp2.configuration.Configuration.get_new_artificial_id")
    I = A.Fn(pr.tree, "rp2.configuration.Configuration.__init__")
    out.append(A.bvc(G.qual, "post", "artificial_ids_are_negative_and_fresh",
                     G.has("self.__artificial_id_counter -= 1\nresult = self.__artificial_id_counter") and G.has("return result") and I.has("self.__artificial_id_counter = 0"), CFG))
    P = A.Fn(pr.tree, "rp2.in_transaction.InTransaction.is_crypto_fee_defined")
    out.append(A.bvc(P.qual, "post", "split_applies_exactly_when_a_crypto_fee_is_present", P.has("return self.crypto_fee > ZERO"), "src/rp2/in_transaction.py"))
    return out


@_lemma("C11.rounding", props=["C11"])
def _(lm):
    """Rounding to 11 decimals moves a value by at most half a unit of the 11th decimal; values already on the 1e-11 grid are unchanged."""
    v, r = z3.Reals("value rounded")
    n = z3.Int("grid_index")
    unit = z3.RealVal("1e-11")
    is_round = z3.And(r == z3.ToReal(n) * unit, r - v <= unit / 2, v - r <= unit / 2)
    lm.case("rounding_error_at_most_5e_12", lambda ex: ([is_round], z3.And(r - v <= z3.RealVal("5e-12"), v - r <= z3.RealVal("5e-12"))))
    m = z3.Int("m")
    lm.case("grid_values_survive", lambda ex: ([is_round, v == z3.ToReal(m) * unit], r == v))


@_lemma("C11.fee_model", props=["C11"])
def _(lm):
    """Acquisition of crypto_in plus a fee-only disposal of crypto_fee at the same instant: the holder's coins change by crypto_in - crypto_fee, and the
    cost of the acquisition (fiat_in_with_fee, supplied or = crypto_in*spot + crypto_fee*spot) is what the unsplit row states."""
    cin, fee, spot, with_fee, no_fee, fiat_fee = z3.Reals("crypto_in crypto_fee spot fiat_in_with_fee fiat_in_no_fee fiat_fee")
    lm.case("coin_flow_preserved", lambda ex: ([cin > 0, fee > 0], (cin) - (0 + fee) == cin - fee))
    lm.case("cost_basis_preserved", lambda ex: ([no_fee == cin * spot, fiat_fee == fee * spot, with_fee == no_fee + fiat_fee], with_fee == cin * spot + fee * spot))


def canaries(pr):
    def twelve_digits(pr):
        vcs = numbers(pr)
        f = A.func_node(pr.tree, "rp2.ods_parser._process_constructor_argument_pack")
        fmt = [n for n in ast.walk(f) if isinstance(n, ast.FormattedValue) and n.format_spec is not None] if f else []
        spec = ["".join(v.value for v in n.format_spec.values if isinstance(v, ast.Constant)) for n in fmt]
        digits = [int(x[1:-1]) for x in spec if x.startswith(".") and x.endswith("f") and x[1:-1].isdigit()]
        return [A.bvc("canary", "post", "at_least_12_decimal_digits_are_kept", bool(digits) and min(digits) >= 12, REL)]

    def fee_asset_from_sheet(pr):
        f = _split_fn(pr)
        calls = [n for n in ast.walk(f) if isinstance(n, ast.Call) and A.dotted(n.func) == "InTransaction"] if f else []
        kw = {k.arg: ast.unparse(k.value) for k in calls[0].keywords} if len(calls) == 1 else {}
        return [A.bvc("canary", "post", "split_takes_the_asset_from_the_set", kw.get("asset") == "unfiltered_transaction_sets[EntrySetType.IN].asset", REL)]
    return [("twelve_digits_must_fail", twelve_digits), ("asset_from_set_must_fail", fee_asset_from_sheet)]

MANIFEST_ENTRY = {
    "category": "other",
    "text": ("Row handling from the decision table of parse_ods' row loop (symbolic execution of the real body; z3): each data row processed exactly once with "
             "its sheet row and table type, blank rows skipped, any table order; the row-class helpers (empty / table keyword / TABLE END) evaluated "
             "natively on 16 cell value classes (a numeric 0 in the first column is data, not a blank row). Column fidelity, 11-digit conversion and the fee split as postcondition "
             "shapes of the real functions compared on the AST (comprehension over the configured positions, per-table header maps, '.11f', keyword "
             "bindings of the two constructor calls) plus z3 lemmas (rounding bound, coin flow, cost basis). Bounded: permuted layouts, unmapped extra "
             "columns, table orders, blank rows, 11-decimal numbers and crypto fees through the real parser, every field compared with the sheet."),
    "note": ("float -> '%.11f' correctness, ezodf cell order and the dateutil round trip of the artificial transaction's timestamp are assumed. Defaults of absent "
             "optional cells are the constructor derivations proved under C04."),
    "technique": "decision-table VCs (z3) for the row loop + postcondition shapes over the AST + z3 lemmas; bounded process-level stand-in",
}
