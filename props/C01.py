"""C01 - disposals consume lots in the order the accounting method prescribes."""
import z3
from pyvc.driver import fn, lemma, custom
from pyvc import spec as S, vals as V
from pyvc.base import VC

LEVEL = "other"
FLOOR = 30
AAM = "rp2.abstract_accounting_method."
PLUG = "rp2.plugin.accounting_method."
EXPLANATION = ("Leaf contracts proved deductively on the real code: the chronological (FIFO) lot seek selects the oldest lot of the candidate window that "
               "still has something available, hands out all that is left of it, marks only that lot in flight and advances from_index only past exhausted "
               "lots (inductive loop invariant, all list lengths and partial-amount maps); the three feature-based plugins' sort_key return exactly "
               "(-price, time, row) / (price, time, row) / (0, -time, -row); rank lemmas: the minimum key is never strictly worse ranked in the statement's "
               "sense (highest price / lowest price / newest), keys injective on rows. The composition over whole histories (engine, heap of the "
               "feature-based methods, schedule, carry-over) is checked by the bounded end-to-end stand-in, not proved."
               " Since session 5 also proved on the real bodies, against contracts over the engine's representation invariant engine_inv (contracts/engine.py): AccountingEngine.get_acquired_lot_for_taxable_event (same event with taxable_event_amount - acquired_lot_amount left; the lot returned is one of the engine's lots, not later than the event, with all that was available of it, > 0; no other lot's availability changes), AccountingEngine.get_next_taxable_event_and_amount (next list element with its full crypto_balance_change; same instant keeps the lot in hand with the difference; a newer event writes the remainder back and seeks again; a used-up lot is not handed out again) and tax_engine._get_next_taxable_event_and_acquired_lot; callee preconditions (the seek's wf) discharged at the call sites. Assumed and listed: prezzemolo's floor lookup as a pure function, engine_inv after initialize (its visible part pinned by shape obligations), the heap-based set_to_index/seek (A-HEAP). The while loop of _create_unfiltered_gain_and_loss_set is not proved.")
TRUSTED = ["A-HEAP: heapq pops a minimum-key element (the heap of LIFO/HIFO/LOFO is not under contract: bounded only)", "A-FLOATTS: datetime.timestamp() strictly monotone",
           "amounts on the 1e-11 grid (tolerant comparisons = exact)", "A-ANNOT", "lot ids pairwise distinct (valid history)"]
ASSUMPTIONS = TRUSTED + ["A-AVL/engine_inv: the engine's representation invariant holds after AccountingEngine.initialize (AVL insertions and tree walk outside the subset; visible part pinned by the establishes.* shape obligations)"]
E2E = {"quick": 120, "thorough": 4000, "on_doubt": 600}
METHODS = ["fifo", "lifo", "hifo", "lofo"]


def items(pr):
    out = [fn(AAM + "AbstractChronologicalAccountingMethod.seek_non_exhausted_acquired_lot"), lemma("C01.rank"), custom("plugins_complete", plugins_complete), custom("lot_window", lot_window),
           fn("rp2.accounting_engine.AccountingEngine.get_next_taxable_event_and_amount"), fn("rp2.accounting_engine.AccountingEngine.get_acquired_lot_for_taxable_event")]
    for m in ("lifo", "hifo", "lofo"):
        out.append(fn(f"{PLUG}{m}.AccountingMethod.sort_key"))
    return out


def plugins_complete(pr):
    """The statement names four methods; each plugin module present is one of them and has the contract/lemma above (a fifth plugin is undecided, not a pass)."""
    have = sorted(q.split(".")[-2] for q in pr.tree.classes if q.startswith(PLUG) and q.endswith(".AccountingMethod"))
    return [VC("tree:accounting_method_plugins", "enum", "exactly_fifo_lifo_hifo_lofo", [], z3.BoolVal(have == sorted(METHODS)), "src/rp2/plugin/accounting_method", 0, note=str(have)),
            VC("tree:accounting_method_plugins", "enum", "only_fifo_is_chronological", [],
               z3.BoolVal(sorted(q.split(".")[-2] for q in pr.tree.subclasses(AAM + "AbstractChronologicalAccountingMethod") if q.startswith(PLUG)) == ["fifo"]),
               "src/rp2/plugin/accounting_method", 0)]


def canaries(pr):
    def newest_first(pr):
        from contracts import matcher as M
        q = AAM + "AbstractChronologicalAccountingMethod.seek_non_exhausted_acquired_lot"
        saved = S.CONTRACTS[q]
        k = S.Contract(q)
        k.requires_ = list(saved.requires_)

        def wrong(s):
            if M.is_none_result(s):
                return z3.BoolVal(True)
            c = s.a.lot_candidates
            return s.result.some.acquired_lot.t == M.c_lots(s.old.a.lot_candidates)[M.c_to(c).t].t          # claims the newest lot of the window
        k.ensures("selects_the_newest", wrong)
        S.CONTRACTS[q] = k
        try:
            return pr.gen_fn(q, canary=True)
        finally:
            S.CONTRACTS[q] = saved
    return [("fifo_selecting_the_newest_lot_must_fail", newest_first)]


def native(desc):
    from props import C09
    return C09.native(desc)


def lot_window(pr):
    """The window of lots offered to a disposal: lots up to the last one not later than the event, found through keys that order like (instant, id)."""
    from props import C09
    return C09.set_to_index_window(pr) + C09.key_order(pr)


MANIFEST_ENTRY = {
    "category": "other",
    "text": ("Proved for all inputs: the FIFO lot seek (real loop, inductive invariant), the LIFO/HIFO/LOFO sort keys and the rank lemmas tying each key to the "
             "statement's ranking. Bounded: the end-to-end composition (engine + heaps + schedule + carry-over of partial lots) - curated scenarios "
             "(income events, equal timestamps, multi-lot disposals, 3-entry schedules, mixed time zones) plus seeded random histories through the real "
             "compute_tax, each fraction checked against 'no strictly better ranked lot acquired at or before the disposal still had balance'."),
    "note": ("The engine-level loop invariant of DESIGN 8.C01 (clauses a-h) was validated at design time on an abstract rendering but is not discharged on the "
             "real _create_unfiltered_gain_and_loss_set here: the feature-based heap (heapq) and the AVL tree are outside the verified subset, so the "
             "claim is 'other', not 'proof'. Known finding F-9.3-C01 (same instant, different local years under a schedule). Fixed finding 9.1 "
             "(lot lost during income events) is replayed as a regression input."),
    "technique": "contract-based deductive verification of the leaf functions and of the accounting-engine methods between the matcher loop and the lot seek (sidecar contracts, VCs from the AST, z3/cvc5; AVL lookups and the heap-based half as assumed contracts) + bounded native stand-in for the matcher loop's composition (labelled bounded)",
}
