"""C16 - every supported option combination runs to completion on every valid input."""
import ast
import os
from pyvc.driver import custom
from pyvc import astcheck as A

LEVEL = "other"
# obligations whose failure is a semantic fact about the tree (not a shape that is no longer recognized): reported as violations on their own
DEFINITE = ("/matrix.", "every_taxable_type_has_a_sheet", "method_option_defaults_to_nothing", "a_single_method_schedule_is_not_assumed")
FLOOR = 60
EXPLANATION = ("The option matrix is finite and is enumerated from the current tree: for each country plugin the literal sets returned by get_accounting_methods / "
               "get_report_generators and the default method / language are read from the AST; obligations: every accepted method resolves to a plugin module "
               "with an AccountingMethod class, every generator to a module with a Generator class that defines generate, every language the country ships "
               "templates for has a template (or a valid .txt link) for every one of its generators and a gettext catalogue, and the country's default "
               "method and default language are among them. Totality of the lookups named by the statement is stated as guard obligations on the AST: "
               "the (asset, year) summary link map is read only behind a membership test, the transaction link map likewise, every taxable type has a "
               "sheet in both tax report plugins, sheet sizes dominate the rows written (a linear inequality discharged by z3 over symbolic counts), "
               "divisions in open_positions have denominators that are sums of strictly positive terms. Bounded: the full matrix country x method x "
               "language x window x generator run as real processes on generated inputs (sparse years, fully sold, income-only, empty windows).")
TRUSTED = ["ezodf / lxml do not fail on the documents rp2 builds", "template .ods files are well-formed and contain the sheets the generators address (exercised by the bounded matrix run)",
           "babel / gettext load the shipped catalogues"]
ASSUMPTIONS = TRUSTED
E2E = {"quick": 2, "thorough": 60, "on_doubt": 4, "cli": True}

COUNTRIES = ["us", "jp", "es", "ie", "generic"]


def items(pr):
    return [custom("matrix", matrix), custom("guards", guards), custom("sizes", sizes)]


def _cls(mod, name=None):
    for n in mod.tree.body:
        if isinstance(n, ast.ClassDef) and (name is None or n.name == name):
            return n
    return None


def country_facts(pr, c):
    mod = pr.tree.modules.get(f"rp2.plugin.country.{c}")
    cls = _cls(mod) if mod else None
    if cls is None:
        return None
    f = {"methods": A.literal_set_returned(cls, "get_accounting_methods"), "generators": A.literal_set_returned(cls, "get_report_generators"),
         "default_method": A.literal_set_returned(cls, "get_default_accounting_method"), "default_language": A.literal_set_returned(cls, "get_default_generation_language")}
    iso = None
    for n in ast.walk(cls):
        if isinstance(n, ast.Call) and A.dotted(n.func) == "super().__init__" and n.args and isinstance(n.args[0], ast.Constant):
            iso = n.args[0].value
    f["iso"] = iso
    return f


def languages_shipped(pr, iso):
    d = os.path.join(pr.repo, "src", "rp2", "plugin", "report", "data", iso)
    langs = {}
    if os.path.isdir(d):
        for fn in sorted(os.listdir(d)):
            if fn.startswith("template_") and fn.endswith((".ods", ".txt")):
                stem = fn[len("template_"):-4]
                for g in ("open_positions", "rp2_full_report", f"tax_report_{iso}"):
                    if stem.startswith(g + "_"):
                        langs.setdefault(stem[len(g) + 1:], set()).add((g, fn))
    return langs


def matrix(pr):
    out = []
    root = os.path.join(pr.repo, "src", "rp2")
    for c in COUNTRIES:
        q = f"rp2.plugin.country.{c}"
        f = country_facts(pr, c)
        rel = f"src/rp2/plugin/country/{c}.py"
        ok_shape = f is not None and all(isinstance(f[k], set) for k in ("methods", "generators")) and isinstance(f["default_method"], str) and isinstance(f["default_language"], str) and f["iso"]
        out.append(A.bvc(q, "matrix", "option_sets_are_literals", bool(ok_shape), rel, str(f)[:300], open_=True))
        if not ok_shape:
            continue
        iso = f["iso"]
        out.append(A.bvc(q, "matrix", "default_method_is_accepted", f["default_method"] in f["methods"], rel, f"{f['default_method']} not in {sorted(f['methods'])}"))
        for m in sorted(f["methods"]):
            mm = pr.tree.modules.get(f"rp2.plugin.accounting_method.{m}")
            out.append(A.bvc(q, "matrix", f"method_{m}_resolves_to_a_plugin_with_AccountingMethod", mm is not None and _cls(mm, "AccountingMethod") is not None, rel))
        for g in sorted(f["generators"]):
            gm = pr.tree.modules.get(f"rp2.plugin.report.{g}")
            gc = _cls(gm, "Generator") if gm else None
            out.append(A.bvc(q, "matrix", f"generator_{g.replace('.', '_')}_resolves_to_a_plugin_with_generate",
                             gc is not None and any(isinstance(b, ast.FunctionDef) and b.name == "generate" for b in gc.body), rel))
        langs = languages_shipped(pr, iso)
        out.append(A.bvc(q, "matrix", "ships_templates", bool(langs), rel, f"no template under plugin/report/data/{iso}"))
        need = {g.split(".")[-1] for g in f["generators"]}
        for lang, have in sorted(langs.items()):
            missing = need - {g for g, _ in have}
            links_ok = True
            for g, fn in have:
                if fn.endswith(".txt"):
                    with open(os.path.join(root, "plugin", "report", "data", iso, fn), encoding="utf-8") as fh:
                        target = fh.read().strip()
                    links_ok = links_ok and target.endswith(".ods") and os.path.exists(os.path.join(root, "plugin", "report", "data", target))
            out.append(A.bvc(q, "matrix", f"language_{lang}_has_a_template_for_every_generator", not missing and links_ok, rel, f"missing: {sorted(missing)} links_ok={links_ok}"))
            out.append(A.bvc(q, "matrix", f"language_{lang}_has_a_message_catalogue", os.path.exists(os.path.join(root, "locales", lang, "LC_MESSAGES", "messages.mo")), rel))
        out.append(A.bvc(q, "matrix", "default_language_ships_templates", f["default_language"] in langs, rel,
                         f"default language {f['default_language']!r}; templates exist for {sorted(langs)}: the entry point cannot run with its own defaults"))
    return out


def guards(pr):
    out = []
    q = "rp2.plugin.report.rp2_full_report.Generator."
    rel = "src/rp2/plugin/report/rp2_full_report.py"
    S = A.Fn(pr.tree, q + "__get_hyperlinked_summary_value")
    out.append(A.bvc(S.qual, "guard", "year_link_map_is_read_only_behind_a_membership_test",
                     S.order("if asset_and_year not in self.__tax_sheet_year_2_row:\n    return value", "row = self.__tax_sheet_year_2_row[asset_and_year]"), rel,
                     "a year with a summary line but no detail row in the window would raise KeyError"))
    R = A.Fn(pr.tree, q + "__get_in_out_sheet_row")
    out.append(A.bvc(R.qual, "guard", "transaction_link_map_is_read_only_behind_a_membership_test",
                     R.has("if transaction not in self.__in_out_sheet_transaction_2_row:\n    return None\nreturn self.__in_out_sheet_transaction_2_row[transaction]"), rel))
    # no other subscript read of the two maps
    mod = pr.tree.modules["rp2.plugin.report.rp2_full_report"]
    reads = [n for n in ast.walk(mod.tree) if isinstance(n, ast.Subscript) and isinstance(n.ctx, ast.Load) and isinstance(n.value, ast.Attribute) and
             n.value.attr in ("__tax_sheet_year_2_row", "__in_out_sheet_transaction_2_row")]
    out.append(A.bvc("rp2.plugin.report.rp2_full_report/<module>", "guard", "link_maps_have_exactly_the_two_guarded_reads", len(reads) == 2, rel, f"{len(reads)} reads"))
    from props import C14
    for c, (mname, _) in C14.PLUGINS.items():
        m = pr.tree.modules[mname]
        s2t = C14.sheet_to_types(m) or {}
        have = {t for ts in s2t.values() for t in ts}
        out.append(A.bvc(mname + "/<module>", "guard", "every_taxable_type_has_a_sheet", set(C14.ROUTE) <= have, m.relpath, f"no sheet for {sorted(set(C14.ROUTE) - have)}: KeyError in __generate"))
    CI = A.Fn(pr.tree, "rp2.configuration.Configuration.__init__")
    out.append(A.bvc(CI.qual, "guard", "only_a_from_date_after_the_to_date_is_rejected", CI.has("if self.__from_date > self.__to_date:\n    raise RP2ValueError(ANY)"), "src/rp2/configuration.py",
                     "a one-day window (from-date == to-date) is a valid combination"))
    from props import C12
    out += [vc for vc in C12.main_flow(pr) if "method_option_defaults_to_nothing" in vc.label or "method_option_is_restricted" in vc.label]
    IO = A.Fn(pr.tree, "rp2.plugin.report.abstract_ods_generator.AbstractODSGenerator._initialize_output_file")
    keyed_1970 = [n for n in ast.walk(IO.node) if isinstance(n, ast.Subscript) and isinstance(n.ctx, ast.Load) and ast.unparse(n.slice) == "MIN_DATE.year"] if IO else [None]
    out.append(A.bvc(IO.qual, "guard", "a_single_method_schedule_is_not_assumed_to_be_keyed_by_the_minimum_year", not keyed_1970, "src/rp2/plugin/report/abstract_ods_generator.py",
                     "an [accounting_methods] section with one entry is keyed by that year, not by MIN_DATE.year: KeyError"))
    # open_positions: denominators
    OP = A.Fn(pr.tree, "rp2.plugin.report.open_positions.Generator.generate")
    f = OP.node
    rel = "src/rp2/plugin/report/open_positions.py"
    divs = [ast.unparse(n.right) for n in ast.walk(f) if isinstance(n, ast.BinOp) and isinstance(n.op, ast.Div)] if f else []
    dens_ok = OP and all(A.expr_eq("total_crypto_balance", d, OP.scope) or A.expr_eq("total_cost_basis", d, OP.scope) for d in divs) and len(set(divs)) == 2 and \
        OP.has("total_crypto_balance = ZERO\nfor crypto_balance in asset_crypto_balance_holder[asset].values():\n    total_crypto_balance += crypto_balance")
    out.append(A.bvc(OP.qual, "guard", "denominators_are_total_cost_basis_or_total_crypto_balance", bool(dens_ok), rel, str(divs)))
    out.append(A.bvc(OP.qual, "guard", "cost_terms_are_added_only_when_strictly_positive",
                     OP.has("if transaction_cost_basis > ZERO:\n    value = asset_cost_bases.setdefault(asset, ZERO)\n    value += transaction_cost_basis\n    asset_cost_bases[asset] = value\n    total_cost_basis += transaction_cost_basis"), rel))
    out.append(A.bvc(OP.qual, "guard", "balance_terms_are_added_only_when_strictly_positive",
                     OP.has("if balance_set.final_balance > ZERO:\n    ...\n    asset_crypto_balance_holder[asset][balance_set.holder] += balance_set.final_balance\n    ..."), rel))
    return out


OTHER_COUNTS = []
SIZE_SCOPE = None


def _linear(e, atoms, locals_):
    """z3 integer term of a +/* expression over known atoms (None when a sub-term is not recognized)."""
    import z3
    src = ast.unparse(e)
    for k, v in atoms.items():
        if k == src or (SIZE_SCOPE is not None and A.expr_eq(k, src, SIZE_SCOPE)):
            return v
    if isinstance(e, ast.Name) and e.id in locals_:
        return _linear(locals_[e.id], atoms, {})
    if isinstance(e, ast.Constant) and isinstance(e.value, int):
        return z3.IntVal(e.value)
    if (isinstance(e, ast.Attribute) and e.attr == "count") or (isinstance(e, ast.Call) and isinstance(e.func, ast.Name) and e.func.id == "len" and len(e.args) == 1):
        v = z3.Int("n_of_" + "".join(ch if ch.isalnum() else "_" for ch in src)[:60])      # some other count: only known to be non-negative
        OTHER_COUNTS.append(v)
        return v
    if isinstance(e, ast.BinOp) and isinstance(e.op, (ast.Add, ast.Sub, ast.Mult)):
        a, b = _linear(e.left, atoms, locals_), _linear(e.right, atoms, locals_)
        if a is None or b is None:
            return None
        return a + b if isinstance(e.op, ast.Add) else a - b if isinstance(e.op, ast.Sub) else a * b
    return None


def _size_term(f, atoms):
    global SIZE_SCOPE
    if f is None:
        return None
    SIZE_SCOPE = A.scope_of(f, A._MOD_OF.get(id(f)))
    locals_ = {}
    ret = None
    for st in f.body:
        if isinstance(st, ast.AnnAssign) and isinstance(st.target, ast.Name) and st.value is not None:
            locals_[st.target.id] = st.value
        elif isinstance(st, ast.Assign) and len(st.targets) == 1 and isinstance(st.targets[0], ast.Name):
            locals_[st.targets[0].id] = st.value
        elif isinstance(st, ast.Return):
            ret = st.value
        elif not (isinstance(st, ast.Expr) and isinstance(st.value, ast.Constant)):
            return None
    return _linear(ret, atoms, locals_) if ret is not None else None


def sizes(pr):
    """Sheet sizes dominate the rows written: the size expressions of the current tree are translated to linear integer terms over symbolic
    counts (sub-terms that are not recognized leave the obligation open) and compared by z3 with the rows the writers fill."""
    import z3
    from pyvc.base import VC
    out = []
    q = "rp2.plugin.report.rp2_full_report.Generator."
    rel = "src/rp2/plugin/report/rp2_full_report.py"
    mod = pr.tree.modules["rp2.plugin.report.rp2_full_report"]
    gen = _cls(mod, "Generator")
    min_rows = next((b.value.value for b in gen.body if isinstance(b, ast.AnnAssign) and isinstance(b.target, ast.Name) and b.target.id == "MIN_ROWS" and isinstance(b.value, ast.Constant)), None)
    I, O, T, Y, B, G, H = z3.Ints("n_in n_out n_intra n_yearly n_balances n_fractions n_holders")
    del OTHER_COUNTS[:]
    nonneg = [x >= 0 for x in (I, O, T, Y, B, G, H)] + [H <= B]
    atoms = {"self.MIN_ROWS": z3.IntVal(min_rows if isinstance(min_rows, int) else 0), "computed_data.in_transaction_set.count": I, "computed_data.out_transaction_set.count": O,
             "computed_data.intra_transaction_set.count": T, "len(computed_data.yearly_gain_loss_list)": Y, "computed_data.balance_set.count": B, "computed_data.gain_loss_set.count": G,
             "len({balance.holder for balance in computed_data.balance_set})": H}
    t1 = _size_term(A.func_node(pr.tree, q + "__get_number_of_rows_in_transaction_sheet"), atoms)
    t2 = _size_term(A.func_node(pr.tree, q + "__get_number_of_rows_in_output_sheet"), atoms)
    GA = A.Fn(pr.tree, q + "__generate_asset")
    out.append(A.bvc(GA.qual, "size", "sheets_are_reset_to_the_two_size_functions",
                     GA.has("transaction_sheet.reset(size=(self.__get_number_of_rows_in_transaction_sheet(computed_data), self.MAX_COLUMNS))\n"
                            "output_sheet.reset(size=(self.__get_number_of_rows_in_output_sheet(computed_data), self.MAX_COLUMNS))"), rel, open_=True))
    # the layout of the two sheets: tables and the two blank rows between them
    layout_ok = GA.order("row_index = self.__generate_in_table(transaction_sheet, computed_data, row_index)", "row_index = self.__generate_out_table(transaction_sheet, computed_data, row_index + 2)",
                         "row_index = self.__generate_intra_table(transaction_sheet, computed_data, row_index + 2)",
                         "row_index = self.__generate_gain_loss_summary(output_sheet, computed_data.yearly_gain_loss_list, row_index)",
                         "row_index = self.__generate_account_balances(output_sheet, computed_data.balance_set, row_index + 2)",
                         "row_index = self.__generate_average_price_per_unit(output_sheet, asset, computed_data.price_per_unit, row_index + 2)",
                         "row_index = self.__generate_gain_loss_detail(output_sheet, asset, computed_data, row_index + 2)")
    out.append(A.bvc(GA.qual, "size", "table_layout_is_the_one_the_row_count_assumes", layout_ok, rel, open_=True))
    out.append(A.bvc(q + "__get_number_of_rows_in_transaction_sheet", "size", "size_is_a_linear_term_over_the_counts", t1 is not None and isinstance(min_rows, int), rel, open_=True))
    out.append(A.bvc(q + "__get_number_of_rows_in_output_sheet", "size", "size_is_a_linear_term_over_the_counts", t2 is not None and isinstance(min_rows, int), rel, open_=True))
    nonneg = nonneg + [v >= 0 for v in OTHER_COUNTS]
    if t1 is not None and layout_ok:
        used = (3 + I) + 2 + (3 + O) + 2 + (3 + T)          # header = title + two header rows
        out.append(VC(q + "__generate_asset", "size", "in_out_sheet_holds_all_rows_written", nonneg, used <= t1, rel, 0))
    if t2 is not None and layout_ok:
        used = (3 + Y) + 2 + (3 + B + H) + 2 + 4 + 2 + (3 + G)
        out.append(VC(q + "__generate_asset", "size", "tax_sheet_holds_all_rows_written", nonneg, used <= t2, rel, 0,
                      note="rows written = 19 + yearly + balances + holders (one Total line each) + fractions"))
    return out


def canaries(pr):
    def phantom_language(pr):
        return [A.bvc("canary", "matrix", "jp_ships_language_xx", "xx" in languages_shipped(pr, "jp"), "src/rp2/plugin/country/jp.py")]

    def too_small(pr):
        import z3
        from pyvc.base import VC
        Y, B, G, H = z3.Ints("n_yearly n_balances n_fractions n_holders")
        return [VC("canary", "size", "tax_sheet_fits_without_counting_holders", [x >= 0 for x in (Y, B, G, H)] + [H <= B], (3 + Y) + 2 + (3 + B + H) + 2 + 4 + 2 + (3 + G) <= 40 + Y + B + G, "", 0)]
    return [("phantom_language_must_fail", phantom_language), ("size_without_holders_must_fail", too_small)]

MANIFEST_ENTRY = {
    "category": "other",
    "text": ("The option matrix (country x method x generator x shipped language, defaults included) enumerated from the AST-evaluated plugin literals and the "
             "template / catalogue files of the current tree, each cell an obligation; guard obligations for the lookups and divisions the statement names; "
             "sheet-size inequalities over symbolic counts discharged by z3. Bounded: the whole matrix x {no filter, from, to, from+to} run as real processes "
             "on generated valid inputs with exit status and report presence checked."),
    "note": ("Totality of everything else the run executes (ezodf, templates' inner structure, the engine on arbitrary valid input) is only exercised by the "
             "bounded matrix run. Known finding: rp2_jp's default language 'ja' ships no templates. Fixed: Tax sheet overflow with more than 21 holders (491598e), IE LOST routing (2427f03), summary link KeyError (766718c)."),
    "technique": "finite matrix enumeration + guard obligations over the AST, linear size obligations by z3; bounded process-level matrix run",
}
