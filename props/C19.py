"""C19 - hyperlinks in the full report lead to the row of the same transaction."""
import ast
import z3
from pyvc.driver import custom, lemma
from pyvc import astcheck as A
from pyvc.spec import lemma as _lemma
from props import _fr

LEVEL = "other"
FLOOR = 45
EXPLANATION = ("Link contracts over the AST of rp2_full_report.py. (write side) each of the three In-Out writers stores, unconditionally and for the very loop "
               "element whose cells it has just written into row `row_index`, map[element] = row_index + 1 (the 1-based row); the map is emptied at the "
               "start of each asset (transactions compare by spreadsheet row id, unique per asset only). (read side) every linked cell of the detail table "
               "passes as link target the transaction whose attribute it displays (taxable event for columns 5-11, acquired lot for 12-19); "
               "__get_hyperlinked_transaction_value returns the bare value when the transaction is not in the map (hidden by the filter) and otherwise a "
               "HYPERLINK to '#<that transaction's asset> In-Out'.a<row>:z<row>; the lookup is guarded. (summary) the (asset, year) entry is written with row_index + 1, if absent, whenever the year "
               "of the current fraction differs from the previous fraction's year, every summary cell links through (asset, line.year), and the detail "
               "table is written before the summary lines; a lemma (z3) gives the induction step of 'the stored row is the first row of that year' "
               "(no monotonicity of years needed since fix 67a297a). Bounded: generated multi-asset inputs with colliding row numbers, unsorted "
               "rows and date windows; every formula payload parsed and the target row compared with the transaction it must describe.")
TRUSTED = ["C10: the gain/loss set is iterated in taxable-event time order (years of consecutive fractions are non-decreasing when local years are monotone in the instant order; the other case is finding 9.2)",
           "ezodf stores the formula text unchanged", "dict semantics of CPython for keys with __eq__/__hash__ by internal id"]
ASSUMPTIONS = TRUSTED
E2E = {"quick": 6, "thorough": 80, "on_doubt": 10, "cli": True}


def items(pr):
    return [custom("write_side", write_side), custom("read_side", read_side), custom("summary", summary), lemma("C19.first_row_of_year")]


def write_side(pr):
    out = []
    for name in ("__generate_in_table", "__generate_out_table", "__generate_intra_table"):
        it = _fr.TABLES[name][0]
        q = _fr.G + name
        f, w = A.writer_for(pr.tree, q, it)
        if w is None:
            out.append(A.bvc(q, "link", "writer_loop_present", False, _fr.REL, open_=True))
            continue
        st = [s for s in w.stores if s[0].startswith("self.__in_out_sheet_transaction_2_row[")]
        ok = len(st) == 1 and st[0][0] == "self.__in_out_sheet_transaction_2_row[ELT]" and st[0][1] == f"{w.row_norm} + 1" and st[0][2] == ()
        out.append(A.bvc(q, "link", "stores_the_one_based_row_of_the_element_just_written_unconditionally", ok, _fr.REL, str(st)))
        adv = w.advances[0][2] if w.advances else 0
        out.append(A.bvc(q, "link", "row_is_stored_before_it_advances_and_cells_use_the_same_row", bool(st) and st[0][3] < adv and all(c[4] == w.row_norm for c in w.cells), _fr.REL))
        ident = {c[0]: c[1] for c in w.cells}
        out.append(A.bvc(q, "link", "row_shows_timestamp_and_unique_id_of_that_element", ident.get(1) == "ELT.timestamp" and ident.get(14) == "ELT.unique_id", _fr.REL))
    GA = A.Fn(pr.tree, _fr.G + "__generate_asset")
    out.append(A.bvc(GA.qual, "frame", "transaction_link_map_is_reset_per_asset_before_the_tables_are_written",
                     GA.order("self.__in_out_sheet_transaction_2_row = {}", "row_index = self.__generate_in_table(transaction_sheet, computed_data, row_index)"), _fr.REL,
                     "transactions compare by spreadsheet row id, which is unique only within one asset"))
    # no other writer of the map
    mod = pr.tree.modules[_fr.MOD]
    stores = [n for n in ast.walk(mod.tree) if isinstance(n, ast.Subscript) and isinstance(n.ctx, ast.Store) and isinstance(n.value, ast.Attribute) and n.value.attr == "__in_out_sheet_transaction_2_row"]
    out.append(A.bvc(_fr.MOD + "/<module>", "frame", "only_the_three_table_writers_store_into_the_transaction_link_map", len(stores) == 3, _fr.REL, f"{len(stores)} stores"))
    # keys of the link map are internal ids: they must be unique within an asset - sheet rows for parsed transactions, fresh negative ids for artificial ones
    from props import C11, C12
    out += [vc for vc in C11.fee_split(pr) if "_row_is_" in vc.label or "artificial_ids_are_negative_and_fresh" in vc.label]
    out += [vc for vc in C12.structure(pr) if "data_row_is_processed_exactly_once_with_its_sheet_row" in vc.label and vc.kind == "case"]
    EQ = A.Fn(pr.tree, "rp2.abstract_transaction.AbstractTransaction.__eq__")
    HS = A.Fn(pr.tree, "rp2.abstract_transaction.AbstractTransaction.__hash__")
    out.append(A.bvc(EQ.qual, "post", "transactions_compare_and_hash_by_internal_id",
                     EQ.has("result = self.internal_id == other.internal_id") and HS.has("return hash(self.internal_id)"), "src/rp2/abstract_transaction.py"))
    return out


def read_side(pr):
    out = []
    q = _fr.G + "__generate_gain_loss_detail"
    f, w = _fr.detail_writer(pr)
    if w is None:
        return [A.bvc(q, "link", "writer_loop_present", False, _fr.REL, open_=True)]
    for c, (tx, val, _) in sorted(_fr.DETAIL_LINKED.items()):
        cells = [x for x in w.cells if x[0] == c]
        ok = len(cells) == 1 and cells[0][1].startswith(f"{_fr.TX}({tx}, ")
        shown = cells[0][1][len(f"{_fr.TX}({tx}, "):-1] if ok else ""
        # the displayed value must be an attribute of the linked transaction, or a fraction figure of the element relating to it
        about = shown.startswith(tx + ".") or shown.startswith("ELT.") or shown.startswith("f'")
        out.append(A.bvc(q, "link", f"column_{c}_links_to_the_transaction_it_describes", ok and about, _fr.REL, str([x[1] for x in cells])[:300]))
    links = [x for x in w.cells if _fr.TX in x[1]]
    out.append(A.bvc(q, "link", "exactly_the_fifteen_described_columns_carry_links", sorted(x[0] for x in links) == sorted(_fr.DETAIL_LINKED), _fr.REL, str(sorted(x[0] for x in links))))
    H = A.Fn(pr.tree, _fr.G + "__get_hyperlinked_transaction_value")
    out.append(A.bvc(H.qual, "post", "hidden_transaction_gets_no_link", H.has("row = self.__get_in_out_sheet_row(transaction)\nif not row:\n    return value"), _fr.REL))
    tgt = "f'=HYPERLINK(\"#{self.get_in_out_sheet_name(transaction.asset)}.a{row}:z{row}\"; {value})'"
    tgt2 = "f'=HYPERLINK(\"#{self.get_in_out_sheet_name(transaction.asset)}.a{row}:z{row}\"; \"{value}\")'"
    n_links = H.src().count("HYPERLINK")
    out.append(A.bvc(H.qual, "post", "link_targets_the_stored_row_of_that_transactions_in_out_sheet", H.expr(tgt) and H.expr(tgt2) and n_links == 2, _fr.REL))
    R = A.Fn(pr.tree, _fr.G + "__get_in_out_sheet_row")
    out.append(A.bvc(R.qual, "post", "row_is_the_stored_row_or_none",
                     R.has("if transaction not in self.__in_out_sheet_transaction_2_row:\n    return None\nreturn self.__in_out_sheet_transaction_2_row[transaction]") and len(R.node.body) == 2, _fr.REL))
    N = A.Fn(pr.tree, _fr.G + "get_in_out_sheet_name")
    GA = A.Fn(pr.tree, _fr.G + "__generate_asset")
    out.append(A.bvc(N.qual, "post", "sheet_name_is_the_one_the_in_out_sheet_is_created_with",
                     N.has("return _('{} In-Out').format(asset)") and GA.has("transaction_sheet_name = self.get_in_out_sheet_name(asset)") and GA.has("transaction_sheet = ezodf.Table(transaction_sheet_name)"), _fr.REL))
    return out


def summary(pr):
    out = []
    q = _fr.G + "__generate_gain_loss_detail"
    f, w = _fr.detail_writer(pr)
    if w is not None:
        mt = A._MOD_OF.get(id(f))
        keep_first = A.has(w.loop, "if gain_loss.taxable_event.timestamp.year != year:\n    self.__tax_sheet_year_2_row.setdefault(_AssetAndYear(asset, gain_loss.taxable_event.timestamp.year), row_index + 1)", mt, scope=w.scope)
        others = [s for s in w.stores if s[0].startswith("self.__tax_sheet_year_2_row[")]
        out.append(A.bvc(q, "link", "first_row_of_a_year_is_kept", keep_first and not others, _fr.REL,
                         "the (asset, year) entry must be written at a change of year and never overwritten: with interleaving years a plain assignment keeps the LAST block's first row"))
        F = A.Fn(pr.tree, q)
        out.append(A.bvc(q, "link", "year_tracks_the_previous_fractions_year",
                         F.order("border_style = self.__get_border_style(gain_loss.taxable_event.timestamp.year, year)",
                                 "if gain_loss.taxable_event.timestamp.year != year:\n    self.__tax_sheet_year_2_row.setdefault(ANY, ANY)", "year = border_style.year") and F.has("year = 0"), _fr.REL))
        BS = A.Fn(pr.tree, _fr.G + "__get_border_style")
        out.append(A.bvc(BS.qual, "post", "returns_the_current_year",
                         BS.has("if year == 0:\n    year = current_year\nif current_year != year:\n    border_suffix = '_border'\n    year = current_year\nreturn _BorderStyle(year, border_suffix)"), _fr.REL))
    else:
        out.append(A.bvc(q, "link", "writer_loop_present", False, _fr.REL, open_=True))
    out += [vc for vc in _fr.table_vcs(pr, "__generate_yearly_gain_loss_summary", with_headers=False)]
    H = A.Fn(pr.tree, _fr.G + "__get_hyperlinked_summary_value")
    tgt = "f'=HYPERLINK(\"#{self.get_tax_sheet_name(asset)}.a{row}:z{row}\"; {value})'"
    tgt2 = "f'=HYPERLINK(\"#{self.get_tax_sheet_name(asset)}.a{row}:z{row}\"; \"{value}\")'"
    out.append(A.bvc(H.qual, "post", "links_to_the_stored_first_row_of_asset_and_year_in_that_assets_tax_sheet",
                     H.has("asset_and_year = _AssetAndYear(asset, year)") and H.has("row = self.__tax_sheet_year_2_row[asset_and_year]") and H.expr(tgt) and H.expr(tgt2) and H.src().count("HYPERLINK") == 2, _fr.REL))
    GA = A.Fn(pr.tree, _fr.G + "__generate_asset")
    out.append(A.bvc(GA.qual, "link", "detail_table_is_written_before_the_summary_lines_that_link_to_it",
                     GA.order("row_index = self.__generate_gain_loss_detail(output_sheet, asset, computed_data, row_index + 2)",
                              "return self.__generate_yearly_gain_loss_summary(summary_sheet, asset, computed_data.yearly_gain_loss_list, summary_row_index)"), _fr.REL))
    out.append(A.bvc(GA.qual, "link", "tax_sheet_is_created_with_the_name_links_use",
                     GA.has("output_sheet_name = self.get_tax_sheet_name(asset)") and GA.has("output_sheet = ezodf.Table(output_sheet_name)"), _fr.REL))
    return out


@_lemma("C19.first_row_of_year", props=["C19"])
def _(lm):
    """The entry of year y is written (if absent) at every row whose year differs from the previous row's year.  The first row of y in the
    table is such a row - it is the very first row (previous year 0, and years are >= 1) or its predecessor carries another year, otherwise
    it would not be the first - and being the first row of y, no entry for y exists yet: setdefault stores it; later rows never overwrite."""
    yp, y, r, first, stored_before = z3.Ints("year_prev year_cur row first_row_of_cur stored_before")
    has_before = z3.Bool("entry_exists")
    is_first = r == first
    lm.case("first_row_of_a_year_triggers_the_store", lambda ex: ([y >= 1, z3.Or(yp == 0, yp != y)], yp != y))
    lm.case("an_existing_entry_is_kept", lambda ex: ([has_before, stored_before == first], z3.If(has_before, stored_before, r) == first))
    lm.case("an_absent_entry_gets_this_row", lambda ex: ([z3.Not(has_before), is_first], z3.If(has_before, stored_before, r) == first))


def canaries(pr):
    def wrong_target(pr):
        f, w = _fr.detail_writer(pr)
        cells = [x for x in w.cells if x[0] == 12] if w is not None else []
        return [A.bvc("canary", "link", "acquired_lot_timestamp_links_to_the_taxable_event", len(cells) == 1 and cells[0][1].startswith(f"{_fr.TX}({_fr.EV}, "), _fr.REL)]

    def overwrite(pr):
        f, w = _fr.detail_writer(pr)
        return [A.bvc("canary", "link", "year_entry_is_overwritten", w is not None and any(s[0].startswith("self.__tax_sheet_year_2_row[") and not any("not in" in g[0] for g in s[2]) for s in w.stores), _fr.REL)]
    return [("lot_cell_linked_to_event_must_fail", wrong_target), ("year_map_plain_assignment_must_fail", overwrite)]

MANIFEST_ENTRY = {
    "category": "other",
    "text": ("Link contracts discharged over the AST of rp2_full_report.py: the three In-Out writers store row_index + 1 for exactly the element they just "
             "wrote, the map is reset per asset, each of the fifteen linked detail columns passes the transaction it describes, a hidden transaction gets "
             "the bare value, the formula addresses that transaction's In-Out sheet and stored row; the (asset, year) map is stored on year change and read "
             "by every summary cell; first-row-of-year lemma by z3. Bounded: generated multi-asset inputs with colliding and unsorted rows and date windows, "
             "every HYPERLINK payload parsed and its target row compared with the described transaction."),
    "note": ("Known finding 9.2 (non-monotone local dates under mixed time zones) also affects which row is 'first of the year'. The cross-asset link defect "
             "(84e0aa4) and the summary KeyError (766718c) are fixed; their obligations stay."),
    "technique": "link/frame contracts discharged over the AST of the real generator + z3 lemma; bounded process-level stand-in",
}
