"""C07 - account balances equal the flows of each account and reconcile with unsold lots."""
import z3
from pyvc.driver import fn, lemma, custom
from pyvc import spec as S, vals as V
from pyvc.base import VC

LEVEL = "proof"
FLOOR = 100
BS = "rp2.balance.BalanceSet"
EXPLANATION = ("BalanceSet.__init__ is verified against: over the chronological flow list T (IN, INTRA, OUT entries of the three unfiltered sets, stably "
               "sorted by instant) cut at the first flow dated after the to-date, every reported balance line holds acquired = sum of crypto received from "
               "in-transactions of that account, sent = outgoing amounts plus fees and transfers sent, received = transfers received, final = acquired + "
               "received - sent (inductive invariant over the four dictionary accumulators); every account touched has exactly one line. The "
               "reconciliation with unconsumed lots is a pure lemma over these sums and C02's conservation postcondition.")
TRUSTED = ["A-LISTITER: list(entry_set) = copy of the entry list of a sorted, unfiltered transaction set (derived from the verified iterator contract)",
           "A-SORT (sorted() is a stable sort by key), list concatenation, A-DICTORDER",
           "the three unfiltered sets are chronologically sorted and hold valid transactions of configured accounts (InputData.__init__, constructors: C10/C12)",
           "A-REAL: additions are exact (amounts lie on the 1e-11 grid)", "folds BQ_*/BT and the cut BCUT are defined by their recursion equations",
           "that T holds exactly the entries of the three sets is the composition of the assumed list()/+/sorted contracts (not restated as a clause)"]
ASSUMPTIONS = TRUSTED
E2E = {"quick": 40, "thorough": 1500, "on_doubt": 400}


def items(pr):
    return [fn(BS + ".__init__"), lemma("C07.reconciliation")]


def vc_filter(vc):
    # the overdraft clauses of the same function are reported under C08
    return "running_balance" not in vc.label and "rejected_only" not in vc.label and "no_overdraft" not in vc.label


def canaries(pr):
    def sent_without_fee(pr):
        from contracts import balance as B
        orig = B.contrib

        def wrong(s, t, kind, a):
            if kind == "sent":
                from contracts.transactions import o_, x_, is_out, is_intra
                frm_out = B.mk_acc(s, o_(t, "exchange").t, o_(t, "holder").t)
                frm_x = B.mk_acc(s, x_(t, "from_exchange").t, x_(t, "from_holder").t)
                return z3.If(z3.And(is_out(t), a == frm_out), o_(t, "crypto_out_no_fee").t, z3.If(z3.And(is_intra(t), a == frm_x), x_(t, "crypto_sent").t, z3.RealVal(0)))
            return orig(s, t, kind, a)
        B.contrib = wrong
        try:
            return [v for v in pr.gen_fn(BS + ".__init__", canary=True) if "sent_is_the_fold" in v.label and "preserved" in v.kind]
        finally:
            B.contrib = orig
    return [("sent_without_the_fee_must_fail", sent_without_fee)]


MANIFEST_ENTRY = {
    "category": "proof",
    "text": ("Every obligation generated from the current source of BalanceSet.__init__ (flow loop over four dictionary accumulators, line-building loop, "
             "sort) is discharged: each reported line's acquired / sent / received / final equals the statement's sums over that account's flows up to "
             "the to-date cut, final = acquired + received - sent, exactly one line per touched account; plus the reconciliation lemma. Unbounded in the "
             "number of transactions and accounts (inductive invariants)."),
    "note": ("The flow list is built by list(), +, sorted(): assumed language contracts (list() of an entry set derived from the verified iterator "
             "contract). 'Up to the to-date' is the prefix cut (first flow dated after the to-date); it equals 'all flows dated up to the to-date' only when "
             "local dates are monotone along the list (mixed time zones: known finding F-9.2-C07). Per-holder totals are written by the report generator "
             "(C13). The reconciliation lemma takes C02's conservation postcondition and C03's transfer rule as hypotheses."),
}
