"""C18 - no network, no subprocess, writes confined to the output and log directories."""
import ast
import z3
from pyvc.driver import fn, lemma, custom
from pyvc import astcheck as A
from pyvc.base import VC

LEVEL = "other"
# obligations whose failure is a semantic fact about the tree (not a shape that is no longer recognized): reported as violations on their own
DEFINITE = ("imports_no_network_or_process_facility", "no_process_spawn_eval_or_shelling_call", "_PACKAGE_is_", "log_file_is_under_dot_log")
FLOOR = 40
EXPLANATION = ("Effect contracts over every module of the rp2 package, discharged syntactically on the AST of the current tree: (imports) no module imports a "
               "networking / process-spawning facility and every imported top-level module is on the recorded allowlist - a new import is an open "
               "obligation, not a silent pass; (calls) no os.system/popen/spawn*/exec*/fork, eval, exec, compile, __import__, and none of the standard-library "
               "functions known to shell out (platform.*, webbrowser, ctypes.util.find_library ...); (dynamic imports) every import_module argument starts "
               "with the rp2 plugin package constant; (file-system frame) every write primitive reachable in the package (open with a write mode, Path.unlink / "
               "mkdir / write_* / rename / touch, ezodf save(), logging.FileHandler, profiler dumps) is enumerated and its path is derived from the "
               "output directory argument or the literal ./log. Dependencies are assumed effect-free. The bounded stand-in runs every entry point under an "
               "audit hook on valid and invalid inputs and compares the file tree and input hashes.")
TRUSTED = ["dependencies (ezodf, lxml, dateutil, babel, pycountry, jsonschema, prezzemolo, stdlib) open no connection and spawn nothing on the paths rp2 uses",
           "ezodf.opendoc opens the input read-only; ezodf save() writes exactly docname (via a temporary file next to it)",
           "rp2_configuration_translator (the separate rp2_config tool) writes next to its input by design: only the import/process clauses apply to it"]
ASSUMPTIONS = TRUSTED
E2E = {"quick": 4, "thorough": 60, "on_doubt": 4, "cli": True}

DENY = {"socket", "ssl", "http", "urllib", "urllib3", "ftplib", "smtplib", "poplib", "imaplib", "telnetlib", "xmlrpc", "asyncio", "selectors", "requests", "httpx", "aiohttp",
        "websocket", "websockets", "paramiko", "subprocess", "multiprocessing", "pty", "socketserver", "webbrowser", "nntplib", "cgi", "wsgiref", "pexpect"}
# modules that are not network / process facilities in themselves but whose use can shell out or write elsewhere: an import is an open question, settled by the audit-hook runs
SUSPECT = {"ctypes", "platform", "concurrent", "signal", "mmap", "shutil", "tempfile", "pickle", "shelve", "dbm", "sqlite3"}
ALLOW = {"rp2", "typing", "datetime", "pathlib", "logging", "enum", "os", "sys", "prezzemolo", "ezodf", "dataclasses", "jsonschema", "json", "decimal", "configparser", "babel", "argparse",
         "types", "threading", "pycountry", "pkgutil", "itertools", "inspect", "importlib", "heapq", "gettext", "functools", "dateutil", "copy", "cProfile", "abc", "re", "math", "collections", "_decimal"}
BAD_CALLS = {"os.system", "os.popen", "os.fork", "os.forkpty", "os.startfile", "eval", "exec", "compile", "__import__", "os.posix_spawn", "os.posix_spawnp"}
BAD_PREFIX = ("os.spawn", "os.exec", "subprocess.", "webbrowser.", "socket.", "urllib.", "http.")
SUSPECT_PREFIX = ("platform.", "shutil.", "tempfile.", "pstats.", "cProfile.run(", "find_library", "ctypes.")
WRITE_ATTRS = {"unlink", "mkdir", "write_text", "write_bytes", "rename", "replace", "touch", "rmdir", "save", "dump_stats", "symlink_to", "chmod", "makedirs", "remove", "rmtree"}


def items(pr):
    return [custom("imports", imports), custom("calls", process_calls), custom("dynamic_imports", dynamic_imports), custom("write_frame", write_frame)]


def imports(pr):
    out = []
    for m in A.all_modules(pr.tree):
        names = A.imported_names(m)
        bad = [f"{n}:{ln}" for n, ln in names if n.split(".")[0] in DENY]
        unknown = sorted({n.split(".")[0] for n, _ in names} - ALLOW - DENY)
        out.append(A.bvc(f"{m.name}/<module>", "effect", "imports_no_network_or_process_facility", not bad, m.relpath, "; ".join(bad)))
        out.append(A.bvc(f"{m.name}/<module>", "effect", "imports_only_allowlisted_modules", not unknown, m.relpath, "unclassified imports: " + ", ".join(unknown)))
    return out


def process_calls(pr):
    out = []
    for m in A.all_modules(pr.tree):
        bad = []
        for c in A.calls(m):
            d = A.dotted(c.func)
            if d in BAD_CALLS or d.startswith(BAD_PREFIX):
                bad.append(f"{d}:{c.lineno}")
        out.append(A.bvc(f"{m.name}/<module>", "effect", "no_process_spawn_eval_or_shelling_call", not bad, m.relpath, "; ".join(bad)))
        sus = [f"{A.dotted(c.func)}:{c.lineno}" for c in A.calls(m) if any(x in A.dotted(c.func) for x in SUSPECT_PREFIX)]
        out.append(A.bvc(f"{m.name}/<module>", "effect", "no_call_that_may_shell_out_or_write_elsewhere", not sus, m.relpath,
                         "; ".join(sus) + " (not a violation in itself: settled by the audit-hook runs)"))
    return out


def _enclosing(mod, node):
    best = None
    for f in ast.walk(mod.tree):
        if isinstance(f, ast.FunctionDef) and any(x is node for x in ast.walk(f)):
            if best is None or f.lineno > best.lineno:
                best = f
    return best


def dynamic_imports(pr):
    out = []
    for m in A.all_modules(pr.tree):
        for c in A.calls(m):
            if A.dotted(c.func) in ("import_module", "importlib.import_module"):
                a = c.args[0] if c.args else None
                f = _enclosing(m, c)
                ok = False
                if isinstance(a, ast.JoinedStr) and a.values and isinstance(a.values[0], ast.FormattedValue):
                    ok = A.dotted(a.values[0].value) in ("_ACCOUNTING_METHOD_PACKAGE", "REPORT_GENERATOR_PACKAGE")
                elif isinstance(a, ast.Name) and a.id == "_ACCOUNTING_METHOD_PACKAGE":
                    ok = True
                elif isinstance(a, ast.Name) and f is not None:
                    # a name bound by `for <name> in package_paths` (the two rp2 report packages) or by iter_modules() over such a package
                    for lp in [n for n in ast.walk(f) if isinstance(n, ast.For)]:
                        names = [x.id for x in ast.walk(lp.target) if isinstance(x, ast.Name)]
                        if a.id in names and (ast.unparse(lp.iter) == "package_paths" or A.dotted(lp.iter.func if isinstance(lp.iter, ast.Call) else lp.iter) == "iter_modules"):
                            ok = True
                out.append(A.bvc(f"{m.name}/<module>", "effect", "dynamic_import_stays_inside_rp2_plugins", ok, f"{m.relpath}:{c.lineno}", ast.unparse(c)[:200]))
    # the constants themselves
    for mname, const, want in (("rp2.rp2_main", "_ACCOUNTING_METHOD_PACKAGE", "rp2.plugin.accounting_method"), ("rp2.configuration", "REPORT_GENERATOR_PACKAGE", "rp2.plugin.report")):
        m = pr.tree.modules.get(mname)
        v = m.assigns.get(const) if m else None
        ok = isinstance(v, ast.Constant) and v.value == want
        out.append(A.bvc(f"{mname}/<module>", "effect", f"{const}_is_{want}", ok, m.relpath if m else mname))
    MI = A.Fn(pr.tree, "rp2.rp2_main._rp2_main_internal")
    out.append(A.bvc(MI.qual, "effect", "report_package_paths_are_the_rp2_report_package_and_its_country_subpackage",
                     MI.expr("package_paths=[REPORT_GENERATOR_PACKAGE, f'{REPORT_GENERATOR_PACKAGE}.{country.country_iso_code}']"), "src/rp2/rp2_main.py"))
    return out


def _provenance(mod, call, receiver: ast.AST):
    """(enclosing function, the statement that binds the receiver name in it) for a Name receiver with exactly one binding."""
    f = _enclosing(mod, call)
    if f is None or not isinstance(receiver, ast.Name):
        return f, None
    binds = [st for st in ast.walk(f) if isinstance(st, (ast.Assign, ast.AnnAssign)) and
             any(isinstance(t, ast.Name) and t.id == receiver.id for t in (st.targets if isinstance(st, ast.Assign) else [st.target])) and getattr(st, "value", None) is not None]
    return f, (binds[0] if len(binds) == 1 else None)


def write_frame(pr):
    """Every write site, and where its path comes from (the binding of the receiver inside the enclosing function, not its name)."""
    out = []
    sites = []
    for m in A.all_modules(pr.tree):
        if m.name == "rp2.rp2_configuration_translator":
            continue
        for c in A.calls(m):
            d = A.dotted(c.func)
            if d == "open":
                mode = None
                if len(c.args) > 1 and isinstance(c.args[1], ast.Constant):
                    mode = c.args[1].value
                for k in c.keywords:
                    if k.arg == "mode" and isinstance(k.value, ast.Constant):
                        mode = k.value.value
                if len(c.args) > 1 and not isinstance(c.args[1], ast.Constant):
                    mode = "?"
                if mode is not None and any(ch in str(mode) for ch in "wax+?"):
                    sites.append((m, c, "open-for-write"))
            elif isinstance(c.func, ast.Attribute) and c.func.attr in WRITE_ATTRS:
                if c.func.attr == "remove":
                    _, b = _provenance(m, c, c.func.value)
                    if b is not None and ast.unparse(b.value).endswith(".generators.copy()"):       # set.remove on the local copy of the generator names
                        continue
                sites.append((m, c, c.func.attr))
            elif d.endswith("FileHandler"):
                sites.append((m, c, "FileHandler"))
    for m, c, what in sites:
        recv = c.func.value if isinstance(c.func, ast.Attribute) else None
        f, b = _provenance(m, c, recv) if recv is not None else (None, None)
        bound = ast.unparse(b.value) if b is not None else ""
        if what == "save":
            ok = m.name.startswith("rp2.plugin.report.") and bound.startswith("self._initialize_output_file(")
        elif (m.name, what) == ("rp2.logger", "mkdir"):
            ok = ast.unparse(recv) == "Path('./log')"
        elif (m.name, what) == ("rp2.logger", "FileHandler"):
            ok = ast.unparse(c.args[0]) == "LOG_FILE"
        elif (m.name, what) == ("rp2.rp2_main", "mkdir"):
            ok = f is not None and f.name == "_setup_paths" and b is not None and len(f.args.args) == 4 and bound == f"Path({f.args.args[3].arg})"
        elif (m.name, what) == ("rp2.plugin.report.abstract_ods_generator", "unlink"):
            ok = f is not None and f.name == "_initialize_output_file" and A.has(f, "output_file_path = Path(output_dir_path) / Path(f'{output_file_prefix}{accounting_method}_{output_file_name}')\n"
                                                                                   "if Path(output_file_path).exists():\n    output_file_path.unlink()", m.tree)
        else:
            ok = False
        out.append(A.bvc(f"{m.name}/<module>", "frame", f"write_site_{what}_is_confined", bool(ok), f"{m.relpath}:{c.lineno}", ast.unparse(c)[:160] + (f"  [{bound[:80]}]" if bound else "")))
    # provenance of the three path roots
    lg = pr.tree.modules["rp2.logger"]
    v = lg.assigns.get("LOG_FILE")
    ok = isinstance(v, ast.JoinedStr) and isinstance(v.values[0], ast.Constant) and str(v.values[0].value).startswith("./log/")
    out.append(A.bvc("rp2.logger/<module>", "frame", "log_file_is_under_dot_log", ok, lg.relpath))
    IO = A.Fn(pr.tree, "rp2.plugin.report.abstract_ods_generator.AbstractODSGenerator._initialize_output_file")
    out.append(A.bvc(IO.qual, "frame", "output_path_is_output_dir_slash_prefixed_name",
                     IO.has("output_file_path = Path(output_dir_path) / Path(f'{output_file_prefix}{accounting_method}_{output_file_name}')") and
                     IO.has("output_file = ezodf.newdoc('ods', str(output_file_path), template=template_path)") and IO.has("return output_file") and
                     IO and [a.arg for a in IO.node.args.args][:5] == ["cls", "country", "legend_data", "years_2_accounting_method_names", IO.scope.env.get("output_dir_path", "output_dir_path")],
                     "src/rp2/plugin/report/abstract_ods_generator.py"))
    mm = pr.tree.modules["rp2.rp2_main"]
    SP = A.Fn(pr.tree, "rp2.rp2_main._setup_paths")
    out.append(A.bvc(SP.qual, "frame", "output_dir_path_is_the_output_dir_option", SP.has("output_dir_path = Path(output_dir)\nif not output_dir_path.exists():\n    output_dir_path.mkdir(parents=True)") and
                     A.Fn(pr.tree, "rp2.rp2_main._rp2_main_internal").expr("output_dir=args.output_dir"), mm.relpath))
    FR = A.Fn(pr.tree, "rp2.rp2_main._find_and_run_report_generators")
    out.append(A.bvc(FR.qual, "frame", "generators_receive_the_output_dir_option", FR.expr("output_dir_path=args.output_dir"), mm.relpath))
    out.append(A.bvc("tree:write_sites", "frame", "write_sites_enumerated", len(sites) >= 8, "src/rp2", f"{len(sites)} write sites"))
    return out


def canaries(pr):
    def os_not_allowed(pr):
        unknown = set()
        for m in A.all_modules(pr.tree):
            unknown |= {n.split(".")[0] for n, _ in A.imported_names(m)} - (ALLOW - {"os"}) - DENY
        return [A.bvc("canary", "effect", "no_module_imports_os", not unknown, "src/rp2", str(sorted(unknown)))]

    def no_write_sites(pr):
        n = len([v for v in write_frame(pr) if v.label.startswith("write_site_")])
        return [A.bvc("canary", "frame", "the_package_has_no_write_site", n == 0, "src/rp2")]
    return [("import_allowlist_without_os_must_fail", os_not_allowed), ("write_sites_must_be_found", no_write_sites)]

MANIFEST_ENTRY = {
    "category": "other",
    "text": ("Effect contracts (network / process / file-write frame) stated for every module of the rp2 package and discharged syntactically over the AST of the "
             "current tree: import deny- and allowlists, forbidden calls (incl. standard-library functions that shell out), constant-prefixed dynamic imports, "
             "and a complete enumeration of write sites with the provenance of their path (output directory option or ./log). Bounded: every country entry "
             "point run as a real process under an audit hook (socket / subprocess / exec / open-for-write / rename / mkdir events), on valid and invalid "
             "inputs and with the profiler switch, with file-tree and input-hash comparison."),
    "note": ("What dependencies do internally is assumed (listed). The syntactic discharge is flow-insensitive: it names the expression a path comes from and "
             "compares it with the expected one; any other shape is an open obligation."),
    "technique": "effect/frame contracts per module, discharged syntactically over the AST (no solver needed: finite, decidable clauses) + bounded audit-hook runs of the real entry points",
}
