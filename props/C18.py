"""C18 - no network, no subprocess, writes confined to the output and log directories."""
import ast
import z3
from pyvc.driver import fn, lemma, custom
from pyvc import astcheck as A
from pyvc.base import VC

LEVEL = "other"
FLOOR = 40
EXPLANATION = ("Effect contracts over every module of the rp2 package, discharged syntactically on the AST of the current tree: (imports) no module imports a "
               "networking / process-spawning facility and every imported top-level module is on the recorded allowlist - a new import is an open "
               "obligation, not a silent pass; (calls) no os.system/popen/spawn*/exec*/fork, eval, exec, compile, __import__, and none of the standard-library "
               "functions known to shell out (platform.*, webbrowser, ctypes.util.find_library ...); (dynamic imports) every import_module argument starts "
               "with the rp2 plugin package constant; (file-system frame) every write primitive reachable in the package (open with a write mode, Path.unlink / "
               "mkdir / write_* / rename / touch, ezodf save(), logging.FileHandler, profiler dumps) is enumerated and its path is derived from the "
               "output directory argument or the literal ./log. Dependencies are assumed effect-free. The bounded stand-in runs every entry point under an "
               "audit hook on valid and invalid inputs and compares the file tree and input hashes.")
TRUSTED = ["dependencies (ezodf, lxml, dateutil, babel, pycountry, jsonschema, prezzemolo, stdlib) open no connection and spawn nothing on the paths rp2 uses",
           "ezodf.opendoc opens the input read-only; ezodf save() writes exactly docname (via a temporary file next to it)",
           "rp2_configuration_translator (the separate rp2_config tool) writes next to its input by design: only the import/process clauses apply to it"]
ASSUMPTIONS = TRUSTED
E2E = {"quick": 4, "thorough": 60, "on_doubt": 4, "cli": True}

DENY = {"socket", "ssl", "http", "urllib", "urllib3", "ftplib", "smtplib", "poplib", "imaplib", "telnetlib", "xmlrpc", "asyncio", "selectors", "requests", "httpx", "aiohttp",
        "websocket", "websockets", "paramiko", "subprocess", "multiprocessing", "pty", "ctypes", "socketserver", "webbrowser", "platform", "nntplib", "cgi", "wsgiref", "pexpect",
        "concurrent", "signal", "mmap", "shutil", "tempfile", "pickle", "shelve", "dbm", "sqlite3"}
ALLOW = {"rp2", "typing", "datetime", "pathlib", "logging", "enum", "os", "sys", "prezzemolo", "ezodf", "dataclasses", "jsonschema", "json", "decimal", "configparser", "babel", "argparse",
         "types", "threading", "pycountry", "pkgutil", "itertools", "inspect", "importlib", "heapq", "gettext", "functools", "dateutil", "copy", "cProfile", "abc", "re", "math", "collections", "_decimal"}
BAD_CALLS = {"os.system", "os.popen", "os.fork", "os.forkpty", "os.startfile", "eval", "exec", "compile", "__import__", "os.posix_spawn", "os.posix_spawnp"}
BAD_PREFIX = ("os.spawn", "os.exec", "subprocess.", "platform.", "webbrowser.", "socket.", "urllib.", "http.", "shutil.", "tempfile.", "pstats.", "cProfile.run(")
WRITE_ATTRS = {"unlink", "mkdir", "write_text", "write_bytes", "rename", "replace", "touch", "rmdir", "save", "dump_stats", "symlink_to", "chmod", "makedirs", "remove", "rmtree"}


def items(pr):
    return [custom("imports", imports), custom("calls", process_calls), custom("dynamic_imports", dynamic_imports), custom("write_frame", write_frame)]


def imports(pr):
    out = []
    for m in A.all_modules(pr.tree):
        names = A.imported_names(m)
        bad = [f"{n}:{ln}" for n, ln in names if n.split(".")[0] in DENY]
        unknown = sorted({n.split(".")[0] for n, _ in names} - ALLOW - DENY)
        out.append(A.bvc(f"{m.name}/<module>", "effect", "imports_no_network_or_process_facility", not bad, m.relpath, "; ".join(bad)))
        out.append(A.bvc(f"{m.name}/<module>", "effect", "imports_only_allowlisted_modules", not unknown, m.relpath, "unclassified imports: " + ", ".join(unknown)))
    return out


def process_calls(pr):
    out = []
    for m in A.all_modules(pr.tree):
        bad = []
        for c in A.calls(m):
            d = A.dotted(c.func)
            if d in BAD_CALLS or d.startswith(BAD_PREFIX):
                bad.append(f"{d}:{c.lineno}")
        out.append(A.bvc(f"{m.name}/<module>", "effect", "no_process_spawn_eval_or_shelling_call", not bad, m.relpath, "; ".join(bad)))
    return out


def dynamic_imports(pr):
    out = []
    for m in A.all_modules(pr.tree):
        for c in A.calls(m):
            if A.dotted(c.func) in ("import_module", "importlib.import_module"):
                a = c.args[0] if c.args else None
                ok = False
                if isinstance(a, ast.JoinedStr) and a.values and isinstance(a.values[0], ast.FormattedValue):
                    ok = A.dotted(a.values[0].value) in ("_ACCOUNTING_METHOD_PACKAGE", "REPORT_GENERATOR_PACKAGE", "package_path", "plugin_name")
                elif isinstance(a, ast.Name):
                    ok = a.id in ("package_path", "plugin_name", "_ACCOUNTING_METHOD_PACKAGE")        # names produced from the two rp2 package constants / iter_modules over such a package
                out.append(A.bvc(f"{m.name}/<module>", "effect", "dynamic_import_stays_inside_rp2_plugins", ok, f"{m.relpath}:{c.lineno}", ast.unparse(c)[:200]))
    # the constants themselves
    for mname, const, want in (("rp2.rp2_main", "_ACCOUNTING_METHOD_PACKAGE", "rp2.plugin.accounting_method"), ("rp2.configuration", "REPORT_GENERATOR_PACKAGE", "rp2.plugin.report")):
        m = pr.tree.modules.get(mname)
        v = m.assigns.get(const) if m else None
        ok = isinstance(v, ast.Constant) and v.value == want
        out.append(A.bvc(f"{mname}/<module>", "effect", f"{const}_is_{want}", ok, m.relpath if m else mname))
    return out


def write_frame(pr):
    """Every write site, and where its path comes from."""
    out = []
    sites = []
    for m in A.all_modules(pr.tree):
        if m.name == "rp2.rp2_configuration_translator":
            continue
        for c in A.calls(m):
            d = A.dotted(c.func)
            if d == "open":
                mode = None
                if len(c.args) > 1 and isinstance(c.args[1], ast.Constant):
                    mode = c.args[1].value
                for k in c.keywords:
                    if k.arg == "mode" and isinstance(k.value, ast.Constant):
                        mode = k.value.value
                if len(c.args) > 1 and not isinstance(c.args[1], ast.Constant):
                    mode = "?"
                if mode is not None and any(ch in str(mode) for ch in "wax+?"):
                    sites.append((m, c, "open-for-write"))
            elif isinstance(c.func, ast.Attribute) and c.func.attr in WRITE_ATTRS:
                if c.func.attr == "remove" and ast.unparse(c.func.value) == "generators":      # set.remove on the local copy of the generator names
                    continue
                sites.append((m, c, c.func.attr))
            elif d.endswith("FileHandler"):
                sites.append((m, c, "FileHandler"))
    ok_sites = {
        ("rp2.logger", "mkdir"): lambda c: ast.unparse(c.func.value) == "Path('./log')",
        ("rp2.logger", "FileHandler"): lambda c: ast.unparse(c.args[0]) == "LOG_FILE",
        ("rp2.rp2_main", "mkdir"): lambda c: ast.unparse(c.func.value) == "output_dir_path",
        ("rp2.plugin.report.abstract_ods_generator", "unlink"): lambda c: ast.unparse(c.func.value) == "output_file_path",
    }
    for m, c, what in sites:
        key = (m.name, what)
        if what == "save":
            ok = ast.unparse(c.func.value) == "output_file" and m.name.startswith("rp2.plugin.report.")
        elif key in ok_sites:
            ok = ok_sites[key](c)
        else:
            ok = False
        out.append(A.bvc(f"{m.name}/<module>", "frame", f"write_site_{what}_is_confined", ok, f"{m.relpath}:{c.lineno}", ast.unparse(c)[:160]))
    # provenance of the three path roots
    lg = pr.tree.modules["rp2.logger"]
    v = lg.assigns.get("LOG_FILE")
    ok = isinstance(v, ast.JoinedStr) and isinstance(v.values[0], ast.Constant) and str(v.values[0].value).startswith("./log/")
    out.append(A.bvc("rp2.logger/<module>", "frame", "log_file_is_under_dot_log", ok, lg.relpath))
    g = A.func_node(pr.tree, "rp2.plugin.report.abstract_ods_generator.AbstractODSGenerator._initialize_output_file")
    src = ast.unparse(g) if g else ""
    out.append(A.bvc("rp2.plugin.report.abstract_ods_generator.AbstractODSGenerator._initialize_output_file", "frame", "output_path_is_output_dir_slash_prefixed_name",
                     "output_file_path: Path = Path(output_dir_path) / Path(f'{output_file_prefix}{accounting_method}_{output_file_name}')" in src and
                     "ezodf.newdoc('ods', str(output_file_path), template=template_path)" in src, "src/rp2/plugin/report/abstract_ods_generator.py", src[:0]))
    mm = pr.tree.modules["rp2.rp2_main"]
    sp = A.func_node(pr.tree, "rp2.rp2_main._setup_paths")
    out.append(A.bvc("rp2.rp2_main._setup_paths", "frame", "output_dir_path_is_the_output_dir_option", sp is not None and "output_dir_path: Path = Path(output_dir)" in ast.unparse(sp), mm.relpath))
    mi = A.func_node(pr.tree, "rp2.rp2_main._rp2_main_internal")
    msrc = ast.unparse(mi) if mi else ""
    out.append(A.bvc("rp2.rp2_main._rp2_main_internal", "effect", "report_package_paths_are_the_rp2_report_package_and_its_country_subpackage",
                     "package_paths=[REPORT_GENERATOR_PACKAGE, f'{REPORT_GENERATOR_PACKAGE}.{country.country_iso_code}']" in msrc, mm.relpath))
    out.append(A.bvc("rp2.rp2_main._rp2_main_internal", "frame", "generators_receive_the_output_dir_option",
                     "output_dir_path=args.output_dir" in ast.unparse(A.func_node(pr.tree, "rp2.rp2_main._find_and_run_report_generators") or ast.parse("0")) or "output_dir_path=args.output_dir" in msrc, mm.relpath))
    out.append(A.bvc("tree:write_sites", "frame", "write_sites_enumerated", len(sites) >= 8, "src/rp2", f"{len(sites)} write sites"))
    return out


MANIFEST_ENTRY = {
    "category": "other",
    "text": ("Effect contracts (network / process / file-write frame) stated for every module of the rp2 package and discharged syntactically over the AST of the "
             "current tree: import deny- and allowlists, forbidden calls (incl. standard-library functions that shell out), constant-prefixed dynamic imports, "
             "and a complete enumeration of write sites with the provenance of their path (output directory option or ./log). Bounded: every country entry "
             "point run as a real process under an audit hook (socket / subprocess / exec / open-for-write / rename / mkdir events), on valid and invalid "
             "inputs and with the profiler switch, with file-tree and input-hash comparison."),
    "note": ("What dependencies do internally is assumed (listed). The syntactic discharge is flow-insensitive: it names the expression a path comes from and "
             "compares it with the expected one; any other shape is an open obligation."),
    "technique": "effect/frame contracts per module, discharged syntactically over the AST (no solver needed: finite, decidable clauses) + bounded audit-hook runs of the real entry points",
}
