#!/usr/bin/env python3
"""Development helper: generate the VCs of one function, solve in-process, show which conjunct of a refuted goal is false in the model.
usage: .venv/bin/python tools/dbg.py <qualified function> [label substring] [--repo DIR] [--timeout ms]"""
import sys, os, time
sys.path.insert(0, os.path.dirname(os.path.dirname(os.path.abspath(__file__))))
import z3
from pyvc import driver, vals as V

args = sys.argv[1:]
repo = args[args.index("--repo") + 1] if "--repo" in args else "/repo"
tmo = int(args[args.index("--timeout") + 1]) if "--timeout" in args else 20000
qual = args[0]
sub = args[1] if len(args) > 1 and not args[1].startswith("--") else ""
driver.load_sidecars()
pr = driver.PropertyRun("DBG", "quick", repo, 0)
t0 = time.time()
vcs = pr.gen_fn(qual)
print(f"{len(vcs)} VCs in {time.time() - t0:.1f}s; undecided={pr.undecided}; faults={pr.engine_faults}; normal paths={getattr(pr.ex, 'n_normal_paths', None)}")


def conjuncts(g):
    if z3.is_and(g):
        out = []
        for c in g.children():
            out += conjuncts(c)
        return out
    return [g]


for v in vcs:
    if sub and sub not in v.name:
        continue
    from pyvc import solve as _solve
    kept = _solve.prune_hypotheses(v.pc, v.goal)
    t1 = time.time()
    r = None
    for hsub in _solve.hypothesis_subsets(v) + [kept]:
        s = z3.Solver()
        s.set("timeout", tmo if hsub is kept else min(tmo, 8000))
        for a in list(pr.ex.global_axioms) + V.str_axioms():
            s.add(a)
        for p in hsub:
            s.add(p)
        s.add(z3.Not(v.goal))
        r = s.check()
        if r == z3.unsat:
            break
    print(f"{str(r):8s} {time.time() - t1:6.2f}s {v.name} path={v.path} {v.loc} pc={len(kept)}/{len(v.pc)}")
    if r != z3.unsat:
        print("      goal:", str(v.goal)[:int(os.environ.get("DBG_GOAL", "300"))].replace("\n", " "))
    if r == z3.sat and sub:
        m = s.model()
        for c in conjuncts(v.goal):
            val = m.eval(c, model_completion=True)
            if not z3.is_true(val):
                print("   FALSE/undetermined conjunct:", str(c)[:1500].replace("\n", " "))
                print("     evaluates to", str(val)[:300])
