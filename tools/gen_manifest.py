#!/usr/bin/env python3
"""Regenerates MANIFEST.json from props/*.py metadata (MANIFEST_ENTRY dict in each props module) + the not-applicable table."""
import importlib, json, os, sys
sys.path.insert(0, os.path.dirname(os.path.dirname(os.path.abspath(__file__))))
ALL = [f"C{i:02d}" for i in range(1, 21)]
NOT_YET = {}
checks, na = [], []
for pid in ALL:
    if not os.path.exists(os.path.join(os.path.dirname(os.path.dirname(os.path.abspath(__file__))), "props", pid + ".py")):
        mod = None
    else:
        mod = importlib.import_module(f"props.{pid}")       # run with /verif/.venv/bin/python (needs z3)
    e = getattr(mod, "MANIFEST_ENTRY", None)
    if e is None:
        na.append({"property_id": pid, "reason": NOT_YET.get(pid, "no contract-based check built for this property yet in this tree of /verif (see DESIGN.md section 8 for the plan); nothing is claimed")})
        continue
    checks.append({
        "property_id": pid,
        "quick_cmd": f"bin/verif check {pid} --tier quick",
        "thorough_cmd": f"bin/verif check {pid} --tier thorough",
        "evidence_file": f"/verif/evidence/{pid}.json",
        "replay_cmd_template": "bin/verif replay {path}",
        "engine": "pyvc",
        "level_claimed": {"category": e["category"], "text": e["text"], "design_ref": e.get("design_ref", f"DESIGN.md 8.{pid}")},
        "level_note": e["note"],
        "technique": e.get("technique", "contract-based deductive verification: sidecar contracts on the real functions, VCs generated from the AST of the current tree, discharged by z3/cvc5"),
    })
m = {
    "version": 1,
    "setup_cmd": "bin/ensure-env",
    "hooks": {"guard": "RP2_VERIF", "enable": "none needed: contracts are sidecar files under /verif/contracts, run-time wrappers are installed inside the harness process only; /repo carries no instrumentation",
              "baseline_off_cmd": "cd /repo && /venv/bin/python -m pytest -ra -q -p no:cacheprovider --timeout=900 --continue-on-collection-errors",
              "source_commits": [], "add_only": True},
    "engines": [{"name": "pyvc", "path": "/verif/pyvc", "serves_properties": [c["property_id"] for c in checks],
                 "kind_free_text": "home-made deductive verifier: AST -> symbolic execution against contracts -> SMT (z3 5.1, cvc5 fallback); native replay of counter-models"}],
    "checks": checks,
    "not_applicable": na,
    "notes": ("Exit 0 held / 1 violation (VIOLATION line) / 3 engine fault (never a verdict on rp2). Undecided obligations are printed and recorded in the evidence, never reported as "
              "violations. A refuted postcondition / case / lemma / definite syntactic obligation is a violation (ending no-failing-input-found when no input can be replayed); a shape "
              "obligation or an internal proof obligation (loop invariant, callee precondition, frame) that fails is a violation only together with a failing input from the solver model or "
              "the bounded stand-in, otherwise undecided. Witnesses of repaired defects (findings/fixed) are replayed on every run. See DESIGN.md section 13."),
}
json.dump(m, open(os.path.join(os.path.dirname(__file__), "..", "MANIFEST.json"), "w"), indent=1)
print(len(checks), "checks,", len(na), "not applicable")
