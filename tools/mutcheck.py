#!/usr/bin/env python3
"""Development helper: apply one textual edit to a scratch copy of /repo/src and run a check against it.
usage: mutcheck.py <Cxx> <path under src/rp2> <old> <new> [--tier quick]
The scratch copy lives under $TMPDIR and is removed afterwards."""
import os, shutil, subprocess, sys, tempfile
pid, rel, old, new = sys.argv[1:5]
d = tempfile.mkdtemp(prefix="rp2mut_")
try:
    shutil.copytree("/repo/src", os.path.join(d, "src"))
    p = os.path.join(d, "src", "rp2", rel)
    s = open(p).read()
    if s.count(old) < 1:
        print("PATTERN NOT FOUND"); sys.exit(2)
    open(p, "w").write(s.replace(old, new, 1))
    r = subprocess.run([os.path.join(os.path.dirname(__file__), "..", "bin", "verif"), "check", pid, "--repo", d] + sys.argv[5:], capture_output=True, text=True)
    print(r.stdout[-3000:], r.stderr[-2000:]); print("exit", r.returncode)
finally:
    shutil.rmtree(d)
