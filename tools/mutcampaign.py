#!/usr/bin/env python3
"""Development helper: a small operator-mutation campaign against the checks.

usage: mutcampaign.py [--per-file N] [--seed S] [--jobs J] [--out FILE]

For each target file, AST-level mutants (comparison / arithmetic / boolean operator swaps, small constant changes, `not` removal) are
generated inside the functions the properties anchor; each mutant is written into a private scratch copy of /repo/src (under $TMPDIR,
removed afterwards), the 48 stable tests are run on it, and for the survivors the quick checks of the properties that anchor the file are run
with --repo.  Output: one JSON line per surviving mutant with the verdict of each check (violation / undecided / ok).  Nothing is written
to /repo; evidence of these runs goes to /verif/.scratch (the checks see --repo != /repo)."""
import ast, json, os, random, shutil, subprocess, sys, tempfile
from concurrent.futures import ThreadPoolExecutor

VERIF = os.path.dirname(os.path.dirname(os.path.abspath(__file__)))
TARGETS = {
    "abstract_accounting_method.py": ["C01", "C02"], "accounting_engine.py": ["C01", "C02", "C09"], "tax_engine.py": ["C02", "C03", "C10"],
    "plugin/accounting_method/hifo.py": ["C01"], "plugin/accounting_method/lofo.py": ["C01"], "plugin/accounting_method/lifo.py": ["C01"],
    "gain_loss.py": ["C04", "C05"], "in_transaction.py": ["C03", "C04", "C12"], "out_transaction.py": ["C03", "C04", "C12"], "intra_transaction.py": ["C03", "C04", "C12"],
    "computed_data.py": ["C06", "C10", "C13", "C15"], "balance.py": ["C07", "C08"], "abstract_entry_set.py": ["C10", "C09"], "gain_loss_set.py": ["C13", "C10"],
    "ods_parser.py": ["C11", "C12"], "configuration.py": ["C11", "C12", "C16"], "rp2_main.py": ["C12", "C16"],
    "plugin/report/rp2_full_report.py": ["C13", "C19"], "plugin/report/open_positions.py": ["C15", "C16"], "plugin/report/us/tax_report_us.py": ["C14"],
    "plugin/report/ie/tax_report_ie.py": ["C14"], "plugin/report/jp/tax_report_jp.py": ["C20"], "plugin/report/abstract_ods_generator.py": ["C13", "C16"],
}
SKIP_FUNCS = {"__str__", "__repr__", "to_string", "type_check", "_setup_text_data", "__lt__"}
CMP = {ast.Lt: ast.LtE, ast.LtE: ast.Lt, ast.Gt: ast.GtE, ast.GtE: ast.Gt, ast.Eq: ast.NotEq, ast.NotEq: ast.Eq}
ARI = {ast.Add: ast.Sub, ast.Sub: ast.Add, ast.Mult: ast.Div}


def mutants_of(src):
    tree = ast.parse(src)
    sites = []
    for f in ast.walk(tree):
        if not isinstance(f, ast.FunctionDef) or f.name in SKIP_FUNCS:
            continue
        for n in ast.walk(f):
            if isinstance(n, ast.Compare) and len(n.ops) == 1 and type(n.ops[0]) in CMP:
                sites.append(("cmp", n.lineno, n.col_offset, f.name))
            elif isinstance(n, ast.BinOp) and type(n.op) in ARI and not isinstance(n.left, ast.Constant):
                sites.append(("ari", n.lineno, n.col_offset, f.name))
            elif isinstance(n, ast.BoolOp):
                sites.append(("bool", n.lineno, n.col_offset, f.name))
            elif isinstance(n, ast.UnaryOp) and isinstance(n.op, ast.Not):
                sites.append(("not", n.lineno, n.col_offset, f.name))
            elif isinstance(n, ast.Constant) and isinstance(n.value, int) and not isinstance(n.value, bool) and n.value in (0, 1, 2):
                sites.append(("const", n.lineno, n.col_offset, f.name))
            elif isinstance(n, ast.Attribute) and isinstance(n.ctx, ast.Load) and not n.attr.startswith("_"):
                # a similar attribute read elsewhere in the same function (same first word: crypto_*, fiat_*, from_*, to_* ...)
                head = n.attr.split("_")[0]
                others = sorted({m.attr for m in ast.walk(f) if isinstance(m, ast.Attribute) and isinstance(m.ctx, ast.Load) and m.attr != n.attr and m.attr.split("_")[0] == head and "_" in m.attr
                                 and not m.attr.startswith("_")})
                if others and "_" in n.attr:
                    sites.append(("attr:" + others[(n.lineno + n.col_offset) % len(others)], n.lineno, n.col_offset, f.name))
    return sites


def apply(src, site):
    kind, line, col, fname = site
    tree = ast.parse(src)
    for n in ast.walk(tree):
        if getattr(n, "lineno", None) == line and getattr(n, "col_offset", None) == col:
            if kind == "cmp" and isinstance(n, ast.Compare):
                n.ops = [CMP[type(n.ops[0])]()]
                return ast.unparse(tree)
            if kind == "ari" and isinstance(n, ast.BinOp):
                n.op = ARI[type(n.op)]()
                return ast.unparse(tree)
            if kind == "bool" and isinstance(n, ast.BoolOp):
                n.op = ast.Or() if isinstance(n.op, ast.And) else ast.And()
                return ast.unparse(tree)
            if kind == "not" and isinstance(n, ast.UnaryOp):
                n.op = ast.UAdd()       # replaced below
                s = ast.unparse(tree)
                return s
            if kind == "const" and isinstance(n, ast.Constant):
                n.value = n.value + 1
                return ast.unparse(tree)
            if kind.startswith("attr:") and isinstance(n, ast.Attribute):
                n.attr = kind[5:]
                return ast.unparse(tree)
    return None


def run(cmd, cwd, env=None, timeout=1800):
    e = dict(os.environ)
    e.update(env or {})
    p = subprocess.run(cmd, cwd=cwd, env=e, capture_output=True, text=True, timeout=timeout)
    return p.returncode, p.stdout + p.stderr


def one(job):
    rel, site, props = job
    d = tempfile.mkdtemp(prefix="rp2mut_")
    try:
        shutil.copytree("/repo/src", os.path.join(d, "src"))
        shutil.copytree("/repo/tests", os.path.join(d, "tests"))
        for extra in ("config", "input", "setup.cfg", "pyproject.toml"):
            sp = os.path.join("/repo", extra)
            if os.path.isdir(sp):
                shutil.copytree(sp, os.path.join(d, extra))
            elif os.path.exists(sp):
                shutil.copy(sp, os.path.join(d, extra))
        p = os.path.join(d, "src", "rp2", rel)
        src = open(p).read()
        if site[0] == "not":
            tree = ast.parse(src)
            done = False
            for n in ast.walk(tree):
                for fld, val in ast.iter_fields(n):
                    items = val if isinstance(val, list) else [val]
                    for k, c in enumerate(items):
                        if isinstance(c, ast.UnaryOp) and isinstance(c.op, ast.Not) and c.lineno == site[1] and c.col_offset == site[2] and not done:
                            if isinstance(val, list):
                                val[k] = c.operand
                            else:
                                setattr(n, fld, c.operand)
                            done = True
            new = ast.unparse(tree) if done else None
        else:
            new = apply(src, site)
        if not new or new == ast.unparse(ast.parse(src)):
            return None
        open(p, "w").write(new + "\n")
        rc, out = run(["/venv/bin/python", "-m", "pytest", "-q", "-x", "-p", "no:cacheprovider", "--timeout=600", "-k", "not ods_output and not large_input and not localized"], d,
                      {"PYTHONPATH": os.path.join(d, "src")}, timeout=900)
        if rc != 0 or "48 passed" not in out:
            return {"file": rel, "site": site, "killed_by_tests": True}
        verdicts = {}
        for pid in props:
            rc, out = run([os.path.join(VERIF, "bin", "verif"), "check", pid, "--repo", d, "--tier", "quick"], VERIF, timeout=3600)
            lines = [l for l in out.splitlines() if l.startswith(("VIOLATION", "UNDECIDED", "ENGINE-FAULT"))]
            verdicts[pid] = {"exit": rc, "first": lines[0][:260] if lines else ""}
        orig_line = src.splitlines()[site[1] - 1].strip() if site[1] - 1 < len(src.splitlines()) else ""
        return {"file": rel, "site": site, "line": orig_line[:160], "killed_by_tests": False, "verdicts": verdicts}
    except Exception as exc:
        return {"file": rel, "site": site, "error": str(exc)[:200]}
    finally:
        shutil.rmtree(d, ignore_errors=True)


def main():
    a = sys.argv[1:]
    per = int(a[a.index("--per-file") + 1]) if "--per-file" in a else 4
    seed = int(a[a.index("--seed") + 1]) if "--seed" in a else 0
    jobs_n = int(a[a.index("--jobs") + 1]) if "--jobs" in a else 3
    outp = a[a.index("--out") + 1] if "--out" in a else os.path.join(VERIF, ".scratch", f"mutcampaign_{seed}.jsonl")
    rnd = random.Random(seed)
    jobs = []
    import re as _re
    only = _re.compile(a[a.index("--only") + 1]) if "--only" in a else None
    for rel, props in TARGETS.items():
        if only is not None and not only.search(rel):
            continue
        src = open(os.path.join("/repo/src/rp2", rel)).read()
        sites = mutants_of(src)
        if "--kind" in a:
            kk = a[a.index("--kind") + 1]
            sites = [x for x in sites if x[0].startswith(kk)]
        rnd.shuffle(sites)
        for s in sites[:per]:
            jobs.append((rel, s, props))
    print(f"{len(jobs)} mutants", flush=True)
    with open(outp, "w") as f, ThreadPoolExecutor(max_workers=jobs_n) as pool:
        for r in pool.map(one, jobs):
            if r is None:
                continue
            f.write(json.dumps(r) + "\n")
            f.flush()
            if not r.get("killed_by_tests") and "verdicts" in r:
                v = {k: ("VIOL" if x["exit"] == 1 else "undec" if "UNDECIDED" in x["first"] else "fault" if x["exit"] == 3 else "ok") for k, x in r["verdicts"].items()}
                print(r["file"], r["site"][3], r["site"][0], r["site"][1], "|", r.get("line", "")[:70], "|", v, flush=True)
    print("done")


if __name__ == "__main__":
    main()
