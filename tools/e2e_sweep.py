#!/usr/bin/env python3
"""Development helper: run the bounded e2e stand-in for several properties and seeds on /repo (or --repo) and summarise failures by region."""
import json, sys, os
sys.path.insert(0, os.path.dirname(os.path.dirname(os.path.abspath(__file__))))
from pyvc.replay import run_e2e
props = sys.argv[1].split(",")
seeds = [int(x) for x in sys.argv[2].split(",")]
n = int(sys.argv[3])
repo = sys.argv[4] if len(sys.argv) > 4 else "/repo"
for p in props:
    for sd in seeds:
        r = run_e2e(p, n, sd, repo, timeout=7200)
        outside = [f for f in r["failures"] if not f["regions"]]
        print(p, "seed", sd, "evals", r.get("evaluations"), "failures", len(r["failures"]), "outside-known-regions", len(outside), r.get("error", "")[-200:], flush=True)
        for f in outside[:2]:
            print("   ", f["what"][:2], json.dumps(f["scenario"])[:1200], flush=True)
