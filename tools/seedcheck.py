#!/usr/bin/env python3
"""Confirm a seeded property-breaking change and run checks against it.

usage: seedcheck.py <dir with patch.diff demo.py meta.json> [--keep <seed id>] [--props C05,C06] [--tier quick]

1. fresh scratch worktree of /repo HEAD under $TMPDIR (removed afterwards), patch applied with `git apply`;
2. the 48 stable tests must pass with the patch; demo.py must fail with the patch and pass without it;
3. every listed check (default: the property named in meta.json) is run against the patched scratch tree (bin/verif check --repo);
4. with --keep the directory is copied to /verif/seeded/<seed id>/ and meta.json gets a `confirmed` block (what was run, verdicts).
"""
import json, os, shutil, subprocess, sys, tempfile, time

VERIF = os.path.dirname(os.path.dirname(os.path.abspath(__file__)))
TESTS = ["-m", "pytest", "-q", "-p", "no:cacheprovider", "--timeout=900", "-k", "not ods_output and not large_input and not localized"]


def sh(cmd, cwd, env=None, timeout=900):
    e = dict(os.environ)
    e.update(env or {})
    r = subprocess.run(cmd, cwd=cwd, env=e, capture_output=True, text=True, timeout=timeout)
    return r.returncode, (r.stdout + r.stderr)


def main():
    args = sys.argv[1:]
    src = os.path.abspath(args[0])
    keep = args[args.index("--keep") + 1] if "--keep" in args else None
    tier = args[args.index("--tier") + 1] if "--tier" in args else "quick"
    meta = json.load(open(os.path.join(src, "meta.json")))
    props = args[args.index("--props") + 1].split(",") if "--props" in args else [meta["property"]]
    wt = tempfile.mkdtemp(prefix="rp2seed_")
    os.rmdir(wt)
    report = {"at": time.strftime("%Y-%m-%dT%H:%M:%S"), "commands": []}
    try:
        rc, out = sh(["git", "-C", "/repo", "worktree", "add", "--detach", wt, "HEAD"], "/")
        assert rc == 0, out
        env = {"PYTHONPATH": os.path.join(wt, "src")}
        os.makedirs(os.path.join(wt, "out", "1"), exist_ok=True)          # same layout the demos were written in: <worktree>/out/<n>/demo.py
        shutil.copy(os.path.join(src, "demo.py"), os.path.join(wt, "out", "1", "demo.py"))
        rc0, out0 = sh(["/venv/bin/python", "out/1/demo.py"], wt, env)
        report["demo_pristine_exit"] = rc0
        rc, out = sh(["git", "apply", os.path.join(src, "patch.diff")], wt)
        assert rc == 0, "patch does not apply: " + out
        rc1, out1 = sh(["/venv/bin/python", "out/1/demo.py"], wt, env)
        report["demo_patched_exit"] = rc1
        report["demo_patched_tail"] = out1[-600:]
        rct, outt = sh(["/venv/bin/python"] + TESTS, wt, env)
        tail = outt.strip().splitlines()[-1] if outt.strip() else ""
        report["tests_patched"] = tail
        ok = rc0 == 0 and rc1 != 0 and rct == 0 and "48 passed" in tail
        report["confirmed"] = ok
        print(f"SEED {os.path.basename(os.path.dirname(src))}/{os.path.basename(src)}: pristine-demo={rc0} patched-demo={rc1} tests='{tail}' confirmed={ok}")
        verdicts = {}
        for pid in props:
            if not os.path.exists(os.path.join(VERIF, "props", pid + ".py")):
                verdicts[pid] = "no check"
                continue
            rc, out = sh([os.path.join(VERIF, "bin", "verif"), "check", pid, "--repo", wt, "--tier", tier], VERIF, timeout=3600)
            lines = [l for l in out.splitlines() if l.startswith(("VIOLATION", "OK ", "UNDECIDED", "ENGINE-FAULT", "KNOWN-FINDING"))]
            verdicts[pid] = {"exit": rc, "lines": [l[:400] for l in lines[:12]]}
            print(f"  check {pid}: exit={rc}")
            for l in lines[:6]:
                print("    " + l[:300])
        report["checks"] = verdicts
        if keep:
            dst = os.path.join(VERIF, "seeded", keep)
            os.makedirs(dst, exist_ok=True)
            for f in ("patch.diff", "demo.py"):
                shutil.copy(os.path.join(src, f), os.path.join(dst, f))
            meta["confirmed_by_seedcheck"] = report
            json.dump(meta, open(os.path.join(dst, "meta.json"), "w"), indent=1)
    finally:
        sh(["git", "-C", "/repo", "worktree", "remove", "--force", wt], "/")
        shutil.rmtree(wt, ignore_errors=True)
        sh(["git", "-C", "/repo", "worktree", "prune"], "/")


if __name__ == "__main__":
    main()
