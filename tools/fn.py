#!/usr/bin/env python3
"""Development helper: VCs of one function through the real solving pipeline (pool, hypothesis subsets, cvc5 fallback); prints what is not proved.
usage: PYTHONHASHSEED=0 .venv/bin/python tools/fn.py <qualified function> [--repo DIR] [--thorough]"""
import sys, os, time
sys.path.insert(0, os.path.dirname(os.path.dirname(os.path.abspath(__file__))))
from pyvc import driver, solve

args = sys.argv[1:]
repo = args[args.index("--repo") + 1] if "--repo" in args else "/repo"
driver.load_sidecars()
pr = driver.PropertyRun("DBG", "quick", repo, 0)
t0 = time.time()
vcs = pr.gen_fn(args[0])
print(f"{len(vcs)} VCs in {time.time() - t0:.1f}s; undecided={pr.undecided}; faults={pr.engine_faults}; normal paths={getattr(pr.ex, 'n_normal_paths', None)}")
res = solve.solve_all(vcs, list(pr.ex.global_axioms), thorough="--thorough" in args)
bad = [r for r in res if r.status != "unsat"]
print(f"solved in {time.time() - t0:.1f}s: {len(res) - len(bad)} proved, {len(bad)} open; backends={sorted(set(r.backend for r in res))}")
for r in bad:
    print(f"{r.status:8s} {r.time:6.1f}s {r.vc.name} path={r.vc.path} {r.vc.loc}\n      goal: {str(r.vc.goal)[:400]!r}")
