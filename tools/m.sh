#!/bin/bash
# tools/m.sh <Cxx> <file> <old> <new>: run mutcheck and print only the verdict lines
python3 "$(dirname "$0")/mutcheck.py" "$@" 2>&1 | grep -E "VIOLATION|OK prop|UNDECIDED|ENGINE|exit|PATTERN|KNOWN" | cut -c1-300; echo ---
