"""Executor core: class ids, types from annotations, field table, heap and collection model, VC emission."""
from __future__ import annotations

import ast
import z3
from typing import Dict, List, Optional, Tuple

from . import vals as V
from .vals import Val, Ty, INT, BOOL, DEC, FLOAT, STR, DATE, DATETIME, NONE, ANY, EXC
from .source import SourceTree, FuncInfo, ClassInfo, ModuleInfo, ExtractionError
from .base import VC, State, Frame, OutOfSubset, exc_val
from . import spec as S

SIMPLE_TYPES = {
    "int": INT, "bool": BOOL, "str": STR, "float": FLOAT, "RP2Decimal": DEC, "Decimal": DEC,
    "date": DATE, "datetime": DATETIME, "Any": ANY, "object": ANY, "None": NONE, "Path": Ty("ext", "Path"),
    "Namespace": Ty("ext", "Namespace"), "ArgumentParser": Ty("ext", "ArgumentParser"), "ModuleType": Ty("ext", "ModuleType"),
    "SectionProxy": Ty("ext", "SectionProxy"), "ConfigParser": Ty("ext", "ConfigParser"), "Lock": Ty("ext", "Lock"),
    "Callable": ANY,
}


class ExecCore:
    def __init__(self, tree: SourceTree, func_label: str = "") -> None:
        self.tree = tree
        self.vcs: List[VC] = []
        self.emit = True
        self.cur_func = func_label
        self.path_counter = 0
        self.dropped: List[str] = []
        self.notes: List[str] = []
        self.contradictory_contracts: List[str] = []   # call sites where assuming a callee's postconditions made a feasible state infeasible
        self.getters_used: Dict[Tuple[str, str], str] = {}     # (class qualname, property) -> field, for getter obligations
        self.class_ids: Dict[str, int] = {q: i + 1 for i, q in enumerate(sorted(tree.classes))}
        self._field_table: Optional[Dict[str, Tuple[ClassInfo, Optional[ast.expr], Optional[ast.expr], FuncInfo]]] = None
        self._field_types: Dict[str, Ty] = {}
        self._static_busy: set = set()
        self._abstract: Dict[str, bool] = {}
        self._feas = z3.Solver()
        self._feas.set("rlimit", 60000)
        self.inline_depth_limit = 14
        self.uf_cache: Dict[str, z3.FuncDeclRef] = {}
        self.global_axioms: List[z3.BoolRef] = []
        self.call_stack: List[str] = []
        self._ensure_enum_sorts()

    # ------------------------------------------------------------------ classes / enums / records
    def class_q(self, name: str) -> str:
        """Qualified name from a simple (unique) or qualified class name."""
        if name in self.tree.classes:
            return name
        hits = [q for q, c in self.tree.classes.items() if c.name == name]
        if len(hits) == 1:
            return hits[0]
        if not hits:
            raise ExtractionError(f"class {name} not found")
        raise ExtractionError(f"class name {name} is ambiguous: {hits}")

    def _ensure_enum_sorts(self) -> None:
        for q, c in sorted(self.tree.classes.items()):
            if c.is_enum and q not in V.ENUM_SORTS and c.enum_members:
                sort, consts = z3.EnumSort("E_" + q.replace(".", "_"), [m for m, _ in c.enum_members])
                V.ENUM_SORTS[q] = (sort, {m: k for (m, _), k in zip(c.enum_members, consts)})

    def enum_member(self, q: str, member: str) -> Val:
        if member not in V.ENUM_SORTS[q][1]:
            raise ExtractionError(f"enum {q} has no member {member}")
        return Val(V.Enum(q), V.ENUM_SORTS[q][1][member])

    def enum_value_str(self, q: str, member: str) -> object:
        for m, v in self.tree.cls(q).enum_members:
            if m == member:
                return v
        raise ExtractionError(f"enum {q} has no member {member}")

    def rec_sort(self, q: str):
        if q not in V.REC_SORTS:
            c = self.tree.cls(q)
            flds = [(n, self.type_of_annotation(a, c.module, c)) for n, a in c.fields]
            decl = []
            for n, t in flds:
                decl.append((n, V.sort_of(t)))
                if t.kind == "opt":
                    decl.append((n + "$none", z3.BoolSort()))
            V.REC_SORTS[q] = (V.make_datatype("R_" + q.replace(".", "_"), decl), flds)
        return V.REC_SORTS[q]

    def rec_field(self, v: Val, name: str) -> Val:
        sort, flds = self.rec_sort(v.ty.args[0])
        for n, t in flds:
            if n == name:
                acc = getattr(sort, n)
                if t.kind == "opt":
                    return Val(t, acc(v.t), none=getattr(sort, n + "$none")(v.t))
                return Val(t, acc(v.t))
        raise ExtractionError(f"record {v.ty} has no field {name}")

    def rec_make(self, q: str, fields: Dict[str, Val]) -> Val:
        sort, flds = self.rec_sort(q)
        args = []
        for n, t in flds:
            if n not in fields:
                raise OutOfSubset(f"record {q}: missing field {n}")
            x = self.coerce(fields[n], t)
            args.append(x.t)
            if t.kind == "opt":
                args.append(x.none)
        return Val(V.Rec(q), sort.mk(*args))

    # ------------------------------------------------------------------ types from annotations
    def type_of_annotation(self, a: Optional[ast.expr], module: ModuleInfo, cls: Optional[ClassInfo] = None) -> Ty:
        if a is None:
            return ANY
        if isinstance(a, ast.Constant):
            if a.value is None:
                return NONE
            if isinstance(a.value, str):
                try:
                    return self.type_of_annotation(ast.parse(a.value, mode="eval").body, module, cls)
                except SyntaxError:
                    return ANY
            return ANY
        if isinstance(a, ast.Name):
            if a.id in SIMPLE_TYPES:
                return SIMPLE_TYPES[a.id]
            q = self.tree.resolve_name(module, a.id)
            if q in self.tree.classes:
                return self.class_type(q)
            if a.id in module.assigns and isinstance(module.assigns[a.id], ast.Call) and getattr(module.assigns[a.id].func, "id", "") == "TypeVar":
                for kw in module.assigns[a.id].keywords:
                    if kw.arg == "bound":
                        return self.type_of_annotation(kw.value, module, cls)
                return ANY
            return Ty("ext", a.id)
        if isinstance(a, ast.Attribute):
            return Ty("ext", a.attr)
        if isinstance(a, ast.Subscript):
            base = a.value.id if isinstance(a.value, ast.Name) else getattr(a.value, "attr", "")
            args = list(a.slice.elts) if isinstance(a.slice, ast.Tuple) else [a.slice]
            ts = [self.type_of_annotation(x, module, cls) for x in args]
            if base == "Optional":
                return V.Opt(ts[0])
            if base in ("List", "list"):
                return V.ListT(ts[0])
            if base in ("Dict", "dict"):
                return V.DictT(ts[0], ts[1])
            if base in ("Set", "set", "FrozenSet"):
                return V.SetT(ts[0])
            if base in ("Tuple", "tuple"):
                return V.TupleT(*ts)
            if base in ("Iterator", "Iterable"):
                return Ty("iter", ts[0])
            if base == "AVLTree":
                return Ty("ext", "AVLTree", ts[0], ts[1])
            if base == "Callable":
                return ANY
            if base == "Union":
                return ANY
            return Ty("ext", base)
        if isinstance(a, ast.BinOp) and isinstance(a.op, ast.BitOr):
            l, r = self.type_of_annotation(a.left, module, cls), self.type_of_annotation(a.right, module, cls)
            if r == NONE:
                return V.Opt(l)
            if l == NONE:
                return V.Opt(r)
            return ANY
        return ANY

    def class_type(self, q: str) -> Ty:
        if q == "rp2.rp2_decimal.RP2Decimal":
            return DEC
        c = self.tree.cls(q)
        if c.is_enum:
            return V.Enum(q)
        if c.is_dataclass and c.dataclass_frozen:
            self.rec_sort(q)
            return V.Rec(q)
        if c.is_namedtuple:
            return Ty("ntuple", q)
        return V.Obj(q)

    # ------------------------------------------------------------------ field table
    def field_table(self):
        if self._field_table is None:
            tab: Dict[str, Tuple[ClassInfo, Optional[ast.expr], Optional[ast.expr], FuncInfo]] = {}
            for c in self.tree.classes.values():
                for name, ann in c.class_annots.items():          # class-level declarations `__x: T`
                    tab.setdefault(self.tree.mangle(c.name, name), (c, ann, None, None))
                for f in c.methods.values():
                    for n in ast.walk(f.node):
                        tgt = ann = val = None
                        if isinstance(n, ast.AnnAssign):
                            tgt, ann, val = n.target, n.annotation, n.value
                        elif isinstance(n, ast.Assign) and len(n.targets) == 1:
                            tgt, val = n.targets[0], n.value
                        if isinstance(tgt, ast.Attribute) and isinstance(tgt.value, ast.Name):
                            m = self.tree.mangle(c.name, tgt.attr)
                            old = tab.get(m)
                            if old is None or (old[1] is None and ann is not None) or (old[1] is None and old[2] is None):
                                tab[m] = (c, ann if ann is not None else (old[1] if old else None), val if val is not None else (old[2] if old else None), f)
            self._field_table = tab
        return self._field_table

    def field_type(self, mangled: str) -> Ty:
        if mangled in S.FIELD_TYPE_OVERRIDES:
            return S.FIELD_TYPE_OVERRIDES[mangled]
        if mangled in self._field_types:
            return self._field_types[mangled]
        tab = self.field_table()
        if mangled not in tab:
            raise ExtractionError(f"field {mangled} is not assigned anywhere in the tree")
        c, ann, val, f = tab[mangled]
        if ann is not None:
            t = self.type_of_annotation(ann, c.module, c)
        elif val is not None and f is not None:
            t = self.static_type(val, f)
        else:
            t = ANY
        if t == ANY and mangled not in S.FIELD_TYPE_OVERRIDES:
            self.notes.append(f"field {mangled}: type not inferable, treated as opaque")
        self._field_types[mangled] = t
        return t

    def static_type(self, e: ast.expr, f: FuncInfo) -> Ty:
        """Cheap static type of an initialiser expression (used only for un-annotated fields)."""
        m, c = f.module, f.cls
        if isinstance(e, ast.Constant):
            return {bool: BOOL, int: INT, str: STR, type(None): NONE}.get(type(e.value), ANY)
        if isinstance(e, ast.Name):
            ann = f.annotation(e.id)
            if ann is not None:
                return self.type_of_annotation(ann, m, c)
            for n in ast.walk(f.node):
                if isinstance(n, ast.AnnAssign) and isinstance(n.target, ast.Name) and n.target.id == e.id:
                    return self.type_of_annotation(n.annotation, m, c)
            return ANY
        if isinstance(e, ast.Call):
            fn = e.func
            if isinstance(fn, ast.Name):
                q = self.tree.resolve_name(m, fn.id)
                if q in self.tree.classes:
                    return self.class_type(q)
                if q in self.tree.functions:
                    return self.type_of_annotation(self.tree.functions[q].node.returns, self.tree.functions[q].module)
                if fn.id in ("len", "int"):
                    return INT
                if fn.id == "AVLTree":
                    return Ty("ext", "AVLTree")
                if fn.id == "Lock":
                    return Ty("ext", "Lock")
            if isinstance(fn, ast.Attribute):
                # Class.method(...) / self.method(...) / param.method(...)
                recv = None
                if isinstance(fn.value, ast.Name):
                    q = self.tree.resolve_name(m, fn.value.id)
                    if q in self.tree.classes:
                        recv = q
                    elif fn.value.id in ("self", "cls") and c is not None:
                        recv = c.qualname
                    else:
                        t = self.static_type(fn.value, f)
                        if t.kind == "obj":
                            recv = t.args[0]
                if recv:
                    mi = self.tree.find_method(recv, fn.attr)
                    if mi is not None:
                        return self.type_of_annotation(mi.node.returns, mi.module, mi.cls)
            return ANY
        if isinstance(e, ast.Attribute) and isinstance(e.value, ast.Name) and e.value.id == "self" and c is not None:
            mi = self.tree.find_method(c.qualname, e.attr)
            if mi is not None and mi.is_property:
                return self.type_of_annotation(mi.node.returns, mi.module, mi.cls)
            mangled = self.tree.mangle(c.name, e.attr)
            if mangled in self.field_table() and mangled not in self._static_busy:
                self._static_busy.add(mangled)
                try:
                    return self.field_type(mangled)
                finally:
                    self._static_busy.discard(mangled)
            return ANY
        if isinstance(e, ast.IfExp):
            a, b = self.static_type(e.body, f), self.static_type(e.orelse, f)
            if a == b:
                return a
            if b == NONE:
                return V.Opt(a)
            if a == NONE:
                return V.Opt(b)
            return a if a != ANY else b
        if isinstance(e, ast.List):
            return V.ListT(ANY)
        if isinstance(e, ast.Dict):
            return V.DictT(ANY, ANY)
        if isinstance(e, ast.BinOp):
            return self.static_type(e.left, f)
        return ANY

    def spec_field_name(self, clsq: str, prop: str) -> str:
        """Field behind property `prop` by naming convention (__prop / _prop / prop), searched along the MRO."""
        tab = self.field_table()
        for k in self.tree.cls(clsq).mro:
            if k not in self.tree.classes:
                continue
            c = self.tree.classes[k]
            for cand in ("__" + prop, "_" + prop, prop):
                m = self.tree.mangle(c.name, cand)
                if m in tab and tab[m][0].qualname == k:
                    return m
        raise ExtractionError(f"no field behind property {prop} of {clsq}")

    def spec_field(self, obj: Val, prop: str, hv) -> Val:
        q = obj.ty.args[0]
        m = self.spec_field_name(q, prop)
        g = self.tree.find_method(q, prop)
        if g is not None and g.is_property:
            self.getters_used[(g.cls.qualname, prop)] = m
        return self.read_field(hv.heap, obj, m, None)

    # ------------------------------------------------------------------ heap
    def heap_get(self, heap: dict, key, sort=None) -> z3.ExprRef:
        if key not in heap:
            if sort is None:
                raise OutOfSubset(f"heap key {key} unknown")
            name = "H0_" + "_".join(str(k) for k in (key if isinstance(key, tuple) else (key,)))
            heap[key] = z3.Const(name, sort)
            ax = self.heap_array_wf(key, heap[key])
            if ax is not None and not any(ax.eq(a) for a in self.global_axioms):
                self.global_axioms.append(ax)
        return heap[key]

    @staticmethod
    def heap_array_wf(key, arr):
        """Type invariant of a heap array: collection lengths are non-negative."""
        if key in (("llen",), ("dlen",)):
            r = z3.Const("wf_r", V.Ref)
            return z3.ForAll([r], V.sel(arr, r) >= 0)
        return None

    def sort_by_name(self, name: str) -> z3.SortRef:
        basic = {"Ref": V.Ref, "Int": z3.IntSort(), "Real": z3.RealSort(), "Bool": z3.BoolSort(), V.StrS.name(): V.StrS, V.DT.name(): V.DT, "txid": z3.IntSort()}
        if name in basic:
            return basic[name]
        if name == "glkey":
            if "glkey" not in self.uf_cache:
                self.uf_cache["glkey"] = V.make_datatype("GLKey", [("ev", z3.IntSort()), ("haslot", z3.BoolSort()), ("lot", z3.IntSort())])
            return self.uf_cache["glkey"]
        for q in list(self.tree.classes):
            c = self.tree.classes[q]
            if c.is_enum and q in V.ENUM_SORTS and V.ENUM_SORTS[q][0].name() == name:
                return V.ENUM_SORTS[q][0]
            if c.is_dataclass and c.dataclass_frozen and "R_" + q.replace(".", "_") == name:
                return self.rec_sort(q)[0]
        raise OutOfSubset(f"unknown sort name {name} in a heap key")

    def heap_key_sort(self, key) -> z3.SortRef:
        """Sort of a collection/allocation heap array from its key (so that a frame clause can name an array nobody has touched yet)."""
        kind = key[0]
        A = z3.ArraySort
        if kind == "alloc":
            return z3.IntSort()
        if kind in ("llen", "dlen"):
            return A(V.Ref, z3.IntSort())
        if kind == "lel":
            return A(V.Ref, A(z3.IntSort(), self.sort_by_name(key[1])))
        if kind in ("dhas", "dvaln"):
            return A(V.Ref, A(self.sort_by_name(key[1]), z3.BoolSort()))
        if kind == "dval":
            return A(V.Ref, A(self.sort_by_name(key[1]), self.sort_by_name(key[2])))
        raise OutOfSubset(f"heap key {key} unknown")

    def field_arr(self, heap: dict, mangled: str) -> z3.ExprRef:
        t = self.field_type(mangled)
        return self.heap_get(heap, ("f", mangled), z3.ArraySort(V.Ref, V.sort_of(t)))

    def field_none_arr(self, heap: dict, mangled: str) -> z3.ExprRef:
        return self.heap_get(heap, ("fn", mangled), z3.ArraySort(V.Ref, z3.BoolSort()))

    def read_field(self, heap: dict, obj: Val, mangled: str, st: Optional[State]) -> Val:
        t = self.field_type(mangled)
        if t.kind == "none":
            return V.NONEV
        term = V.sel(self.field_arr(heap, mangled), obj.t)
        if t.kind == "opt":
            return Val(t, term, none=V.sel(self.field_none_arr(heap, mangled), obj.t))
        if t.kind == "tuple" or t.kind == "ntuple":
            raise OutOfSubset(f"tuple-typed field {mangled}")
        return Val(t, term)

    def write_field(self, st: State, obj: Val, mangled: str, v: Val) -> None:
        t = self.field_type(mangled)
        if t.kind == "none":
            return
        v = self.coerce(v, t)
        st.heap[("f", mangled)] = z3.Store(self.field_arr(st.heap, mangled), obj.t, v.t)
        if t.kind == "opt":
            st.heap[("fn", mangled)] = z3.Store(self.field_none_arr(st.heap, mangled), obj.t, v.none)

    # Allocation is modelled with birth times (no quantifiers): every reference has an immutable birth time `born(r)`, the heap carries
    # the integer clock `now`; r is allocated iff born(r) < now.  Allocating takes a reference born exactly now and advances the clock; a
    # callee that may allocate only moves the clock forward.  Freshness/distinctness/monotonicity are then linear integer facts.
    def now(self, heap: dict):
        return self.heap_get(heap, ("alloc",), z3.IntSort())

    def born(self, r):
        return self.uf("born", V.Ref, z3.IntSort())(r)

    def is_alloc(self, heap: dict, r):
        return self.born(r) < self.now(heap)

    def alloc_arr(self, heap: dict):           # kept for old call sites: an object supporting Select-like use is no longer available
        raise OutOfSubset("alloc_arr is gone: use is_alloc(heap, ref)")

    def allocate(self, st: State, ty: Ty, prefix: str = "new", pin_class: bool = True) -> Val:
        r = z3.Const(V.fresh_name(prefix), V.Ref)
        n = self.now(st.heap)
        st.assume(self.born(r) == n)
        st.heap[("alloc",)] = n + 1
        V.ALLOC_CONSTS[r.get_id()] = len(V.ALLOC_CONSTS)
        self._alloc_keepalive = getattr(self, "_alloc_keepalive", []) + [r]
        if ty.kind == "obj" and pin_class:
            st.assume(V.cls_of(r) == self.class_ids[ty.args[0]])
        return Val(ty, r)

    def assume_allocated(self, st: State, v: Val) -> None:
        if v.t is not None and v.t.sort() == V.Ref and v.ty.kind in ("obj", "list", "dict", "set"):
            st.assume(self.is_alloc(st.heap, v.t))

    # ---- collections.  list: ("llen",) Ref->Int, ("lel", sort) Ref->(Int->elem).  dict/set: ("dhas", ksort), ("dval", ksort, vsort)
    def key_term(self, heap: dict, k: Val) -> Tuple[z3.ExprRef, str]:
        """Dictionary/set keys follow the class's __eq__/__hash__: transactions by internal id, GainLoss by the id pair,
        YearlyGainLoss by its 4-field key; everything else by value."""
        k = V.deopt(k)
        if k.ty.kind == "obj":
            q = k.ty.args[0]
            if self.tree.is_subclass(q, self.class_q("AbstractTransaction")):
                idf = self.tree.field("AbstractTransaction.__internal_id")
                return V.sel(self.field_arr(heap, idf), k.t), "txid"
            if q == self.class_q("GainLoss"):
                return self.gl_key(heap, k), "glkey"
        if k.ty.kind == "rec" and k.ty.args[0] == self.class_q("YearlyGainLoss"):
            sort, _ = self.rec_sort(k.ty.args[0])
            return self.ygl_key(k), "yglkey"
        return k.t, V.sort_key(k.t.sort())

    def gl_key(self, heap: dict, g: Val):
        GK = self.sort_by_name("glkey")
        idf = self.tree.field("AbstractTransaction.__internal_id")
        ids = self.field_arr(heap, idf)
        ev = self.read_field(heap, g, self.tree.field("GainLoss.__taxable_event"), None)
        lot = self.read_field(heap, g, self.tree.field("GainLoss.__acquired_lot"), None)
        return GK.mk(V.sel(ids, ev.t), z3.Not(lot.none), z3.If(lot.none, z3.IntVal(0), V.sel(ids, lot.t)))

    def ygl_key(self, y: Val):
        sort, _ = self.rec_sort(y.ty.args[0])
        if "yglkey" not in self.uf_cache:
            self.uf_cache["yglkey"] = V.make_datatype("YGLKey", [("year", z3.IntSort()), ("asset", V.StrS),
                                                                  ("tt", V.sort_of(self.rec_field(y, "transaction_type").ty)), ("lt", z3.BoolSort())])
        K = self.uf_cache["yglkey"]
        return K.mk(sort.year(y.t), sort.asset(y.t), sort.transaction_type(y.t), sort.is_long_term_capital_gains(y.t))

    def coll_len(self, heap: dict, c: Val):
        if c.ty.kind == "list":
            return V.sel(self.heap_get(heap, ("llen",), z3.ArraySort(V.Ref, z3.IntSort())), c.t)
        if c.ty.kind in ("dict", "set"):
            return V.sel(self.heap_get(heap, ("dlen",), z3.ArraySort(V.Ref, z3.IntSort())), c.t)
        raise OutOfSubset(f"len of {c.ty}")

    def list_elem_ty(self, c: Val) -> Ty:
        return c.ty.args[0]

    def list_arr(self, heap: dict, c: Val):
        et = self.list_elem_ty(c)
        s = V.sort_of(et)
        return self.heap_get(heap, ("lel", V.sort_key(s)), z3.ArraySort(V.Ref, z3.ArraySort(z3.IntSort(), s)))

    def list_get(self, heap: dict, c: Val, i) -> Val:
        et = self.list_elem_ty(c)
        if et.kind == "opt":
            raise OutOfSubset("list of Optional")
        return Val(et, V.sel(V.sel(self.list_arr(heap, c), c.t), i))

    def list_append(self, st: State, c: Val, v: Val) -> None:
        et = self.list_elem_ty(c)
        v = self.coerce(v, et)
        n = self.coll_len(st.heap, c)
        arr = self.list_arr(st.heap, c)
        key = ("lel", V.sort_key(V.sort_of(et)))
        st.heap[key] = z3.Store(arr, c.t, z3.Store(V.sel(arr, c.t), n, v.t))
        st.heap[("llen",)] = z3.Store(st.heap[("llen",)], c.t, n + 1)

    def new_list(self, st: State, et: Ty, elems: List[Val]) -> Val:
        c = self.allocate(st, V.ListT(et), "list")
        ll = self.heap_get(st.heap, ("llen",), z3.ArraySort(V.Ref, z3.IntSort()))
        st.heap[("llen",)] = z3.Store(ll, c.t, z3.IntVal(0))
        for e in elems:
            self.list_append(st, c, e)
        return c

    def dict_arrs(self, heap: dict, d: Val, key: Val):
        kt, kname = self.key_term(heap, key)
        has = self.heap_get(heap, ("dhas", kname), z3.ArraySort(V.Ref, z3.ArraySort(kt.sort(), z3.BoolSort())))
        return kt, kname, has

    def dict_has(self, heap: dict, d: Val, key: Val):
        kt, kname, has = self.dict_arrs(heap, d, key)
        return V.sel(V.sel(has, d.t), kt)

    def dict_val_arr(self, heap: dict, d: Val, kt, kname):
        vt = d.ty.args[1]
        vs = V.sort_of(vt)
        return ("dval", kname, V.sort_key(vs)), self.heap_get(heap, ("dval", kname, V.sort_key(vs)), z3.ArraySort(V.Ref, z3.ArraySort(kt.sort(), vs)))

    def dict_get(self, heap: dict, d: Val, key: Val) -> Val:
        kt, kname, has = self.dict_arrs(heap, d, key)
        vt = d.ty.args[1]
        if vt.kind == "opt":
            _, arr = self.dict_val_arr(heap, d, kt, kname)
            nk = ("dvaln", kname)
            narr = self.heap_get(heap, nk, z3.ArraySort(V.Ref, z3.ArraySort(kt.sort(), z3.BoolSort())))
            return Val(vt, V.sel(V.sel(arr, d.t), kt), none=V.sel(V.sel(narr, d.t), kt))
        _, arr = self.dict_val_arr(heap, d, kt, kname)
        return Val(vt, V.sel(V.sel(arr, d.t), kt))

    def dict_set(self, st: State, d: Val, key: Val, v: Val) -> None:
        kt, kname, has = self.dict_arrs(st.heap, d, key)
        vt = d.ty.args[1]
        v = self.coerce(v, vt)
        was = V.sel(V.sel(has, d.t), kt)
        st.heap[("dhas", kname)] = z3.Store(has, d.t, z3.Store(V.sel(has, d.t), kt, True))
        vkey, arr = self.dict_val_arr(st.heap, d, kt, kname)
        st.heap[vkey] = z3.Store(arr, d.t, z3.Store(V.sel(arr, d.t), kt, v.t))
        if vt.kind == "opt":
            nk = ("dvaln", kname)
            narr = self.heap_get(st.heap, nk, z3.ArraySort(V.Ref, z3.ArraySort(kt.sort(), z3.BoolSort())))
            st.heap[nk] = z3.Store(narr, d.t, z3.Store(V.sel(narr, d.t), kt, v.none))
        dl = self.heap_get(st.heap, ("dlen",), z3.ArraySort(V.Ref, z3.IntSort()))
        st.heap[("dlen",)] = z3.Store(dl, d.t, z3.If(was, V.sel(dl, d.t), V.sel(dl, d.t) + 1))

    def dict_del(self, st: State, d: Val, key: Val) -> None:
        kt, kname, has = self.dict_arrs(st.heap, d, key)
        st.heap[("dhas", kname)] = z3.Store(has, d.t, z3.Store(V.sel(has, d.t), kt, False))
        dl = self.heap_get(st.heap, ("dlen",), z3.ArraySort(V.Ref, z3.IntSort()))
        st.heap[("dlen",)] = z3.Store(dl, d.t, V.sel(dl, d.t) - 1)

    def new_dict(self, st: State, ty: Ty) -> Val:
        d = self.allocate(st, ty, "dict" if ty.kind == "dict" else "set")
        dl = self.heap_get(st.heap, ("dlen",), z3.ArraySort(V.Ref, z3.IntSort()))
        st.heap[("dlen",)] = z3.Store(dl, d.t, z3.IntVal(0))
        # emptiness of the `has` array for this ref is asserted lazily per key sort (see empty_coll)
        st.env.setdefault("$empty", Val(ANY, None, items=[]))
        st.env["$empty"] = Val(ANY, None, items=list(st.env["$empty"].items) + [d.t])
        return d

    def empty_facts(self, st: State, d: Val, kname: str, ksort) -> None:
        pass

    # dict emptiness: a fresh dict has no keys.  Encoded by initialising `has[d]` to the constant-false array when the key sort is known;
    # since the key sort is only known at first use, `dict_has_init` is called by new_dict_typed.
    def new_dict_typed(self, st: State, ty: Ty, ksample: Optional[Val] = None) -> Val:
        d = self.new_dict(st, ty)
        kt_ty = ty.args[0]
        try:
            ks = None
            if ksample is not None:
                kt, kname = self.key_term(st.heap, ksample)
                ks = kt.sort()
            elif kt_ty.kind not in ("any",):
                probe = V.fresh(kt_ty, "kprobe") if kt_ty.kind != "obj" else Val(kt_ty, z3.Const(V.fresh_name("kprobe"), V.Ref))
                kt, kname = self.key_term(st.heap, probe)
                ks = kt.sort()
            if ks is not None:
                has = self.heap_get(st.heap, ("dhas", kname), z3.ArraySort(V.Ref, z3.ArraySort(ks, z3.BoolSort())))
                st.heap[("dhas", kname)] = z3.Store(has, d.t, z3.K(ks, z3.BoolVal(False)))
        except (OutOfSubset, ExtractionError, KeyError):
            pass
        return d

    # ------------------------------------------------------------------ coercion between static types
    def coerce(self, v: Val, t: Ty) -> Val:
        if v.ty == t or t.kind == "any":
            return v
        if t.kind == "opt":
            inner = t.args[0]
            if v.ty.kind == "none":
                return V.to_opt(v, t)
            if v.ty.kind == "opt":
                return Val(t, self.coerce(V.deopt(v), inner).t, none=v.none)
            return Val(t, self.coerce(v, inner).t, none=z3.BoolVal(False))
        if v.ty.kind == "opt" and t.kind != "opt":
            return self.coerce(V.deopt(v), t)
        if v.ty.kind == "any":
            if V.sort_of(t) == V.Ref:
                return Val(t, v.t)
            return Val(t, self.any_unbox(v.t, t))
        if t.kind in ("dec", "float") and v.ty.kind in ("dec", "float"):
            return Val(t, v.t)
        if t.kind in ("dec", "float") and v.ty.kind == "int":
            return Val(t, z3.ToReal(v.t))
        if t.kind == "obj" and v.ty.kind == "obj":
            return Val(t, v.t)
        if t.kind in ("list", "dict", "set", "ext", "iter") and v.ty.kind in ("list", "dict", "set", "ext", "iter"):
            return Val(t if (t.args and all(a != ANY for a in t.args)) else v.ty, v.t)
        if t.kind == "int" and v.ty.kind == "bool":
            return Val(INT, z3.If(v.t, 1, 0))
        if V.sort_of(t) == V.Ref and v.t is not None and v.t.sort() != V.Ref:
            return Val(t, self.any_box(v))
        if v.t is not None and V.sort_of(t) == v.t.sort():
            return Val(t, v.t)
        raise OutOfSubset(f"cannot coerce {v.ty} to {t}")

    def any_box(self, v: Val):
        name = "box_" + V.sort_key(v.t.sort())
        if name not in self.uf_cache:
            self.uf_cache[name] = z3.Function(name, v.t.sort(), V.Ref)
            self.uf_cache["un" + name] = z3.Function("un" + name, V.Ref, v.t.sort())
        x = z3.Const("bx", v.t.sort())
        ax = z3.ForAll([x], self.uf_cache["un" + name](self.uf_cache[name](x)) == x)
        if not any(ax.eq(a) for a in self.global_axioms):
            self.global_axioms.append(ax)
        return self.uf_cache[name](v.t)

    def any_unbox(self, t, ty: Ty):
        s = V.sort_of(ty)
        name = "box_" + V.sort_key(s)
        if name not in self.uf_cache:
            self.uf_cache[name] = z3.Function(name, s, V.Ref)
            self.uf_cache["un" + name] = z3.Function("un" + name, V.Ref, s)
        return self.uf_cache["un" + name](t)

    def uf(self, name: str, *sorts) -> z3.FuncDeclRef:
        if name not in self.uf_cache:
            self.uf_cache[name] = z3.Function(name, *sorts)
        return self.uf_cache[name]

    # ------------------------------------------------------------------ class tests
    def is_abstract_class(self, q: str) -> bool:
        """A class one of whose methods resolves to an abstract stub (`raise NotImplementedError(...)`): never instantiated (checked: A-ABSTRACT)."""
        if q not in self._abstract:
            c = self.tree.cls(q)
            names = set()
            for k in c.mro:
                if k in self.tree.classes:
                    names |= set(self.tree.classes[k].methods)
            res = False
            for n in names:
                f = self.tree.find_method(q, n)
                if f is not None and self.is_abstract_stub(f):
                    res = True
                    break
            self._abstract[q] = res
        return self._abstract[q]

    def isinstance_term(self, v: Val, clsq: str):
        ids = [self.class_ids[k] for k in self.tree.subclasses(clsq) if not self.is_abstract_class(k)]
        return z3.Or(*[V.cls_of(v.t) == i for i in ids]) if ids else z3.BoolVal(False)

    def class_domain(self, v: Val):
        """A-ANNOT: the dynamic class of a value is a concrete subclass of its static type."""
        q = v.ty.args[0]
        return self.isinstance_term(v, q)

    # ------------------------------------------------------------------ VC emission / feasibility
    def vc(self, st: State, goal, kind: str, label: str, node: Optional[ast.AST] = None, fr: Optional[Frame] = None, note: str = "") -> None:
        if not self.emit:
            return
        if isinstance(goal, bool):
            goal = z3.BoolVal(goal)
        if z3.is_true(goal):
            return
        loc = ""
        if node is not None and fr is not None:
            loc = f"{fr.module.relpath}:{getattr(node, 'lineno', 0)}"
        # a conjunctive clause is discharged conjunct by conjunct (smaller, more stable queries; the obligation keeps its name)
        parts = goal.children() if z3.is_and(goal) and 1 < goal.num_args() <= 12 else [goal]
        for g in parts:
            if z3.is_true(g):
                continue
            self.path_counter += 1
            self.vcs.append(VC(self.cur_func, kind, label, list(st.pc), g, loc, self.path_counter, note))

    # feasibility / entailment queries share one incremental solver whose assertion stack mirrors a path-condition prefix
    def _sync(self, pc: List) -> None:
        nl = len(V.STR_LITS) + (10000 if V.CASE_USED[0] else 0) + 100000 * len(self.global_axioms)
        if getattr(self, "_feas_lits", None) != nl:
            self._feas = z3.Solver()
            self._feas.set("rlimit", 60000)
            # pruning only: quantified axioms are left out (fewer prunings, never an unsound one)
            self._feas.add(*[a for a in V.str_axioms() if not z3.is_quantifier(a)])
            self._feas.add(*[a for a in self.global_axioms if not z3.is_quantifier(a)])
            self._feas_stack = []
            self._feas_lits = nl
        stack = self._feas_stack
        i = 0
        n = min(len(stack), len(pc))
        while i < n and stack[i] is pc[i]:
            i += 1
        while len(stack) > i:
            self._feas.pop()
            stack.pop()
        for p in pc[i:]:
            self._feas.push()
            self._feas.add(p)
            stack.append(p)

    def feasible(self, st: State) -> bool:
        if any(z3.is_false(p) for p in st.pc):
            return False
        self._sync(st.pc)
        return self._feas.check() != z3.unsat

    def entails(self, st: State, b) -> bool:
        """Cheap check pc |= b (used only to prune, never to discharge an obligation)."""
        b = z3.simplify(b)
        if z3.is_true(b):
            return True
        if z3.is_false(b):
            return False
        self._sync(st.pc)
        self._feas.push()
        try:
            self._feas.add(z3.Not(b))
            return self._feas.check() == z3.unsat
        finally:
            self._feas.pop()
