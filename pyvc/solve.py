"""Discharge VCs: z3 (resource-limited) first, cvc5 for what z3 leaves unknown; 16-process pool over SMT-LIB text."""
from __future__ import annotations

import multiprocessing as mp
import os
import subprocess
import tempfile
import time
import z3
from typing import Dict, List, Optional, Tuple

from . import vals as V
from .base import VC

Z3_RLIMIT_QUICK = 40_000_000      # resource units, not wall clock: verdicts do not flip under load
Z3_RLIMIT_THOROUGH = 400_000_000
WALL_CAP_S = 120                  # safety net only


_SYM_CACHE: Dict[int, frozenset] = {}


def symbols(e) -> frozenset:
    """Names of the uninterpreted constants/functions occurring in a term."""
    key = e.get_id()
    if key in _SYM_CACHE:
        return _SYM_CACHE[key]
    out = set()
    seen = set()
    todo = [e]
    while todo:
        x = todo.pop()
        i = x.get_id()
        if i in seen:
            continue
        seen.add(i)
        if z3.is_quantifier(x):
            todo.append(x.body())
            continue
        if z3.is_app(x):
            if x.decl().kind() == z3.Z3_OP_UNINTERPRETED:
                out.add(x.decl().name())
            todo.extend(x.children())
    r = frozenset(out)
    _SYM_CACHE[key] = r
    return r


def relevant_axioms(vc: VC, axioms: List[z3.BoolRef]) -> List[z3.BoolRef]:
    """An axiom is a fact about particular symbols (an initial heap array, a boxing function, string literals ...): it can only matter
    to a VC that mentions one of them.  Leaving the others out keeps quantifiers away from the arithmetic-only obligations."""
    used = set()
    for p in vc.pc:
        used |= symbols(p)
    used |= symbols(vc.goal)
    out = []
    changed = True
    pending = list(axioms)
    while changed:
        changed = False
        rest = []
        for a in pending:
            sa = symbols(a)
            if not sa or (sa & used):
                out.append(a)
                if not sa <= used:
                    used |= sa
                    changed = True
            else:
                rest.append(a)
        pending = rest
    return out


def _is_frame_fact(p) -> bool:
    """Quantified frame / well-formedness facts the engine emits for havocked heap arrays (`forall r. kept(r) => new[r] == old[r]`,
    allocation monotonicity, non-negative lengths).  For a `new` array nothing else mentions they are satisfiable whatever the other symbols
    are, so dropping them loses no information."""
    return z3.is_quantifier(p) and p.is_forall() and p.num_vars() == 1 and p.var_name(0) in ("fo_r", "al_r", "wf_r")


def prune_hypotheses(pc: List[z3.BoolRef], goal) -> List[z3.BoolRef]:
    """Drops frame facts about heap arrays that nothing else mentions (not the goal, not any other remaining hypothesis), repeatedly:
    chains of `new == old except at ...` for arrays the obligation never looks at, which otherwise swamp quantifier instantiation.
    Dropping a hypothesis can only make a VC harder to discharge, never unsound."""
    syms = [symbols(p) for p in pc]
    gsym = symbols(goal)
    alive = [True] * len(pc)
    count: Dict[str, int] = {}
    for ss in syms:
        for x in ss:
            count[x] = count.get(x, 0) + 1
    changed = True
    while changed:
        changed = False
        for i, ss in enumerate(syms):
            if not alive[i]:
                continue
            if _is_frame_fact(pc[i]) and any(count[x] == 1 and x not in gsym for x in ss):
                alive[i] = False
                changed = True
                for x in ss:
                    count[x] -= 1
    return [p for p, a in zip(pc, alive) if a]


def vc_to_smt2(vc: VC, axioms: List[z3.BoolRef], pc: Optional[List] = None) -> str:
    s = z3.Solver()
    for a in relevant_axioms(vc, axioms):
        s.add(a)
    for p in (pc if pc is not None else (prune_hypotheses(vc.pc, vc.goal) if os.environ.get("VERIF_NO_PRUNE") != "1" else vc.pc)):
        s.add(p)
    s.add(z3.Not(vc.goal))
    return s.to_smt2()


def hypothesis_subsets(vc: VC) -> List[List]:
    """Smaller hypothesis sets to try first: the function's preconditions/definitions (head of the path condition) plus the k most recent facts."""
    pc = prune_hypotheses(vc.pc, vc.goal)
    n = len(pc)
    if n < 60:
        return []
    head = pc[:min(40, n // 4)]
    out = []
    for k in (12, 45, 110):
        if k + len(head) < n - 10:
            out.append(head + pc[n - k:])
    return out


def _solve_text(job) -> Tuple[int, str, str, float]:
    idx, text, rlimit, use_cvc5 = job[:4]
    subsets = job[4] if len(job) > 4 else []
    t0 = time.time()
    try:
        # hypothesis subsets first (most recent facts + the function's preconditions): `unsat` from fewer hypotheses is a proof of the
        # full obligation (monotonicity) and usually comes in milliseconds where the full path condition drowns quantifier instantiation
        for sub in subsets:
            ctx = z3.Context()
            s = z3.Solver(ctx=ctx)
            s.set("rlimit", max(rlimit // 8, 2_000_000))
            s.set("timeout", 20 * 1000)
            s.from_string(sub)
            if str(s.check()) == "unsat":
                return idx, "unsat", "z3", time.time() - t0
        ctx = z3.Context()
        s = z3.Solver(ctx=ctx)
        s.set("rlimit", rlimit)
        s.set("timeout", WALL_CAP_S * 1000)
        s.from_string(text)
        r = str(s.check())
        backend = "z3"
        if r == "unknown" and use_cvc5:
            r2 = _cvc5(text)
            if r2 in ("sat", "unsat"):
                r, backend = r2, "cvc5"
        return idx, r, backend, time.time() - t0
    except z3.Z3Exception as exc:          # engine problem, never a verdict
        return idx, f"error:{exc}", "z3", time.time() - t0


def _cvc5(text: str) -> str:
    exe = "/usr/bin/cvc5"
    if not os.path.exists(exe):
        return "unknown"
    with tempfile.NamedTemporaryFile("w", suffix=".smt2", delete=False) as f:
        f.write(text.replace("(check-sat)", "") + "\n(check-sat)\n")
        path = f.name
    try:
        p = subprocess.run([exe, "--lang=smt2", "--tlimit=60000", "--strings-exp", path], capture_output=True, text=True, timeout=90)
        out = p.stdout.strip().splitlines()
        return out[0] if out and out[0] in ("sat", "unsat") else "unknown"
    except (subprocess.TimeoutExpired, OSError):
        return "unknown"
    finally:
        os.unlink(path)


class Result:
    __slots__ = ("vc", "status", "backend", "time", "model")

    def __init__(self, vc: VC, status: str, backend: str, t: float) -> None:
        self.vc, self.status, self.backend, self.time = vc, status, backend, t
        self.model = None


_POOL: Optional[mp.pool.Pool] = None


def pool() -> mp.pool.Pool:
    global _POOL
    if _POOL is None:
        n = int(os.environ.get("VERIF_JOBS", "0")) or min(16, os.cpu_count() or 4)
        _POOL = mp.get_context("fork").Pool(n)
        import atexit
        atexit.register(_shutdown_pool)
    return _POOL


def _shutdown_pool() -> None:
    global _POOL
    if _POOL is not None:
        try:
            _POOL.terminate()
            _POOL.join()
        except Exception:
            pass
        _POOL = None


def solve_all(vcs: List[VC], axioms: List[z3.BoolRef], thorough: bool = False, parallel: bool = True, light_from: Optional[int] = None) -> List[Result]:
    """`light_from`: VCs from this index on are must-not-verify canaries: a small budget suffices (they only have to stay unproved)."""
    rl = Z3_RLIMIT_THOROUGH if thorough else Z3_RLIMIT_QUICK
    ax = list(axioms) + V.str_axioms()
    jobs = []
    for i, vc in enumerate(vcs):
        light = light_from is not None and i >= light_from
        jobs.append((i, vc_to_smt2(vc, ax), rl // 10 if light else rl, not light, [] if light else [vc_to_smt2(vc, ax, sub) for sub in hypothesis_subsets(vc)]))
    if parallel and len(jobs) > 4:
        raw = pool().map(_solve_text, jobs, chunksize=max(1, len(jobs) // 64))
    else:
        raw = [_solve_text(j) for j in jobs]
    out = []
    for idx, r, backend, t in raw:
        out.append(Result(vcs[idx], r, backend, t))
    return out


def model_for(vc: VC, axioms: List[z3.BoolRef], timeout_ms: int = 20000) -> Optional[z3.ModelRef]:
    """Re-solve a refuted VC in-process to obtain a model (used by the replay step)."""
    s = z3.Solver()
    s.set("timeout", timeout_ms)
    for a in relevant_axioms(vc, list(axioms) + V.str_axioms()):
        s.add(a)
    for p in vc.pc:
        s.add(p)
    s.add(z3.Not(vc.goal))
    if s.check() == z3.sat:
        return s.model()
    return None
