"""Mechanical extraction of the verified text from the *current* source tree of rp2.

Nothing is cached between runs and rp2 is never imported here: every run re-parses
`<repo>/src/rp2/**/*.py` with `ast` and builds

  * a module table   (top-level functions, module constants, import aliases),
  * a class table    (bases -> C3 MRO, methods, properties, class-body assignments,
                      Enum members, NamedTuple / dataclass field lists),

keyed by *qualified* names (`rp2.plugin.accounting_method.hifo.AccountingMethod`), because the
tree re-uses simple class names (4x AccountingMethod, 5x Generator).

What the extraction drops is applied later by the executor (see DESIGN.md 4.1): annotations are
used for typing only, docstrings/comments vanish with `ast`, logger calls have no effect.
"""
from __future__ import annotations

import ast
import hashlib
import os
from dataclasses import dataclass, field
from typing import Dict, List, Optional, Tuple


class ExtractionError(Exception):
    """The source left the shape the sidecar refers to (renamed function, missing class...).
    Always maps to *undecided*, never to a violation."""


@dataclass
class FuncInfo:
    qualname: str            # rp2.gain_loss.GainLoss.fiat_cost_basis  /  rp2.tax_engine.compute_tax
    name: str
    node: ast.FunctionDef
    module: "ModuleInfo"
    cls: Optional["ClassInfo"] = None
    is_property: bool = False
    is_classmethod: bool = False
    is_staticmethod: bool = False
    decorators: List[str] = field(default_factory=list)

    @property
    def params(self) -> List[str]:
        a = self.node.args
        return [x.arg for x in a.posonlyargs + a.args]

    @property
    def kwonly(self) -> List[str]:
        return [x.arg for x in self.node.args.kwonlyargs]

    def annotation(self, param: str) -> Optional[ast.expr]:
        a = self.node.args
        for x in a.posonlyargs + a.args + a.kwonlyargs:
            if x.arg == param:
                return x.annotation
        return None

    def defaults(self) -> Dict[str, ast.expr]:
        a = self.node.args
        pos = a.posonlyargs + a.args
        out: Dict[str, ast.expr] = {}
        for p, d in zip(pos[len(pos) - len(a.defaults):], a.defaults):
            out[p.arg] = d
        for p, d in zip(a.kwonlyargs, a.kw_defaults):
            if d is not None:
                out[p.arg] = d
        return out

    def source_sha1(self) -> str:
        seg = ast.get_source_segment(self.module.text, self.node) or ast.dump(self.node)
        return hashlib.sha1(seg.encode()).hexdigest()

    def loc(self) -> str:
        return f"{self.module.relpath}:{self.node.lineno}"


@dataclass
class ClassInfo:
    qualname: str
    name: str
    node: ast.ClassDef
    module: "ModuleInfo"
    base_exprs: List[ast.expr]
    bases: List[str] = field(default_factory=list)       # resolved qualified names (rp2 classes) or builtin names
    methods: Dict[str, FuncInfo] = field(default_factory=dict)
    class_assigns: Dict[str, ast.expr] = field(default_factory=dict)   # NAME = expr in the class body
    class_annots: Dict[str, ast.expr] = field(default_factory=dict)    # NAME: T [= expr]
    class_body_stmts: List[ast.stmt] = field(default_factory=list)     # other statements in the class body
    enum_members: List[Tuple[str, object]] = field(default_factory=list)
    is_enum: bool = False
    is_namedtuple: bool = False
    is_dataclass: bool = False
    dataclass_frozen: bool = False
    fields: List[Tuple[str, ast.expr]] = field(default_factory=list)   # NamedTuple / dataclass fields (name, annotation)
    mro: List[str] = field(default_factory=list)


@dataclass
class ModuleInfo:
    name: str               # rp2.gain_loss
    path: str
    relpath: str
    text: str
    tree: ast.Module
    functions: Dict[str, FuncInfo] = field(default_factory=dict)
    classes: Dict[str, ClassInfo] = field(default_factory=dict)
    assigns: Dict[str, ast.expr] = field(default_factory=dict)        # module-level NAME = expr (last one wins)
    annots: Dict[str, ast.expr] = field(default_factory=dict)
    imports: Dict[str, str] = field(default_factory=dict)             # local alias -> qualified name ("rp2.rp2_decimal.ZERO", "heapq.heappush", "ezodf")


BUILTIN_EXC_BASES = {
    "BaseException": [],
    "Exception": ["BaseException"],
    "StopIteration": ["Exception"],
    "ArithmeticError": ["Exception"],
    "ZeroDivisionError": ["ArithmeticError"],
    "LookupError": ["Exception"],
    "KeyError": ["LookupError"],
    "IndexError": ["LookupError"],
    "ValueError": ["Exception"],
    "TypeError": ["Exception"],
    "AttributeError": ["Exception"],
    "RuntimeError": ["Exception"],
    "NotImplementedError": ["RuntimeError"],
    "ImportError": ["Exception"],
    "ModuleNotFoundError": ["ImportError"],
    "OSError": ["Exception"],
    "InvalidOperation": ["ArithmeticError"],     # decimal.InvalidOperation
    "DivisionByZero": ["ZeroDivisionError"],     # decimal.DivisionByZero
    "SystemExit": ["BaseException"],
    "AssertionError": ["Exception"],
    "JSONDecodeError": ["ValueError"],
}


def _dec_name(d: ast.expr) -> str:
    if isinstance(d, ast.Call):
        d = d.func
    if isinstance(d, ast.Name):
        return d.id
    if isinstance(d, ast.Attribute):
        return d.attr
    return ""


class SourceTree:
    def __init__(self, repo: str = "/repo") -> None:
        self.repo = os.path.abspath(repo)
        self.src = os.path.join(self.repo, "src")
        self.modules: Dict[str, ModuleInfo] = {}
        self.classes: Dict[str, ClassInfo] = {}
        self.functions: Dict[str, FuncInfo] = {}
        self._load()

    # ------------------------------------------------------------------ loading
    def _load(self) -> None:
        root = os.path.join(self.src, "rp2")
        if not os.path.isdir(root):
            raise ExtractionError(f"no rp2 package under {self.src}")
        for dirpath, dirnames, filenames in os.walk(root):
            dirnames.sort()
            for fn in sorted(filenames):
                if not fn.endswith(".py"):
                    continue
                path = os.path.join(dirpath, fn)
                rel = os.path.relpath(path, self.src)
                modname = rel[:-3].replace(os.sep, ".")
                if modname.endswith(".__init__"):
                    modname = modname[: -len(".__init__")]
                with open(path, encoding="utf-8") as f:
                    text = f.read()
                try:
                    tree = ast.parse(text, filename=path)
                except SyntaxError as exc:  # a tree that does not compile is not a verdict on a property
                    raise ExtractionError(f"syntax error in {rel}: {exc}") from exc
                self.modules[modname] = ModuleInfo(modname, path, os.path.relpath(path, self.repo), text, tree)
        for m in self.modules.values():
            self._scan_module(m)
        for c in self.classes.values():
            c.bases = [self._resolve_base(c, b) for b in c.base_exprs]
        for c in self.classes.values():
            c.mro = self._c3(c.qualname)
            self._classify(c)

    def _scan_module(self, m: ModuleInfo) -> None:
        for n in m.tree.body:
            if isinstance(n, ast.ImportFrom) and n.module:
                for a in n.names:
                    m.imports[a.asname or a.name] = f"{n.module}.{a.name}"
            elif isinstance(n, ast.Import):
                for a in n.names:
                    m.imports[a.asname or a.name.split(".")[0]] = a.name if a.asname else a.name.split(".")[0]
            elif isinstance(n, ast.FunctionDef):
                fi = FuncInfo(f"{m.name}.{n.name}", n.name, n, m, decorators=[_dec_name(d) for d in n.decorator_list])
                m.functions[n.name] = fi
                self.functions[fi.qualname] = fi
            elif isinstance(n, ast.ClassDef):
                ci = ClassInfo(f"{m.name}.{n.name}", n.name, n, m, list(n.bases))
                for d in n.decorator_list:
                    if _dec_name(d) == "dataclass":
                        ci.is_dataclass = True
                        if isinstance(d, ast.Call):
                            for kw in d.keywords:
                                if kw.arg == "frozen" and isinstance(kw.value, ast.Constant):
                                    ci.dataclass_frozen = bool(kw.value.value)
                for b in n.body:
                    if isinstance(b, ast.FunctionDef):
                        decs = [_dec_name(d) for d in b.decorator_list]
                        fi = FuncInfo(f"{ci.qualname}.{b.name}", b.name, b, m, ci,
                                      is_property="property" in decs, is_classmethod="classmethod" in decs,
                                      is_staticmethod="staticmethod" in decs, decorators=decs)
                        if "setter" in decs:
                            continue
                        ci.methods[b.name] = fi
                        self.functions[fi.qualname] = fi
                    elif isinstance(b, ast.Assign) and len(b.targets) == 1 and isinstance(b.targets[0], ast.Name):
                        ci.class_assigns[b.targets[0].id] = b.value
                    elif isinstance(b, ast.AnnAssign) and isinstance(b.target, ast.Name):
                        ci.class_annots[b.target.id] = b.annotation
                        if b.value is not None:
                            ci.class_assigns[b.target.id] = b.value
                    elif isinstance(b, ast.Expr) and isinstance(b.value, ast.Constant):
                        pass  # docstring
                    elif isinstance(b, ast.Pass):
                        pass
                    else:
                        ci.class_body_stmts.append(b)
                m.classes[n.name] = ci
                self.classes[ci.qualname] = ci
            elif isinstance(n, ast.Assign) and len(n.targets) == 1 and isinstance(n.targets[0], ast.Name):
                m.assigns[n.targets[0].id] = n.value
            elif isinstance(n, ast.AnnAssign) and isinstance(n.target, ast.Name):
                m.annots[n.target.id] = n.annotation
                if n.value is not None:
                    m.assigns[n.target.id] = n.value

    def _resolve_base(self, c: ClassInfo, b: ast.expr) -> str:
        if isinstance(b, ast.Subscript):      # Iterable[AbstractEntry], Iterator[...]
            b = b.value
        if isinstance(b, ast.Name):
            q = self.resolve_name(c.module, b.id)
            if q in self.classes:
                return q
            return b.id
        if isinstance(b, ast.Attribute):
            return b.attr
        return "object"

    def resolve_name(self, m: ModuleInfo, name: str) -> str:
        """Qualified name a bare identifier in module `m` refers to (module-level scope only)."""
        if name in m.classes:
            return m.classes[name].qualname
        if name in m.functions:
            return m.functions[name].qualname
        if name in m.assigns or name in m.annots:
            return f"{m.name}.{name}"
        if name in m.imports:
            q = m.imports[name]
            # follow re-exports inside rp2 one level (from rp2.x import Y where Y itself imported)
            mod, _, leaf = q.rpartition(".")
            seen = 0
            while mod in self.modules and seen < 4:
                mm = self.modules[mod]
                if leaf in mm.classes or leaf in mm.functions or leaf in mm.assigns or leaf in mm.annots:
                    return f"{mod}.{leaf}"
                if leaf in mm.imports:
                    q = mm.imports[leaf]
                    mod, _, leaf = q.rpartition(".")
                    seen += 1
                    continue
                break
            return q
        return name

    def _c3(self, q: str) -> List[str]:
        c = self.classes[q]
        seqs = []
        for b in c.bases:
            if b in self.classes:
                seqs.append(list(self._c3(b)))
            else:
                seqs.append([b] + self._builtin_mro(b))
        seqs.append(list(c.bases))
        res = [q]
        seqs = [s for s in seqs if s]
        while seqs:
            for s in seqs:
                h = s[0]
                if not any(h in t[1:] for t in seqs):
                    break
            else:
                raise ExtractionError(f"inconsistent MRO for {q}")
            res.append(h)
            seqs = [[x for x in s if x != h] for s in seqs]
            seqs = [s for s in seqs if s]
        return res

    @staticmethod
    def _builtin_mro(b: str) -> List[str]:
        out: List[str] = []
        cur = b
        while cur in BUILTIN_EXC_BASES and BUILTIN_EXC_BASES[cur]:
            cur = BUILTIN_EXC_BASES[cur][0]
            out.append(cur)
        return out

    def _classify(self, c: ClassInfo) -> None:
        names = set(c.mro)
        if "Enum" in names:
            c.is_enum = True
            for b in c.node.body:
                if isinstance(b, ast.Assign) and len(b.targets) == 1 and isinstance(b.targets[0], ast.Name) and isinstance(b.value, ast.Constant):
                    c.enum_members.append((b.targets[0].id, b.value.value))
        if "NamedTuple" in names:
            c.is_namedtuple = True
        if c.is_namedtuple or c.is_dataclass:
            for b in c.node.body:
                if isinstance(b, ast.AnnAssign) and isinstance(b.target, ast.Name):
                    c.fields.append((b.target.id, b.annotation))

    # ------------------------------------------------------------------ queries
    def cls(self, q: str) -> ClassInfo:
        if q not in self.classes:
            raise ExtractionError(f"class {q} not found in the tree")
        return self.classes[q]

    def func(self, q: str) -> FuncInfo:
        if q not in self.functions:
            raise ExtractionError(f"function {q} not found in the tree")
        return self.functions[q]

    def find_method(self, clsq: str, name: str) -> Optional[FuncInfo]:
        for k in self.cls(clsq).mro:
            if k in self.classes and name in self.classes[k].methods:
                return self.classes[k].methods[name]
        return None

    def find_class_attr(self, clsq: str, name: str) -> Optional[Tuple[ClassInfo, ast.expr]]:
        for k in self.cls(clsq).mro:
            if k in self.classes and name in self.classes[k].class_assigns:
                return self.classes[k], self.classes[k].class_assigns[name]
        return None

    def is_subclass(self, a: str, b: str) -> bool:
        """a <: b, for rp2 classes and builtin exception names."""
        if a == b:
            return True
        if a in self.classes:
            return b in self.classes[a].mro
        return b in self._builtin_mro(a)

    def subclasses(self, q: str) -> List[str]:
        return sorted(k for k, c in self.classes.items() if q in c.mro)

    def concrete_subclasses_with(self, q: str, method: str) -> List[str]:
        """Subclasses of q whose resolved `method` is not the abstract stub (`raise NotImplementedError`)."""
        out = []
        for k in self.subclasses(q):
            f = self.find_method(k, method)
            if f is None:
                continue
            body = [s for s in f.node.body if not (isinstance(s, ast.Expr) and isinstance(s.value, ast.Constant))]
            if len(body) == 1 and isinstance(body[0], ast.Raise) and isinstance(body[0].exc, ast.Call) and \
                    isinstance(body[0].exc.func, ast.Name) and body[0].exc.func.id == "NotImplementedError":
                continue
            out.append(k)
        return out

    @staticmethod
    def mangle(cls_simple_name: str, attr: str) -> str:
        if attr.startswith("__") and not attr.endswith("__"):
            return f"_{cls_simple_name.lstrip('_')}{attr}"
        return attr

    def field(self, spec: str) -> str:
        """'InTransaction.__crypto_in' -> '_InTransaction__crypto_in' (checks the class exists)."""
        cname, attr = spec.split(".", 1)
        if not any(c.name == cname for c in self.classes.values()):
            raise ExtractionError(f"class {cname} (for field {spec}) not found")
        return self.mangle(cname, attr)
