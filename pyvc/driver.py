"""Per-property driver: generate VCs from the current tree, discharge, replay refutations, write evidence, set the exit code.

Exit codes (DESIGN.md 6.3): 0 held (or only undecided with clean bounded fallback / only known findings), 1 violation, 3 engine fault.
"""
from __future__ import annotations

import importlib
import json
import os
import sys
import time
import traceback
import z3
from typing import Callable, Dict, List, Optional, Tuple

from . import spec as S
from . import vals as V
from .base import VC, OutOfSubset
from .source import SourceTree, ExtractionError
from .symex import Exec
from . import solve

VERIF = os.path.dirname(os.path.dirname(os.path.abspath(__file__)))


class Item:
    """One unit of work of a property: verify a function against its contract, a lemma, a canary, or a custom generator."""
    def __init__(self, kind: str, name: str, **kw) -> None:
        self.kind, self.name, self.kw = kind, name, kw


def fn(qual: str, **kw) -> Item: return Item("fn", qual, **kw)
def lemma(name: str, **kw) -> Item: return Item("lemma", name, **kw)
def custom(name: str, gen: Callable, **kw) -> Item: return Item("custom", name, gen=gen, **kw)


class PropertyRun:
    def __init__(self, pid: str, tier: str, repo: str, seed: int) -> None:
        self.pid, self.tier, self.repo, self.seed = pid, tier, repo, seed
        self.t0 = time.time()
        self.tree = SourceTree(repo)
        self.ex = Exec(self.tree)
        self.vcs: List[VC] = []
        self.undecided: List[Dict] = []
        self.functions: Dict[str, str] = {}
        self.canary_results: List[Dict] = []
        self.vacuity: Dict[str, bool] = {}
        self.engine_faults: List[str] = []
        self.bounded: List[Dict] = []
        self.assumptions: List[str] = []
        self.extra: Dict = {}
        self.canaries_verified: List[str] = []
        self.canaries_empty: List[str] = []

    # ------------------------------------------------------------------ VC generation
    def gen_fn(self, qual: str, label: Optional[str] = None, canary: bool = False) -> List[VC]:
        try:
            fi = self.tree.func(qual)
            n_contra = len(self.ex.contradictory_contracts)
            vcs = self.ex.verify(qual, label)
            if not canary:
                for c in self.ex.contradictory_contracts[n_contra:]:
                    self.engine_faults.append(f"contract contradicts its frame at a call site (postconditions assumed into an infeasible state): {c}")
                self.functions[qual] = fi.source_sha1()
                self.vacuity[qual] = bool(self.ex.vacuity)
                if not self.ex.vacuity:
                    self.engine_faults.append(f"vacuous precondition for {qual}")
                k = S.CONTRACTS.get(qual)
                if k is not None and k.ensures_ and getattr(self.ex, "n_normal_paths", 1) == 0 and not getattr(k, "never_returns", False):
                    # a contract with postconditions whose body never returns normally in the encoding: the postconditions would hold vacuously
                    self.engine_faults.append(f"no normal path through {qual}: its postconditions would be vacuous")
            return vcs
        except (OutOfSubset, ExtractionError, AttributeError, TypeError, KeyError, IndexError, AssertionError, z3.Z3Exception) as exc:
            # besides the declared subset exits, any failure of the executor on this function's text is 'the code left what pyvc can
            # process': undecided (the bounded native stand-in decides), never a verdict and never a crash of the whole check
            if not isinstance(exc, (OutOfSubset, ExtractionError)):
                exc = OutOfSubset(f"executor could not process the function ({type(exc).__name__}: {exc})")
            if canary:
                return []
            # obligations generated before the unsupported construct was reached are kept (they concern path prefixes and are
            # independent of what follows); everything after it is undecided
            partial = [v for v in self.ex.vcs if v.func == (label or qual)]
            self.undecided.append({"obligation": f"{qual}/*", "reason": f"{type(exc).__name__}: {exc}", "kept_obligations": len(partial)})
            if partial:
                try:
                    self.functions[qual] = self.tree.func(qual).source_sha1() + " (partially verified)"
                except ExtractionError:
                    pass
            return partial

    def gen_lemma(self, name: str) -> List[VC]:
        lm = S.LEMMAS.get(name)
        if lm is None:
            self.engine_faults.append(f"lemma {name} not registered")
            return []
        out = []
        for lbl, f in lm.cases:
            hyps, goal = f(self.ex)
            out.append(VC(f"lemma:{name}", "lemma", lbl, list(hyps), goal, "", 0))
        return out

    def gen_getters(self) -> List[VC]:
        """Every property whose backing field a contract read by name must return exactly that field."""
        out = []
        done = set()
        while True:
            todo = [k for k in sorted(self.ex.getters_used) if k not in done]
            if not todo:
                break
            for (clsq, prop) in todo:
                done.add((clsq, prop))
                field = self.ex.getters_used[(clsq, prop)]
                qual = f"{clsq}.{prop}"
                try:
                    k = S.Contract(qual)
                    k.ensures("returns_field", lambda s, field=field: self._getter_goal(s, field))
                    saved = S.CONTRACTS.get(qual)
                    S.CONTRACTS[qual] = k
                    try:
                        vcs = self.ex.verify(qual, f"getter:{qual}")
                    finally:
                        if saved is not None:
                            S.CONTRACTS[qual] = saved
                        else:
                            del S.CONTRACTS[qual]
                    self.functions[qual] = self.tree.func(qual).source_sha1()
                    out.extend(vcs)
                except (OutOfSubset, ExtractionError) as exc:
                    self.undecided.append({"obligation": f"getter:{qual}", "reason": str(exc)})
        return out

    def _getter_goal(self, s, field):
        selfv = s.args[list(s.args)[0]]
        fv = self.ex.read_field(s.h.heap, selfv, field, None)
        r = s.result.v
        if fv.ty.kind == "opt":
            rn = r.none if r.ty.kind == "opt" else z3.BoolVal(False)
            return z3.And(rn == fv.none, z3.Implies(z3.Not(fv.none), r.t == fv.t))
        if r.t is None:
            return z3.BoolVal(False)
        if r.t.sort() != fv.t.sort():
            return z3.BoolVal(False)
        return r.t == fv.t


def load_sidecars() -> None:
    import contracts  # noqa: F401  (registers everything)


def tag(vcs: List[VC], pid: str) -> List[VC]:
    for v in vcs:
        if pid not in v.props:
            v.props.append(pid)
    return vcs


def run(pid: str, tier: str = "quick", repo: str = "/repo", seed: int = 0) -> int:
    sys.path.insert(0, VERIF)
    try:
        load_sidecars()
        mod = importlib.import_module(f"props.{pid}")
        pr = PropertyRun(pid, tier, repo, seed)
    except ExtractionError as exc:
        # the tree cannot be parsed: not a verdict on the property
        print(f"UNDECIDED property={pid} reason={exc}")
        write_evidence_minimal(pid, tier, seed, f"extraction failed: {exc}")
        return 0
    except Exception:
        traceback.print_exc()
        print(f"ENGINE-FAULT property={pid}")
        return 3
    try:
        return _run(pr, mod)
    except Exception:
        traceback.print_exc()
        print(f"ENGINE-FAULT property={pid}")
        return 3


def _run(pr: PropertyRun, mod) -> int:
    pid = pr.pid
    items: List[Item] = mod.items(pr)
    for it in items:
        if it.kind == "fn":
            pr.vcs.extend(tag(pr.gen_fn(it.name, it.kw.get("label")), pid))
        elif it.kind == "lemma":
            pr.vcs.extend(tag(pr.gen_lemma(it.name), pid))
        elif it.kind == "custom":
            try:
                pr.vcs.extend(tag(it.kw["gen"](pr), pid))
            except (OutOfSubset, ExtractionError) as exc:
                pr.undecided.append({"obligation": f"{it.name}/*", "reason": f"{type(exc).__name__}: {exc}"})
    pr.vcs.extend(tag(pr.gen_getters(), pid))
    only = getattr(mod, "vc_filter", None)
    if only is not None:
        pr.vcs = [v for v in pr.vcs if only(v)]

    # canaries: deliberately false clauses that the same pipeline has to refute
    canary_vcs: List[VC] = []
    for name, gen in getattr(mod, "canaries", lambda pr: [])(pr):
        got = gen(pr)
        for v in got:
            v.func = f"canary:{name}"
        canary_vcs.extend(got)
        if not got:
            pr.canaries_empty.append(name)

    thorough = pr.tier == "thorough"
    results = solve.solve_all(pr.vcs + canary_vcs, pr.ex.global_axioms, thorough=thorough, light_from=len(pr.vcs))
    main = results[:len(pr.vcs)]
    can = results[len(pr.vcs):]
    by_canary: Dict[str, List[str]] = {}
    for r in can:
        by_canary.setdefault(r.vc.func, []).append(r.status)
    for name, sts in by_canary.items():
        ok = any(s == "sat" for s in sts)
        proved = all(s == "unsat" for s in sts)
        # `stays_unproved` is what the guard needs (a deliberately false clause must not verify); `refuted_as_expected` additionally says the solver
        # produced a countermodel (with quantified hypotheses such as engine_inv z3 often answers `unknown` instead of `sat` for a false clause)
        pr.canary_results.append({"canary": name, "refuted_as_expected": ok, "stays_unproved": not proved, "statuses": sts})
        if proved:
            pr.canaries_verified.append(name)
        # (a canary that is neither refuted nor verified still shows the pipeline is not vacuous: the false clause was NOT proved)

    from . import astcheck as _ac
    for r in main:
        if r.status == "sat" and r.vc.name in _ac.OPEN:
            r.status = "unknown: code shape not recognized by the syntactic rule (" + (r.vc.note or "")[:160] + ")"
    # Shape obligations (pyvc/astcheck.py): a mismatch says the code no longer has the shape the syntactic rule recognizes. That is a violation
    # only if the bounded stand-in (run with its larger on-doubt budget) produces a failing input; otherwise it is reported as undecided.
    shape_refuted = [r for r in main if r.status == "sat" and _ac.is_shape(r.vc, getattr(mod, "DEFINITE", ()))]
    for r in shape_refuted:
        r.status = "shape"
    refuted = [r for r in main if r.status == "sat"]
    unknown = [r for r in main if r.status not in ("sat", "unsat", "shape")]
    if pr.canaries_empty and not refuted and not unknown and not pr.undecided and not shape_refuted:
        pr.engine_faults.append(f"canaries generated no obligation: {pr.canaries_empty}")
    if pr.canaries_verified:
        if not refuted and not unknown and not pr.undecided and not shape_refuted:
            # every real obligation discharged AND a deliberately false clause verified: the pipeline is vacuous or unsound -> engine fault
            pr.engine_faults.append(f"canaries verified instead of refuted: {pr.canaries_verified}")
        else:
            # the tree no longer verifies against its contracts while it does verify against a deliberately wrong one: consistent with the
            # code having changed towards the wrong behaviour; not an engine fault, the open obligations decide
            print(f"NOTE property={pid} the code now satisfies the deliberately wrong clause(s) {pr.canaries_verified}")
    dump = os.environ.get("VERIF_DUMP")
    if dump:
        os.makedirs(dump, exist_ok=True)
        for r in unknown + refuted:
            safe = "".join(c if c.isalnum() or c in "._-" else "_" for c in r.vc.name)[:100]
            with open(os.path.join(dump, f"{pid}_{safe}_{r.vc.path}_{r.status}.smt2"), "w") as f:
                f.write(solve.vc_to_smt2(r.vc, list(pr.ex.global_axioms) + V.str_axioms()))
    for r in unknown:
        if r.status.startswith("error"):
            pr.engine_faults.append(f"{r.vc.name}: {r.status}")
        else:
            pr.undecided.append({"obligation": r.vc.name, "reason": f"solver {r.status}", "loc": r.vc.loc})

    # end-to-end bounded native stand-in (harness/e2e.py): small histories through the real compute_tax against statement-level oracles.
    # Labelled bounded, never added to the proof counts; a failing history is a real failing input (replayable).
    e2e_cfg = getattr(mod, "E2E", None)
    e2e_fail: List[Dict] = []
    if e2e_cfg is not None:
        from .replay import run_e2e
        n = e2e_cfg["thorough" if thorough else "quick"]
        if (refuted or pr.undecided or shape_refuted) and not thorough:
            n = max(n, e2e_cfg.get("on_doubt", n))        # tie-breaker / witness search gets a larger budget
        res = run_e2e(pid, n, pr.seed, pr.repo, cli=bool(e2e_cfg.get("cli")))
        if res.get("error"):
            pr.engine_faults.append("e2e stand-in crashed: " + res["error"][-400:])
        e2e_fail = [f for f in res.get("failures", []) if "harness" not in f.get("regions", [])]
        for f in res.get("failures", []):
            if "harness" in f.get("regions", []):
                pr.engine_faults.append("bounded stand-in harness error: " + str(f.get("what"))[:400])
        pr.bounded.append({"name": "cli_generated_inputs" if e2e_cfg.get("cli") else "e2e_small_histories", "label": "bounded",
                           "bound": (f"generated .ini/.ods pairs through the real entry points, reports re-opened: curated multi-asset scenarios + budget {n} (seed {pr.seed})"
                                     if e2e_cfg.get("cli") else f"curated scenarios + {n} seeded random histories of <= 7 transactions (seed {pr.seed})"),
                           "evaluations": res.get("evaluations", 0), "failures": len(e2e_fail)})

    # bounded stand-ins / conformance checks of assumed contracts
    bounded_fn = getattr(mod, "bounded", None)
    bounded_fail: List[Dict] = []
    if bounded_fn is not None:
        try:
            for b in bounded_fn(pr):
                pr.bounded.append(b)
                if b.get("failures"):
                    bounded_fail.append(b)
        except Exception:
            traceback.print_exc()
            pr.engine_faults.append("bounded stand-in crashed")

    # known findings
    known = load_known_findings()
    violations: List[Dict] = []
    known_hits: List[Dict] = []
    # repaired defects: the witness of every `fixed:` entry of this property is replayed on every run and must pass - a fixed entry
    # suppresses nothing, and the violation is reported again if it ever returns (also inside the region of an open finding)
    fixed_dir = os.path.join(VERIF, "findings", "fixed")
    regressions = 0
    for fn_ in sorted(os.listdir(fixed_dir)) if os.path.isdir(fixed_dir) else []:
        if not (fn_.startswith(pid + "_") and fn_.endswith(".json")):
            continue
        from .replay import run_e2e, run_native
        with open(os.path.join(fixed_dir, fn_)) as f:
            wit = json.load(f)
        regressions += 1
        try:
            if "scenario" in wit and "run" in wit:
                r = run_e2e(pid, 0, 0, pr.repo, scenario=wit, cli=True)
                failed, what = bool(r.get("failures")), [w for f2 in r.get("failures", []) for w in f2.get("what", [])]
                desc = {"kind": "cli", "scenario": wit["scenario"], "run": wit["run"]}
                err = r.get("error")
            elif "txs" in wit:
                r = run_e2e(pid, 0, 0, pr.repo, scenario=wit, cli=False)
                failed, what = bool(r.get("failures")), [w for f2 in r.get("failures", []) for w in f2.get("what", [])]
                desc = {"kind": "e2e", "scenario": wit}
                err = r.get("error")
            elif "desc" in wit:
                r = run_native(pid, wit["desc"], pr.repo)
                failed, what, desc, err = bool(r.get("reproduced")), [str(r.get("observed"))], wit["desc"], r.get("error")
            else:
                continue
        except Exception as exc:
            pr.engine_faults.append(f"replay of fixed witness {fn_} crashed: {exc}")
            continue
        if err:
            pr.engine_faults.append(f"replay of fixed witness {fn_} crashed: {str(err)[-300:]}")
        elif failed:
            path = write_replay(pr, "regression_" + fn_[:-5], {"property": pid, "obligation": "regression:" + fn_, "note": "the witness of a repaired defect fails again",
                                                               "what": what[:6], "replay": {"desc": desc, "reproduced": True}})
            violations.append({"obligation": "regression:findings/fixed/" + fn_, "replay": path, "reproduced": True})
    if regressions:
        pr.bounded.append({"name": "fixed_witnesses", "label": "bounded", "bound": f"{regressions} witness(es) of repaired defects of this property replayed on the current tree",
                           "evaluations": regressions, "failures": sum(1 for v in violations if str(v["obligation"]).startswith("regression:"))})
    # every listed finding of this property is replayed natively: it must still fail (otherwise it is stale and suppresses nothing)
    live = []
    for kf in known:
        if kf.get("property") != pid:
            live.append(kf)
            continue
        wit = kf.get("witness")
        if wit and wit.endswith(".json") and "bounded_region" in kf:
            from .replay import run_e2e
            with open(os.path.join(VERIF, wit)) as f:
                sc = json.load(f)
            r = run_e2e(pid, 0, 0, pr.repo, scenario=sc, cli=("run" in sc and "scenario" in sc))
            if r.get("failures"):
                live.append(kf)
                known_hits.append({"obligation": "witness:" + wit, "finding": kf})
            else:
                print(f"NOTE property={pid} known finding {kf.get('id')} no longer reproduces on this tree (stale): it suppresses nothing")
        else:
            live.append(kf)
    known = live
    grouped: Dict[str, List[solve.Result]] = {}
    for r in refuted:
        grouped.setdefault(r.vc.name, []).append(r)
    for name, rs in sorted(grouped.items()):
        finding = match_finding(known, pid, name)
        if finding is not None:
            region = getattr(mod, "regions", {}).get(finding.get("region", ""))
            still = []
            for r in rs:
                if region is None:
                    continue
                hyp = region(pr, r.vc)
                vc2 = VC(r.vc.func, r.vc.kind, r.vc.label, list(r.vc.pc) + [hyp], r.vc.goal, r.vc.loc, r.vc.path)
                rr = solve.solve_all([vc2], pr.ex.global_axioms, thorough=thorough, parallel=False)[0]
                if rr.status != "unsat":
                    still.append(r)
            if region is not None and still:
                violations.append(report_violation(pr, mod, name, still, note="outside the region of known finding " + finding.get("id", "")))
            else:
                known_hits.append({"obligation": name, "finding": finding})
            continue
        violations.append(report_violation(pr, mod, name, rs))
    # failing histories: attributed to a known finding when the history lies in its region, reported otherwise
    e2e_new = []
    for f in e2e_fail:
        fin = None
        for kf in known:
            if kf.get("property") == pid and kf.get("bounded_region") in f.get("regions", []):
                fin = kf
                break
        if fin is not None:
            if not any(h["finding"] is fin for h in known_hits):
                known_hits.append({"obligation": "bounded:e2e", "finding": fin})
            else:
                pass
        else:
            e2e_new.append(f)
    if e2e_new:
        f = e2e_new[0]
        kind = "cli" if e2e_cfg.get("cli") else "e2e"
        info = {"property": pid, "obligation": "bounded:" + ("cli_generated_inputs" if kind == "cli" else "e2e_small_histories"), "note": "failing input found by the bounded native stand-in",
                "failures_found": len(e2e_new), "what": f["what"], "replay": {"desc": {"kind": kind, "scenario": f["scenario"], "run": f.get("run")}, "reproduced": True}}
        path = write_replay(pr, "e2e_witness", info)
        if violations:
            # the proof obligations were refuted too: the history is the end-to-end witness of those refutations
            for v in violations:
                if not v.get("reproduced"):
                    v["reproduced"], v["replay"] = True, path
        else:
            und = [u["obligation"] for u in pr.undecided if not u["obligation"].endswith("/*")] or [u["obligation"] for u in pr.undecided]
            name = (und[0] + " [undecided by the solver; failing history found by the bounded native stand-in]") if und else ("bounded:cli_generated_inputs" if kind == "cli" else "bounded:e2e_small_histories")
            violations.append({"obligation": name, "replay": path, "reproduced": True})
    if shape_refuted:
        names = sorted({r.vc.name for r in shape_refuted})
        witness = next((v for v in violations if v.get("reproduced") and str(v.get("replay", "")).endswith("e2e_witness.json")), None)
        if witness is not None and e2e_new:
            # a failing input exists: the shape obligations that broke are reported with it
            if witness["obligation"].startswith("bounded:"):
                violations.remove(witness)
            for nme in names:
                violations.append({"obligation": nme, "replay": witness["replay"], "reproduced": True})
        elif e2e_cfg is None:
            for nme in names:      # no bounded stand-in to consult: the newly failing obligation is all there is
                rs = [r for r in shape_refuted if r.vc.name == nme]
                for r in rs:
                    r.status = "sat"
                violations.append(report_violation(pr, mod, nme, rs))
        else:
            for nme in names:
                note = next((r.vc.note for r in shape_refuted if r.vc.name == nme), "")
                pr.undecided.append({"obligation": nme, "reason": "this syntactic obligation no longer holds on the tree (shape not recognized, or a construct that needs a closer look); the bounded stand-in (on-doubt budget) found no failing input: undecided, not a violation"
                                     + (f" [{note[:160]}]" if note else ""), "loc": next((r.vc.loc for r in shape_refuted if r.vc.name == nme), "")})
    for b in bounded_fail:
        finding = match_finding(known, pid, "bounded:" + b["name"])
        if finding is not None:
            known_hits.append({"obligation": "bounded:" + b["name"], "finding": finding})
            continue
        path = write_replay(pr, "bounded_" + b["name"], {"bounded_check": b})
        violations.append({"obligation": "bounded:" + b["name"], "replay": path, "reproduced": True})

    # Internal proof obligations - a loop invariant established / preserved, a callee's precondition at a call site, an inferred frame, a hint -
    # say that the sidecar proof fits the code.  Refuted without any failing input (no replayable model, nothing from the bounded stand-in)
    # they mean "the proof no longer fits", not "the property is violated": undecided.  Postconditions, exceptional postconditions, case
    # and lemma obligations state the property itself and stay violations.
    for v in list(violations):
        nm = str(v.get("obligation", ""))
        kind = nm.rsplit("/", 1)[-1].split(".", 1)[0] if "/" in nm else ""
        if not v.get("reproduced") and (kind.startswith("loop") or kind in ("pre", "frame", "hint", "unfold")):
            violations.remove(v)
            pr.undecided.append({"obligation": nm, "reason": "internal proof obligation refuted by the solver, no failing input found (model not replayable, bounded stand-in clean): "
                                                               "the sidecar proof no longer fits this code", "replay": v.get("replay")})
    printed = set()
    for h in known_hits:
        if id(h["finding"]) in printed:
            continue
        printed.add(id(h["finding"]))
        print(f"KNOWN-FINDING: property={pid} {h['finding'].get('what', h['obligation'])}")
    for u in pr.undecided:
        print(f"UNDECIDED property={pid} obligation={u['obligation']} reason={u['reason']}")
    n_obl = len(pr.vcs)
    n_dis = sum(1 for r in main if r.status == "unsat")
    floor = getattr(mod, "FLOOR", 1)
    if n_obl < floor and not pr.undecided:
        pr.engine_faults.append(f"only {n_obl} obligations generated, floor is {floor}")
    write_evidence(pr, mod, main, n_obl, n_dis, violations, known_hits)
    if pr.engine_faults:
        for f in pr.engine_faults[:8]:
            print(f"ENGINE-FAULT property={pid} {f[:600]}")
        return 3
    if violations:
        for v in violations:
            tail = "" if v.get("reproduced") else " no-failing-input-found"
            print(f"VIOLATION property={pid} replay={v['replay']} obligation={v['obligation']}{tail}")
        return 1
    print(f"OK property={pid} obligations={n_obl} discharged={n_dis} undecided={len(pr.undecided)} known_findings={len(known_hits)} wall={time.time() - pr.t0:.1f}s")
    return 0


# ---------------------------------------------------------------------- findings / replay / evidence
def load_known_findings() -> List[Dict]:
    p = os.path.join(VERIF, "known_findings.json")
    if not os.path.exists(p):
        return []
    with open(p) as f:
        data = json.load(f)
    return [x for x in data.get("findings", []) if x.get("status", "open") == "open"]


def match_finding(known: List[Dict], pid: str, obligation: str) -> Optional[Dict]:
    for f in known:
        if f.get("property") == pid and obligation in f.get("obligations", [f.get("obligation")]):
            return f
    return None


def report_violation(pr: PropertyRun, mod, name: str, rs: List["solve.Result"], note: str = "") -> Dict:
    r = rs[0]
    model = None
    nice = getattr(mod, "nice", None)
    if nice is not None:
        # presentation constraints (round offsets, post-1970 instants ...): only to get a readable, constructible counterexample
        for r2 in rs:
            try:
                extra = nice(pr, r2.vc)
                vc2 = VC(r2.vc.func, r2.vc.kind, r2.vc.label, list(r2.vc.pc) + list(extra), r2.vc.goal, r2.vc.loc, r2.vc.path)
                model = solve.model_for(vc2, pr.ex.global_axioms)
            except Exception:
                model = None
            if model is not None:
                r = r2
                break
    if model is None:
        model = solve.model_for(r.vc, pr.ex.global_axioms)
    info: Dict = {"property": pr.pid, "obligation": name, "location": r.vc.loc, "note": note or r.vc.note,
                  "paths_refuted": len(rs), "solver": r.backend}
    reproduced = False
    replay_fn = getattr(mod, "replay", None)
    if model is not None:
        info["model_excerpt"] = model_excerpt(model)
    if replay_fn is not None and model is not None:
        try:
            rep = replay_fn(pr, r.vc, model)
            if rep is not None:
                info["replay"] = rep
                reproduced = bool(rep.get("reproduced"))
        except Exception as exc:      # a replay crash must not hide the refutation
            info["replay_error"] = f"{type(exc).__name__}: {exc}"
    if not reproduced:
        info["verifier_output"] = {"status": "sat", "goal": str(r.vc.goal)[:2000], "path_condition_tail": [str(p)[:400] for p in r.vc.pc[-12:]]}
    path = write_replay(pr, name, info)
    return {"obligation": name, "replay": path, "reproduced": reproduced}


def model_excerpt(model: z3.ModelRef, limit: int = 60) -> Dict[str, str]:
    out = {}
    for d in model.decls()[:limit]:
        if d.arity() == 0:
            out[d.name()] = str(model[d])[:200]
    return out


def write_replay(pr: PropertyRun, name: str, info: Dict) -> str:
    d = os.path.join(VERIF, "replay") if os.path.abspath(pr.repo) == "/repo" else os.path.join(VERIF, ".scratch", "replay")
    os.makedirs(d, exist_ok=True)
    safe = "".join(c if c.isalnum() or c in "._-" else "_" for c in name)[:120]
    path = os.path.join(d, f"{pr.pid}_{safe}.json")
    with open(path, "w") as f:
        json.dump(info, f, indent=1, default=str)
    return path


def write_evidence_minimal(pid: str, tier: str, seed: int, why: str) -> None:
    os.makedirs(os.path.join(VERIF, "evidence"), exist_ok=True)
    ev = {"property_id": pid, "tier": tier, "seed": seed, "level": "other", "wall_s": 0.0, "violations": 0,
          "coverage": {"explanation": why, "evaluations": 1, "distinct_nontrivial": 0}}
    with open(os.path.join(VERIF, "evidence", f"{pid}.json"), "w") as f:
        json.dump(ev, f, indent=1)


def evidence_dir(repo: str) -> str:
    """Evidence (and replay files) of runs against a scratch copy (seeded changes, mutants) never overwrite the evidence of /repo."""
    d = os.path.join(VERIF, "evidence") if os.path.abspath(repo) == "/repo" else os.path.join(VERIF, ".scratch", "evidence")
    os.makedirs(d, exist_ok=True)
    return d


def write_evidence(pr: PropertyRun, mod, results: List["solve.Result"], n_obl: int, n_dis: int, violations, known_hits) -> None:
    level = getattr(mod, "LEVEL", "proof")
    if pr.undecided and level == "proof":
        level = "other"       # loss of assurance is recorded, never hidden (DESIGN 6.3)
    by_backend: Dict[str, int] = {}
    tsolve = 0.0
    per_obl: Dict[str, Dict] = {}
    syntactic_fns: Dict[str, str] = {}
    for r in results:
        tsolve += r.time
        # an obligation whose goal is a Boolean constant was decided by the syntactic / finite-case machinery (pyvc/astcheck.py); the solver only relays it
        syntactic = not r.vc.pc and (z3.is_true(r.vc.goal) or z3.is_false(r.vc.goal))
        if r.status == "unsat":
            b = "ast (syntactic / finite case)" if syntactic else r.backend
            by_backend[b] = by_backend.get(b, 0) + 1
        if r.vc.kind not in ("post", "raises", "frame", "noraise") or syntactic:
            fq = r.vc.func.split("/")[0]
            if fq not in pr.functions and not fq.startswith(("tree:", "canary:")):
                try:
                    syntactic_fns[fq] = pr.tree.func(fq).source_sha1() + " (syntactic / decision-table obligations)"
                except Exception:
                    syntactic_fns.setdefault(fq, "module-level or class-level obligations")
        o = per_obl.setdefault(r.vc.name, {"paths": 0, "discharged": 0, "loc": r.vc.loc, "max_s": 0.0})
        o["paths"] += 1
        o["discharged"] += 1 if r.status == "unsat" else 0
        o["max_s"] = round(max(o["max_s"], r.time), 3)
    samples = []
    for name in sorted(per_obl)[:: max(1, len(per_obl) // 12)][:14]:
        samples.append({"obligation": name, **per_obl[name]})
    assumptions = sorted(set(getattr(mod, "ASSUMPTIONS", []) + pr.assumptions + [f"{k}: {t}" for k, t in S.ASSUMPTION_MARKERS if _marker_relevant(t, pr)]))
    cov = {
        "obligations": n_obl,
        "discharged": n_dis,
        "checker_cmd": f"bin/verif check {pr.pid} --tier {pr.tier}  (pyvc AST->SMT over {pr.repo}/src/rp2; z3 {z3.get_version_string()} rlimit, cvc5 1.0.3 for unknowns)",
        "trusted_base": sorted(set(getattr(mod, "TRUSTED", []) + ["pyvc (home-made VC generator, guarded by canaries and the CPython cross-check)"])),
        "samples": samples,
        "functions_under_contract": {**syntactic_fns, **pr.functions},
        "distinct_obligation_names": len(per_obl),
        "by_backend": by_backend,
        "solver_time_s": round(tsolve, 2),
        "undecided": pr.undecided,
        "known_findings": [{"obligation": h["obligation"], "id": h["finding"].get("id")} for h in known_hits],
        "bounded_checks": pr.bounded,
        "vacuity": {"requires_satisfiable": pr.vacuity, "canaries": pr.canary_results, "obligations_floor": getattr(mod, "FLOOR", 1)},
        "dropped_constructs": ["type annotations (typing only)", "docstrings/comments", "cast(T,e) -> e", "logger calls (arguments still evaluated)",
                               "text of exception messages and f-strings (uninterpreted strings)"],
        "notes": sorted(set(pr.ex.notes))[:40],
        "evaluations": n_obl,
        "distinct_nontrivial": len(per_obl),
        "rule": "one VC per contract clause / invariant clause / run-time-error point and path; distinct = distinct obligation names",
        "explanation": getattr(mod, "EXPLANATION", ""),
    }
    cov.update(pr.extra)
    ev = {"property_id": pr.pid, "tier": pr.tier, "seed": pr.seed, "level": level, "coverage": cov, "assumptions": assumptions,
          "wall_s": round(time.time() - pr.t0, 2), "violations": len(violations)}
    with open(os.path.join(evidence_dir(pr.repo), f"{pr.pid}.json"), "w") as f:
        json.dump(ev, f, indent=1, default=str)


def _marker_relevant(text: str, pr: PropertyRun) -> bool:
    return True
