"""Statements, control flow, state merging and loops cut at sidecar invariants."""
from __future__ import annotations

import ast
import os
import sys
import z3
from typing import Dict, List, Optional, Set, Tuple

from . import vals as V
from .vals import Val, Ty, INT, BOOL, DEC, FLOAT, STR, DATE, DATETIME, NONE, ANY, EXC
from .source import FuncInfo, ClassInfo, ModuleInfo, ExtractionError
from .base import VC, State, Frame, OutOfSubset, exc_val
from . import spec as S


class StmtMixin:
    EXC_NAMES = {"Exception", "StopIteration", "ValueError", "TypeError", "KeyError", "IndexError", "RuntimeError", "NotImplementedError",
                 "ZeroDivisionError", "AttributeError", "SystemExit", "ImportError", "ModuleNotFoundError"}
    # ------------------------------------------------------------------ blocks
    def block(self, stmts: List[ast.stmt], st: State, fr: Frame) -> List:
        live = [st]
        done: List = []
        for n in stmts:
            nxt: List[State] = []
            for x in live:
                for kind, st2, v in self.stmt(n, x, fr):
                    if kind == "normal":
                        nxt.append(st2)
                    else:
                        done.append((kind, st2, v))
            live = nxt
            if not live:
                break
        return [("normal", x, None) for x in live] + done

    def stmt(self, n: ast.stmt, st: State, fr: Frame) -> List:
        m = getattr(self, "s_" + type(n).__name__, None)
        if m is None:
            raise OutOfSubset(f"statement {type(n).__name__} at {fr.module.relpath}:{n.lineno}")
        return m(n, st, fr)

    def s_Pass(self, n, st, fr): return [("normal", st, None)]
    def s_Break(self, n, st, fr): return [("break", st, None)]
    def s_Continue(self, n, st, fr): return [("continue", st, None)]
    def s_Import(self, n, st, fr): return [("normal", st, None)]
    def s_ImportFrom(self, n, st, fr): return [("normal", st, None)]
    def s_Global(self, n, st, fr): raise OutOfSubset("global statement")
    def s_Assert(self, n, st, fr): raise OutOfSubset("assert statement")

    def s_Expr(self, n, st, fr):
        if isinstance(n.value, ast.Constant):
            return [("normal", st, None)]
        return [("normal" if k == "val" else k, s, None if k == "val" else v) for k, s, v in self.ev(n.value, st, fr)]

    def s_Return(self, n, st, fr):
        if n.value is None:
            return [("return", st, V.NONEV)]
        return [("return" if k == "val" else k, s, v) for k, s, v in self.ev(n.value, st, fr)]

    def s_Raise(self, n, st, fr):
        if n.exc is None:
            if "$exc" in st.env:
                return [("raise", st, st.env["$exc"])]
            raise OutOfSubset("bare raise outside handler")
        # A-MSG: the *text* of exception messages is dropped; `raise Cls(f"...")` raises class Cls without evaluating the message
        if isinstance(n.exc, ast.Call) and isinstance(n.exc.func, ast.Name) and n.exc.func.id not in st.env:
            nm = n.exc.func.id
            q = self.tree.resolve_name(fr.module, nm)
            if (q in self.tree.classes and any(b in self.tree.classes[q].mro for b in ("Exception", "BaseException"))) or nm in self.EXC_NAMES:
                return [("raise", st, exc_val(self.tree.classes[q].name if q in self.tree.classes else nm))]
        out = []
        for k, s, v in self.ev(n.exc, st, fr):
            if k == "raise":
                out.append((k, s, v))
            elif v.ty.kind == "exc":
                out.append(("raise", s, v))
            elif v.ty.kind in ("class", "extfn"):
                out.append(("raise", s, exc_val(v.ty.args[0].rsplit(".", 1)[-1])))
            elif v.ty.kind == "obj":
                out.append(("raise", s, exc_val(self.tree.cls(v.ty.args[0]).name)))
            else:
                raise OutOfSubset(f"raise of {v.ty}")
        return out

    # ------------------------------------------------------------------ assignment
    def s_Assign(self, n, st, fr):
        out = []
        for k, s, v in self.ev(n.value, st, fr):
            if k == "raise":
                out.append((k, s, v))
                continue
            s = s.copy()
            res = [("normal", s, None)]
            for tgt in n.targets:
                nxt = []
                for k2, s2, _ in res:
                    if k2 != "normal":
                        nxt.append((k2, s2, _))
                    else:
                        nxt.extend(self.assign(tgt, v, s2, fr, None))
                res = nxt
            out.extend(res)
        return self.apply_hints(n, out, fr)

    def apply_hints(self, n, outcomes: List, fr: Frame) -> List:
        """Sidecar cut assertions after an assignment to a local name (see spec.hint)."""
        if fr.fn is None or not S.HINTS:
            return outcomes
        tgts = n.targets if isinstance(n, ast.Assign) else [n.target]
        names = [t.id for t in tgts if isinstance(t, ast.Name)]
        if not names:
            return outcomes
        res = []
        for kind, s, v in outcomes:
            if kind != "normal":
                res.append((kind, s, v))
                continue
            for name in names:
                iv = S.HINTS.get((fr.fn.qualname, name, self.assign_ordinal(fr, n, name)))
                if iv is None:
                    continue
                args = {k: x for k, x in s.env.items() if not k.startswith("$decl:")}
                ss = S.SpecState(self, args, s.heap, s.heap)
                s = s.copy()
                for lbl, f in iv.clauses:
                    g = f(ss)
                    self.vc(s, g, f"hint.{name}", lbl, n, fr)
                    s.assume(g)
            res.append((kind, s, v))
        return res

    def assign_ordinal(self, fr: Frame, node, name: str) -> int:
        cache = getattr(self, "_assign_ordinals", None)
        if cache is None:
            cache = self._assign_ordinals = {}
        key = (id(fr.fn.node), name)
        if key not in cache:
            nodes = []
            for x in ast.walk(fr.fn.node):
                tg = x.targets if isinstance(x, ast.Assign) else ([x.target] if isinstance(x, ast.AnnAssign) and x.value is not None else [])
                if any(isinstance(t, ast.Name) and t.id == name for t in tg):
                    nodes.append(x)
            nodes.sort(key=lambda x: (x.lineno, x.col_offset))
            cache[key] = {id(x): i for i, x in enumerate(nodes)}
        return cache[key].get(id(node), -1)

    def s_AnnAssign(self, n, st, fr):
        ty = self.type_of_annotation(n.annotation, fr.module, fr.cls)
        if n.value is None:
            if isinstance(n.target, ast.Name):
                st = st.copy()
                st.env["$decl:" + n.target.id] = Val(ty)
            return [("normal", st, None)]
        if isinstance(n.value, ast.Call) and isinstance(n.value.func, ast.Name) and n.value.func.id == "set" and not n.value.args \
                and ty.kind == "set" and isinstance(n.target, ast.Name) and "set" not in st.env:
            # x: Set[T] = set()  -- a fresh empty set whose element type (hence key sort) comes from the annotation
            s = st.copy()
            s.env[n.target.id] = self.new_dict_typed(s, ty)
            return [("normal", s, None)]
        out = []
        for k, s, v in self.ev(n.value, st, fr):
            if k == "raise":
                out.append((k, s, v))
            else:
                out.extend(self.assign(n.target, v, s.copy(), fr, ty))
        return self.apply_hints(n, out, fr)

    def s_AugAssign(self, n, st, fr):
        load = self._as_load(n.target)
        op = type(n.op).__name__

        def k(st2, vs):
            out = []
            for kind, s3, r in self.binop(op, vs[0], vs[1], st2, fr, n):
                if kind == "raise":
                    out.append((kind, s3, r))
                else:
                    out.extend(self.assign(n.target, r, s3.copy(), fr, None))
            return out
        return self.seq([load, n.value], st, fr, k)

    @staticmethod
    def _as_load(t: ast.expr) -> ast.expr:
        import copy
        t2 = copy.copy(t)
        t2.ctx = ast.Load()
        return t2

    def declared_type(self, st: State, name: str) -> Optional[Ty]:
        d = st.env.get("$decl:" + name)
        return d.ty if d is not None else None

    def assign(self, tgt: ast.expr, v: Val, st: State, fr: Frame, ann: Optional[Ty]) -> List:
        if isinstance(tgt, ast.Name):
            ty = ann or self.declared_type(st, tgt.id)
            if ty is not None and ann is not None:
                st.env["$decl:" + tgt.id] = Val(ty)
            if ty is not None and ty.kind not in ("any", "iter") and v.ty.kind not in ("tuple", "ntuple", "bound", "func", "lambda", "class", "extfn", "cset", "cdict", "clist", "emptydict", "dynclass"):
                try:
                    if v.ty.kind == "emptydict":
                        pass
                    elif ty.kind == "obj" and v.ty.kind == "obj" and self.tree.is_subclass(v.ty.args[0], ty.args[0]):
                        pass          # keep the more precise static type
                    elif ty.kind == "opt" and ty.args[0].kind == "obj" and v.ty.kind == "obj" and self.tree.is_subclass(v.ty.args[0], ty.args[0].args[0]):
                        v = Val(V.Opt(v.ty), v.t, none=z3.BoolVal(False))
                    else:
                        v = self.coerce(v, ty)
                except OutOfSubset:
                    pass
            if v.ty.kind == "emptydict":
                if ty is not None and ty.kind in ("dict",):
                    v = self.new_dict_typed(st, ty)
                else:
                    raise OutOfSubset(f"empty dict literal assigned to un-annotated name {tgt.id}")
            st.env[tgt.id] = v
            return [("normal", st, None)]
        if isinstance(tgt, ast.Attribute):
            out = []
            for k, s, o in self.ev(tgt.value, st, fr):
                if k == "raise":
                    out.append((k, s, o))
                    continue
                if o.ty.kind == "opt":
                    self.vc(s, z3.Not(o.none), "safety", f"none_store.{tgt.attr}", tgt, fr)
                    s = s.copy()
                    s.assume(z3.Not(o.none))
                    o = V.deopt(o)
                if o.ty.kind != "obj":
                    raise OutOfSubset(f"attribute store on {o.ty}")
                mangled = self.tree.mangle(fr.cls.name, tgt.attr) if fr.cls is not None else tgt.attr
                s = s.copy()
                vv = v
                if vv.ty.kind == "emptydict":
                    vv = self.new_dict_typed(s, self.field_type(mangled))
                if vv.ty.kind in ("cset", "clist", "cdict"):
                    vv = self.materialize_const_coll(s, vv, self.field_type(mangled))
                self.write_field(s, o, mangled, vv)
                out.append(("normal", s, None))
            return out
        if isinstance(tgt, ast.Subscript):
            def k(st2, vs):
                o, i = vs
                s = st2.copy()
                if o.ty.kind == "opt":
                    self.vc(s, z3.Not(o.none), "safety", "none_subscript_store", tgt, fr)
                    s.assume(z3.Not(o.none))
                    o = V.deopt(o)
                if o.ty.kind == "dict":
                    self.dict_set(s, o, i, v)
                    return [("normal", s, None)]
                if o.ty.kind == "list":
                    n = self.coll_len(s.heap, o)
                    self.vc(s, z3.And(i.t >= 0, i.t < n), "safety", "index_in_range", tgt, fr)
                    arr = self.list_arr(s.heap, o)
                    vv = self.coerce(v, o.ty.args[0])
                    s.heap[("lel", V.sort_key(V.sort_of(o.ty.args[0])))] = z3.Store(arr, o.t, z3.Store(V.sel(arr, o.t), i.t, vv.t))
                    return [("normal", s, None)]
                if o.ty.kind in ("ext", "any"):
                    return self.ext_subscript_store(o, i, v, s, fr, tgt)
                raise OutOfSubset(f"subscript store on {o.ty}")
            return self.seq([tgt.value, tgt.slice], st, fr, k)
        if isinstance(tgt, (ast.Tuple, ast.List)):
            items = None
            if v.ty.kind == "tuple":
                items = v.items
            elif v.ty.kind == "ntuple" and v.items is not None:
                items = list(v.items.values())
            if items is None or len(items) != len(tgt.elts):
                raise OutOfSubset(f"unpacking of {v.ty}")
            res = [("normal", st, None)]
            for t, x in zip(tgt.elts, items):
                nxt = []
                for k2, s2, _ in res:
                    if k2 != "normal":
                        nxt.append((k2, s2, _))
                    else:
                        nxt.extend(self.assign(t, x, s2, fr, None))
                res = nxt
            return res
        raise OutOfSubset(f"assignment target {type(tgt).__name__}")

    def ext_subscript_store(self, o, i, v, st, fr, node):
        raise OutOfSubset(f"subscript store on external value {o.ty}")

    def materialize_const_coll(self, st: State, v: Val, ty: Ty) -> Val:
        if ty.kind == "set" and v.ty.kind == "cset":
            d = self.new_dict_typed(st, ty, v.items[0] if v.items else None)
            for it in v.items:
                self.dict_set(st, Val(V.DictT(ty.args[0], BOOL), d.t), it, V.boolv(True))
            return Val(ty, d.t)
        raise OutOfSubset(f"constant collection stored to a field of type {ty}")

    def s_Delete(self, n, st, fr):
        if len(n.targets) == 1 and isinstance(n.targets[0], ast.Subscript):
            t = n.targets[0]

            def k(st2, vs):
                o, i = vs
                if o.ty.kind != "dict":
                    raise OutOfSubset("del on non-dict")
                has = self.dict_has(st2.heap, o, i)
                self.vc(st2, has, "safety", "key_present_del", t, fr)
                s = st2.copy()
                s.assume(has)
                self.dict_del(s, o, i)
                return [("normal", s, None)]
            return self.seq([t.value, t.slice], st, fr, k)
        raise OutOfSubset("del statement")

    # ------------------------------------------------------------------ if / merge
    @staticmethod
    def _effect_free_logging(body: List[ast.stmt]) -> bool:
        return bool(body) and all(isinstance(b, ast.Expr) and isinstance(b.value, ast.Call) and isinstance(b.value.func, ast.Attribute)
                                  and isinstance(b.value.func.value, ast.Name) and b.value.func.value.id == "LOGGER" for b in body)

    def s_If(self, n, st, fr):
        if not n.orelse and self._effect_free_logging(n.body):
            # `if cond: LOGGER.warning(...)`: no effect on verified state.  Test and arguments are executed on a scratch copy for
            # run-time-error freedom (their VCs are emitted), exceptional outcomes are kept, the state itself continues unchanged.
            out = [("normal", st, None)]
            for k, st1, c in self.ev(n.test, st.copy(), fr):
                if k == "raise":
                    out.append((k, st1, c))
                    continue
                tc = self.truth(c, st1)
                if self.feasible_with(st1, tc):
                    s2 = st1.copy()
                    s2.assume(tc)
                    out.extend(r for r in self.block(n.body, s2, fr) if r[0] != "normal")
            return out
        out = []
        for k, st1, c in self.ev(n.test, st, fr):
            if k == "raise":
                out.append((k, st1, c))
                continue
            tc = self.truth(c, st1)
            narrowing = self.narrowing(n.test, c, st1, fr)
            branches = []
            for cond, body, side in ((tc, n.body, True), (z3.Not(tc), n.orelse, False)):
                if V.is_false(cond) or not self.feasible_with(st1, cond):
                    if os.environ.get("PYVC_TRACE"):
                        print("IF-PRUNED", getattr(n, "lineno", "?"), side, str(z3.simplify(cond))[:200], file=sys.stderr)
                    continue
                s2 = st1.copy()
                s2.assume(cond)
                for name, nv in narrowing.get(side, {}).items():
                    s2.env[name] = nv
                res = self.block(body, s2, fr) if body else [("normal", s2, None)]
                branches.append((cond, s2, res))
            normals = [[r for r in res if r[0] == "normal"] for _, _, res in branches]
            if len(branches) == 2 and len(normals[0]) == 1 and len(normals[1]) == 1 and not getattr(self, "no_merge", False):
                m = self.merge_states(branches[0][0], st1, normals[0][0][1], normals[1][0][1])
                if m is not None:
                    out.append(("normal", m, None))
                    for _, _, res in branches:
                        out.extend(r for r in res if r[0] != "normal")
                    continue
            for _, _, res in branches:
                out.extend(res)
        return out

    def narrowing(self, test: ast.expr, c: Val, st: State, fr: Frame) -> Dict[bool, Dict[str, Val]]:
        """Static type refinement from `isinstance(x, C)`, `x is None`, `x is not None`, `x` / `not x` on an Optional name."""
        out: Dict[bool, Dict[str, Val]] = {True: {}, False: {}}
        neg = False
        t = test
        while isinstance(t, ast.UnaryOp) and isinstance(t.op, ast.Not):
            neg = not neg
            t = t.operand
        if isinstance(t, ast.Call) and isinstance(t.func, ast.Name) and t.func.id == "isinstance" and isinstance(t.args[0], ast.Name) and isinstance(t.args[1], ast.Name):
            name = t.args[0].id
            v = st.env.get(name)
            q = self.tree.resolve_name(fr.module, t.args[1].id)
            if v is not None and q in self.tree.classes and v.ty.kind in ("obj", "opt") and V.deopt(v).ty.kind == "obj":
                if self.tree.is_subclass(q, V.deopt(v).ty.args[0]):
                    out[not neg][name] = Val(V.Obj(q), v.t)
        elif isinstance(t, ast.Name) and t.id in st.env and st.env[t.id].ty.kind == "opt":
            v = st.env[t.id]
            out[not neg][t.id] = V.deopt(v)
        elif isinstance(t, ast.Compare) and len(t.ops) == 1 and isinstance(t.left, ast.Name) and isinstance(t.comparators[0], ast.Constant) \
                and t.comparators[0].value is None and t.left.id in st.env and st.env[t.left.id].ty.kind == "opt":
            v = st.env[t.left.id]
            isnot = isinstance(t.ops[0], (ast.IsNot, ast.NotEq))
            out[(isnot != neg)][t.left.id] = V.deopt(v)
        return out

    def merge_states(self, c, base: State, a: State, b: State) -> Optional[State]:
        env: Dict[str, Val] = {}
        for name in set(a.env) | set(b.env):
            if name in a.env and name in b.env:
                va, vb = a.env[name], b.env[name]
                if va is vb:
                    env[name] = va
                    continue
                mv = self.merge_vals(c, va, vb)
                if mv is None:
                    return None
                env[name] = mv
            # a name bound on one side only stays unbound after the join (reading it is out of subset)
        heap: Dict[object, z3.ExprRef] = {}
        for k in set(a.heap) | set(b.heap):
            ha, hb = a.heap.get(k), b.heap.get(k)
            if ha is None or hb is None:
                h = ha if ha is not None else hb
                other = base.heap.get(k)
                if other is None:
                    if z3.is_const(h) and h.decl().name().startswith("H0_"):
                        heap[k] = h
                        continue
                    # created on one side only: initial array on the other side
                    name = "H0_" + "_".join(str(x) for x in (k if isinstance(k, tuple) else (k,)))
                    other = z3.Const(name, h.sort())
                heap[k] = z3.If(c, h, other) if ha is not None else z3.If(c, other, h)
            elif ha.eq(hb):
                heap[k] = ha
            else:
                heap[k] = z3.If(c, ha, hb)
        n = len(base.pc)
        pc = list(base.pc)
        for x in a.pc[n + 1:]:
            pc.append(z3.Implies(c, x))
        for x in b.pc[n + 1:]:
            pc.append(z3.Implies(z3.Not(c), x))
        return State(env, heap, pc, base.depth)

    # ------------------------------------------------------------------ try / with
    def s_Try(self, n, st, fr):
        if n.finalbody:
            raise OutOfSubset("try/finally")
        out = []
        for kind, s, v in self.block(n.body, st, fr):
            if kind == "normal":
                out.extend(self.block(n.orelse, s, fr) if n.orelse else [("normal", s, None)])
            elif kind == "raise":
                out.extend(self.handle(n.handlers, s, v, fr))
            else:
                out.append((kind, s, v))
        return out

    def handle(self, handlers: List[ast.ExceptHandler], st: State, exc: Val, fr: Frame) -> List:
        name = exc.aux
        for h in handlers:
            if self.handler_matches(h, name, fr):
                s = st.copy()
                s.env["$exc"] = exc
                if h.name:
                    s.env[h.name] = exc
                return self.block(h.body, s, fr)
        return [("raise", st, exc)]

    def handler_matches(self, h: ast.ExceptHandler, name: str, fr: Frame) -> bool:
        if h.type is None:
            return True
        types = h.type.elts if isinstance(h.type, ast.Tuple) else [h.type]
        for t in types:
            tn = t.id if isinstance(t, ast.Name) else getattr(t, "attr", "")
            if self.exc_subclass(name, tn, fr):
                return True
        return False

    def exc_subclass(self, a: str, b: str, fr: Optional[Frame] = None) -> bool:
        if a == b:
            return True
        qa = [q for q, c in self.tree.classes.items() if c.name == a]
        if qa:
            mro = self.tree.classes[qa[0]].mro
            return any((k in self.tree.classes and self.tree.classes[k].name == b) or k == b for k in mro)
        return self.tree.is_subclass(a, b)

    def s_With(self, n, st, fr):
        # `with self.__lock:` (no effect on verified state); `with open(...) as f` is external I/O
        if len(n.items) == 1 and n.items[0].optional_vars is None:
            out = []
            for k, s, v in self.ev(n.items[0].context_expr, st, fr):
                if k == "raise":
                    out.append((k, s, v))
                elif v.ty.kind == "ext" and v.ty.args and v.ty.args[0] == "Lock":
                    out.extend(self.block(n.body, s, fr))
                else:
                    raise OutOfSubset(f"with-statement over {v.ty}")
            return out
        raise OutOfSubset("with-statement with target")

    # ------------------------------------------------------------------ loops
    def s_While(self, n, st, fr):
        if n.orelse:
            raise OutOfSubset("while/else")
        ordinal = self.loop_ordinal(fr, n)
        # `while c:` whose every path through the body leaves the loop is `if c:` (the shape of the three __next__ methods)
        if self.body_always_exits(n.body):
            out = []
            for k, st1, c in self.ev(n.test, st, fr):
                if k == "raise":
                    out.append((k, st1, c))
                    continue
                tc = self.truth(c, st1)
                for cond, body in ((tc, n.body), (z3.Not(tc), None)):
                    if V.is_false(cond) or not self.feasible_with(st1, cond):
                        continue
                    s2 = st1.copy()
                    s2.assume(cond)
                    if body is None:
                        out.append(("normal", s2, None))
                    else:
                        for k2, s3, v in self.block(body, s2, fr):
                            if k2 == "break":
                                out.append(("normal", s3, None))
                            elif k2 in ("normal", "continue"):
                                raise OutOfSubset("while body classified as always-exiting but falls through")
                            else:
                                out.append((k2, s3, v))
            return out

        def guard(s: State) -> List:
            return [(k, s2, (self.truth(v, s2) if k == "val" else v)) for k, s2, v in self.ev(n.test, s, fr)]

        def body(s: State) -> List:
            return self.block(n.body, s, fr)
        return self.cut_loop(st, fr, ordinal, n, guard, body, self.assigned_names(n.body), {})

    def loop_ordinal(self, fr: Frame, node) -> int:
        """Static ordinal of a loop statement within its function (source order), so that every path reaching the loop finds the same invariant."""
        root = fr.fn.node if fr.fn is not None else fr.module.tree
        cache = getattr(self, "_loop_ordinals", None)
        if cache is None:
            cache = self._loop_ordinals = {}
        key = id(root)
        if key not in cache:
            loops = [x for x in ast.walk(root) if isinstance(x, (ast.For, ast.While))]
            loops.sort(key=lambda x: (x.lineno, x.col_offset))
            cache[key] = {id(x): i for i, x in enumerate(loops)}
        return cache[key][id(node)]

    def body_always_exits(self, body: List[ast.stmt]) -> bool:
        def exits(stmts: List[ast.stmt]) -> bool:
            for s in stmts:
                if isinstance(s, (ast.Return, ast.Raise)):
                    return True
                if isinstance(s, ast.If) and s.orelse and exits(s.body) and exits(s.orelse):
                    return True
            return False
        # a `continue`/`break` for this loop anywhere disqualifies the shortcut (break is fine at top level only if followed by nothing)
        for s in ast.walk(ast.Module(body=body, type_ignores=[])):
            if isinstance(s, (ast.Continue, ast.Break, ast.While, ast.For)):
                return False
        return exits(body)

    @staticmethod
    def assigned_names(body: List[ast.stmt]) -> Set[str]:
        out: Set[str] = set()
        for s in ast.walk(ast.Module(body=body, type_ignores=[])):
            if isinstance(s, ast.Name) and isinstance(s.ctx, ast.Store):
                out.add(s.id)
            if isinstance(s, ast.ExceptHandler) and s.name:
                out.add(s.name)
        return out

    def s_For(self, n, st, fr):
        if n.orelse:
            raise OutOfSubset("for/else")
        ordinal = self.loop_ordinal(fr, n)
        out = []
        for k, st1, it in self.ev(n.iter, st, fr):
            if k == "raise":
                out.append((k, st1, it))
                continue
            out.extend(self.for_over(n, ordinal, it, st1, fr))
        return out

    def for_over(self, n: ast.For, ordinal: int, it: Val, st: State, fr: Frame) -> List:
        idx_name = f"$i{ordinal}"
        assigned = self.assigned_names(n.body) | self.assigned_names([ast.Expr(value=n.target)]) | {idx_name}
        st = st.copy()
        kind = it.ty.kind
        extra: Dict[str, Val] = {"$iter": it}
        if kind in ("clist", "cset") or (kind == "tuple"):
            # constant / literal sequence: unrolled (finite, known length) -- exact
            res = [("normal", st, None)]
            exits = []
            for item in it.items:
                nxt = []
                for k2, s2, v2 in res:
                    if k2 != "normal":
                        nxt.append((k2, s2, v2))
                        continue
                    for k3, s3, _ in self.assign(n.target, item, s2.copy(), fr, None):
                        for k4, s4, v4 in self.block(n.body, s3, fr):
                            if k4 in ("normal", "continue"):
                                nxt.append(("normal", s4, None))
                            elif k4 == "break":
                                exits.append(("normal", s4, None))
                            else:
                                nxt.append((k4, s4, v4))
                res = nxt
            return res + exits
        if kind == "list" or kind == "range" or kind == "enumerate" or kind == "dictiter":
            st.env[idx_name] = V.intv(0)

            def length(s: State):
                if kind == "list":
                    return self.coll_len(s.heap, it)
                if kind == "range":
                    lo, hi = it.items
                    return z3.If(hi.t > lo.t, hi.t - lo.t, 0)
                if kind == "enumerate":
                    return self.coll_len(s.heap, it.items[0])
                if kind == "dictiter":
                    return self.coll_len(s.heap, it.items[0])
                raise OutOfSubset("length")

            def guard(s: State) -> List:
                return [("val", s, s.env[idx_name].t < length(s))]

            def element(s: State) -> Val:
                i = s.env[idx_name].t
                if kind == "list":
                    v = self.list_get(s.heap, it, i)
                    self.post_read(s, v)
                    return v
                if kind == "range":
                    return Val(INT, it.items[0].t + i)
                if kind == "enumerate":
                    v = self.list_get(s.heap, it.items[0], i)
                    self.post_read(s, v)
                    return Val(V.TupleT(INT, v.ty), None, items=[Val(INT, i), v])
                if kind == "dictiter":
                    return self.dict_iter_element(s, it, i)
                raise OutOfSubset("element")

            def body(s: State) -> List:
                s = s.copy()
                el = element(s)
                s.env[idx_name] = Val(INT, s.env[idx_name].t + 1)
                out = []
                for k3, s3, _ in self.assign(n.target, el, s, fr, None):
                    out.extend(self.block(n.body, s3, fr) if k3 == "normal" else [(k3, s3, _)])
                return out
            if kind == "dictiter":
                self.dict_iter_setup(st, it)
            return self.cut_loop(st, fr, ordinal, n, guard, body, assigned, extra)
        if kind in ("obj", "iter", "ext", "any"):
            return self.for_protocol(n, ordinal, it, st, fr, assigned, extra)
        raise OutOfSubset(f"for loop over {it.ty}")

    def post_read(self, s: State, v: Val) -> None:
        if v.ty.kind == "obj":
            self.assume_allocated(s, v)
            s.assume(self.class_domain(v))

    def for_protocol(self, n: ast.For, ordinal: int, it: Val, st: State, fr: Frame, assigned: Set[str], extra: Dict[str, Val]) -> List:
        """for x in obj:  ==  it = iter(obj); while True: try: x = next(it) except StopIteration: break; body"""
        out = []
        for k, s1, itv in self.call_iter(it, st, fr, n):
            if k == "raise":
                out.append((k, s1, itv))
                continue
            s1 = s1.copy()
            itname = f"$it{ordinal}"
            s1.env[itname] = itv
            extra2 = dict(extra)
            extra2["$it"] = itv

            def guard(s: State) -> List:
                return [("val", s, z3.BoolVal(True))]

            def body(s: State, itname=itname) -> List:
                res = []
                for k2, s2, x in self.call_next(s.env[itname], s, fr, n):
                    if k2 == "raise":
                        if x.aux == "StopIteration":
                            res.append(("break", s2, None))
                        else:
                            res.append((k2, s2, x))
                        continue
                    for k3, s3, _ in self.assign(n.target, x, s2.copy(), fr, None):
                        res.extend(self.block(n.body, s3, fr) if k3 == "normal" else [(k3, s3, _)])
                return res
            out.extend(self.cut_loop(s1, fr, ordinal, n, guard, body, assigned, extra2))
        return out

    # dict iteration: ghost order sequence, a bijection between [0, len) and the key set
    def dict_iter_setup(self, st: State, it: Val) -> None:
        """Every key of the dict has exactly one position in [0, len) (A-DICTORDER; the dict is not modified while iterated:
        Python raises RuntimeError otherwise)."""
        d = it.items[0]
        kty = d.ty.args[0]
        if kty.kind in ("obj",):
            return
        ks = V.sort_of(kty)
        order = self.uf("dorder_" + V.sort_key(ks), V.Ref, z3.IntSort(), ks)
        pos = self.uf("dpos_" + V.sort_key(ks), V.Ref, ks, z3.IntSort())
        k = z3.Const("di_k", ks)
        n = self.coll_len(st.heap, d)
        has = self.dict_has(st.heap, d, Val(kty, k))
        st.assume(z3.ForAll([k], z3.Implies(has, z3.And(0 <= pos(d.t, k), pos(d.t, k) < n, order(d.t, pos(d.t, k)) == k))))
        j = z3.Int("di_j")
        okey = Val(kty, order(d.t, j))
        st.assume(z3.ForAll([j], z3.Implies(z3.And(0 <= j, j < n), z3.And(self.dict_has(st.heap, d, okey), pos(d.t, order(d.t, j)) == j))))

    def dict_iter_element(self, s: State, it: Val, i) -> Val:
        d = it.items[0]
        mode = it.aux
        kty = d.ty.args[0]
        ks = V.sort_of(kty)
        if kty.kind in ("obj",):
            raise OutOfSubset("iteration over a dict keyed by objects")
        order = self.uf("dorder_" + V.sort_key(ks), V.Ref, z3.IntSort(), ks)
        key = Val(kty, order(d.t, i))
        # facts for this position: the key is present; positions are injective (stated pairwise with a ghost inverse)
        pos = self.uf("dpos_" + V.sort_key(ks), V.Ref, ks, z3.IntSort())
        s.assume(self.dict_has(s.heap, d, key))
        s.assume(pos(d.t, key.t) == i)
        if mode == "keys":
            return key
        val = self.dict_get(s.heap, d, key)
        if mode == "values":
            return val
        return Val(V.TupleT(kty, val.ty), None, items=[key, val])

    # ------------------------------------------------------------------ the loop rule
    def cut_loop(self, st: State, fr: Frame, ordinal: int, node, guard, body, assigned: Set[str], extra: Dict[str, Val]) -> List:
        target = fr.fn.qualname if fr.fn is not None else fr.module.name
        iv = S.INVARIANTS.get((target, ordinal))
        loc_label = f"loop{ordinal}"
        entry_heap = dict(st.heap)
        entry_env = dict(st.env)

        def inv_clauses(s: State) -> List[Tuple[str, z3.BoolRef]]:
            if iv is None:
                return []
            args = {k: v for k, v in s.env.items() if not k.startswith("$decl:")}
            args.update(extra)
            ss = S.SpecState(self, args, s.heap, entry_heap, None, {"entry_env": entry_env})
            return [(lbl, f(ss)) for lbl, f in iv.clauses]

        # 1. establish (the base-case definitions of the spec folds are available here too)
        if iv is not None and iv.defs:
            st = st.copy()
            eargs = {k: v for k, v in st.env.items() if not k.startswith("$decl:")}
            eargs.update(extra)
            ess = S.SpecState(self, eargs, st.heap, entry_heap, None, {"entry_env": entry_env})
            for lbl, f in iv.defs:
                st.assume(f(ess))
        for lbl, g in inv_clauses(st):
            self.vc(st, g, f"{loc_label}.established", lbl, node, fr)

        # 2. find what one arbitrary iteration may modify (discovery pass: everything havocked, no VCs)
        def havoc(s: State, heap_keys, names) -> State:
            h = s.copy()
            for k in heap_keys:
                if k in h.heap:
                    h.heap[k] = z3.Const(V.fresh_name("Hl_" + "_".join(str(x) for x in (k if isinstance(k, tuple) else (k,)))), h.heap[k].sort())
                    ax = self.heap_array_wf(k, h.heap[k])
                    if ax is not None:
                        h.assume(ax)
            for name in names:
                if name in h.env and not name.startswith("$decl:"):
                    old = h.env[name]
                    if old.ty.kind in ("bound", "func", "lambda", "class", "extfn", "cset", "cdict", "clist", "none", "emptydict"):
                        continue
                    h.env[name] = self.havoc_val(old, name)
            return h

        saved_emit, saved_vcs = self.emit, len(self.vcs)
        self.emit = False
        try:
            probe = havoc(st, list(st.heap.keys()), assigned)
            for lbl, g in inv_clauses(probe):
                probe.assume(g)
            modified: Set[object] = set()
            new_names: Set[str] = set()
            for k, s1, c in guard(probe):
                if k == "raise":
                    continue
                s1 = s1.copy()
                s1.assume(c)
                for k2, s2, _ in body(s1):
                    for hk, hv in s2.heap.items():
                        if hk not in probe.heap:
                            if not (z3.is_const(hv) and hv.decl().name().startswith("H0_")):
                                modified.add(hk)
                        elif not hv.eq(probe.heap[hk]):
                            modified.add(hk)
        finally:
            self.emit = saved_emit
            del self.vcs[saved_vcs:]
        if iv is not None:
            for spec in iv.extra_modifies:
                modified.add(spec)
        # keys first created inside the body need an initial array at loop entry so that they can be havocked consistently
        for hk in modified:
            if hk not in st.heap:
                pass

        # 2b. frame inference: re-probe with only the modified keys havocked; if every write to a Ref-indexed array in one iteration is a
        #     Store at loop-invariant references (terms free of havocked constants), an arbitrary number of iterations changes the array
        #     at those references only -> havoc pointwise instead of the whole array.
        pointwise: Dict[object, List] = {}
        self.emit = False
        try:
            probe2 = havoc(st, [k for k in modified if k in st.heap], assigned)
            for lbl, g in inv_clauses(probe2):
                probe2.assume(g)
            cand: Dict[object, Optional[List]] = {}
            for k, s1, c in guard(probe2):
                if k == "raise":
                    continue
                s1 = s1.copy()
                s1.assume(c)
                for k2, s2, _ in body(s1):
                    for hk in modified:
                        if hk not in probe2.heap or hk not in s2.heap:
                            cand[hk] = None
                            continue
                        idx = self.store_indices(s2.heap[hk], probe2.heap[hk])
                        if idx is None or any(self.mentions_havocked(i) for i in idx):
                            cand[hk] = None
                        elif cand.get(hk, []) is not None:
                            cur = cand.setdefault(hk, [])
                            for i in idx:
                                if not any(i.eq(x) for x in cur):
                                    cur.append(i)
            pointwise = {hk: v for hk, v in cand.items() if v is not None and hk in st.heap and z3.is_array(st.heap[hk]) and st.heap[hk].sort().domain() == V.Ref}
        except OutOfSubset:
            pointwise = {}
        finally:
            self.emit = saved_emit
            del self.vcs[saved_vcs:]

        # 3. the real pass: havoc modified heap keys + assigned locals, assume invariant, run guard+body, check invariant at back edges
        h = havoc(st, [k for k in modified if k in st.heap and k not in pointwise], assigned)
        for hk, idxs in pointwise.items():
            arr = st.heap[hk]
            for i in idxs:
                slot = z3.Const(V.fresh_name("Hp_" + "_".join(str(x) for x in (hk if isinstance(hk, tuple) else (hk,)))), arr.sort().range())
                if hk in (("llen",), ("dlen",)):
                    h.assume(slot >= 0)           # type invariant: collection lengths are non-negative
                arr = z3.Store(arr, i, slot)
            h.heap[hk] = arr
        # names assigned in the body but unbound at entry stay unbound (python would raise UnboundLocalError after zero iterations)
        for lbl, g in inv_clauses(h):
            h.assume(g)
        for name in assigned:
            # the hidden position variable of a `for` over a list / range / dict only ever counts up from 0
            if name.startswith("$i") and name[2:].isdigit() and name in h.env and h.env[name].ty.kind == "int":
                h.assume(h.env[name].t >= 0)
        if iv is not None and iv.defs:
            dargs = {k: v for k, v in h.env.items() if not k.startswith("$decl:")}
            dargs.update(extra)
            dss = S.SpecState(self, dargs, h.heap, entry_heap, None, {"entry_env": entry_env})
            for lbl, f in iv.defs:
                h.assume(f(dss))
        self.loop_frame_facts(st, h, modified)
        out: List = []
        for k, s1, c in guard(h):
            if k == "raise":
                out.append((k, s1, c))
                continue
            # exit: invariant and not guard
            if not V.is_true(c):
                sx = s1.copy()
                sx.assume(z3.Not(c))
                if self.feasible(sx):
                    out.append(("normal", sx, None))
            sb = s1.copy()
            sb.assume(c)
            if not self.feasible(sb):
                continue
            for k2, s2, v2 in body(sb):
                if k2 in ("normal", "continue"):
                    for lbl, g in inv_clauses(s2):
                        self.vc(s2, g, f"{loc_label}.preserved", lbl, node, fr)
                elif k2 == "break":
                    out.append(("normal", s2, None))
                else:
                    out.append((k2, s2, v2))
        return out

    @staticmethod
    def store_indices(term, base) -> Optional[List]:
        """Index terms of a Store/If tree over `base`; None if the term has any other shape."""
        if term.eq(base):
            return []
        if z3.is_app(term) and term.decl().kind() == z3.Z3_OP_STORE:
            rest = StmtMixin.store_indices(term.arg(0), base)
            return None if rest is None else rest + [term.arg(1)]
        if z3.is_app(term) and term.decl().kind() == z3.Z3_OP_ITE:
            a, b = StmtMixin.store_indices(term.arg(1), base), StmtMixin.store_indices(term.arg(2), base)
            return None if a is None or b is None else a + b
        return None

    @staticmethod
    def mentions_havocked(t) -> bool:
        seen = set()
        todo = [t]
        while todo:
            x = todo.pop()
            if x.get_id() in seen:
                continue
            seen.add(x.get_id())
            if z3.is_const(x) and x.decl().kind() == z3.Z3_OP_UNINTERPRETED:
                n = x.decl().name()
                if n.startswith("Hl_") or n.startswith("L_") or n.startswith("Hp_"):
                    return True
            todo.extend(x.children())
        return False

    def loop_frame_facts(self, entry: State, h: State, modified) -> None:
        """Allocation only grows across iterations."""
        if ("alloc",) in modified and ("alloc",) in entry.heap:
            h.assume(h.heap[("alloc",)] >= entry.heap[("alloc",)])

    def havoc_val(self, old: Val, name: str) -> Val:
        if old.ty.kind in ("tuple",):
            return Val(old.ty, None, items=[self.havoc_val(x, f"{name}_{i}") for i, x in enumerate(old.items)])
        if old.ty.kind == "ntuple" and old.items is not None:
            return Val(old.ty, None, items={n: self.havoc_val(x, f"{name}_{n}") for n, x in old.items.items()})
        if old.t is None:
            return old
        t = z3.Const(V.fresh_name("L_" + name.replace("$", "")), old.t.sort())
        none = z3.Const(V.fresh_name("L_" + name.replace("$", "") + "_none"), z3.BoolSort()) if old.ty.kind == "opt" else None
        return Val(old.ty, t, none=none, items=old.items if old.ty.kind in ("range", "enumerate", "dictiter") else None, aux=old.aux if old.ty.kind in ("bound", "dictiter") else None)
