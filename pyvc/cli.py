import argparse
import json
import os
import sys


def main() -> int:
    ap = argparse.ArgumentParser(prog="verif")
    sub = ap.add_subparsers(dest="cmd", required=True)
    c = sub.add_parser("check")
    c.add_argument("pid")
    c.add_argument("--tier", default=os.environ.get("VERIF_TIER", "quick"), choices=["quick", "thorough"])
    c.add_argument("--repo", default="/repo")
    r = sub.add_parser("replay")
    r.add_argument("path")
    a = ap.parse_args()
    if a.cmd == "check":
        from pyvc import driver
        return driver.run(a.pid, a.tier, a.repo, int(os.environ.get("VERIF_SEED", "0") or 0))
    if a.cmd == "replay":
        from pyvc import replay
        return replay.main(a.path)
    return 2


if __name__ == "__main__":
    sys.exit(main())
