"""Calls: resolution, inlining of real bodies, application of contracts, builtins and external functions, `verify`."""
from __future__ import annotations

import ast
import os
import sys
import fractions
import z3
from typing import Callable, Dict, List, Optional, Set, Tuple

from . import vals as V
from .vals import Val, Ty, INT, BOOL, DEC, FLOAT, STR, DATE, DATETIME, NONE, ANY, EXC
from .source import FuncInfo, ClassInfo, ModuleInfo, ExtractionError
from .base import VC, State, Frame, OutOfSubset, exc_val
from .symex_expr import PDEC, TDELTA, US_PER_DAY
from . import spec as S

EXC_BUILTINS = {"Exception", "StopIteration", "ValueError", "TypeError", "KeyError", "IndexError", "RuntimeError",
                "NotImplementedError", "ZeroDivisionError", "AttributeError", "SystemExit", "ImportError", "ModuleNotFoundError"}


class CallMixin:
    # ------------------------------------------------------------------ call expressions
    def call_expr(self, e: ast.Call, st: State, fr: Frame) -> List:
        for kw in e.keywords:
            if kw.arg is None:
                raise OutOfSubset("**kwargs call")
        if any(isinstance(a, ast.Starred) for a in e.args):
            raise OutOfSubset("*args call")
        # special forms that must see the syntax
        if isinstance(e.func, ast.Name) and e.func.id not in st.env:
            nm = e.func.id
            if nm == "cast" and len(e.args) == 2:
                return self.ev(e.args[1], st, fr)          # cast(T, e) is the identity (dropped, DESIGN 4.1)
            if nm == "isinstance" and len(e.args) == 2:
                return self.seq([e.args[0]], st, fr, lambda s, vs: self.val(s, V.boolv(self.isinstance_expr(vs[0], e.args[1], s, fr))))
            if nm == "super" and not e.args:
                return self.val(st, Val(Ty("super", fr.cls.qualname), None, aux=st.env.get(fr.fn.params[0]) if fr.fn and fr.fn.params else None))
            if nm == "hasattr":
                raise OutOfSubset("hasattr")
        if isinstance(e.func, ast.Attribute) and isinstance(e.func.value, ast.Call) and isinstance(e.func.value.func, ast.Name) \
                and e.func.value.func.id == "super" and fr.cls is not None:
            # super().m(...)
            mro = fr.cls.mro
            target = None
            for k in mro[1:]:
                if k in self.tree.classes and e.func.attr in self.tree.classes[k].methods:
                    target = self.tree.classes[k].methods[e.func.attr]
                    break
            selfv = st.env.get(fr.fn.params[0])
            if target is None:
                if e.func.attr == "__init__":
                    return self.seq(list(e.args) + [k.value for k in e.keywords], st, fr, lambda s, vs: self.val(s, V.NONEV))    # object.__init__ / Exception.__init__
                raise OutOfSubset(f"super().{e.func.attr} not found")
            return self.seq(list(e.args) + [k.value for k in e.keywords], st, fr,
                            lambda s, vs: self.invoke(target, selfv, vs[:len(e.args)], dict(zip([k.arg for k in e.keywords], vs[len(e.args):])), s, fr, e))
        is_logger = isinstance(e.func, ast.Attribute) and isinstance(e.func.value, ast.Name) and e.func.value.id == "LOGGER"
        if is_logger:
            # logger calls have no effect on verified state; their arguments are still executed for run-time-error freedom
            # (where an argument is outside the encoded subset it is skipped and noted)
            try:
                return self.seq(list(e.args) + [kw.value for kw in e.keywords], st, fr, lambda s, vs: self.val(s, V.NONEV))
            except OutOfSubset as exc:
                self.notes.append(f"logger argument skipped at {fr.module.relpath}:{e.lineno}: {exc}")
                return self.val(st, V.NONEV)
        out = []
        for k, s1, f in self.ev(e.func, st, fr):
            if k == "raise":
                out.append((k, s1, f))
                continue
            out.extend(self.seq(list(e.args) + [kw.value for kw in e.keywords], s1, fr,
                                lambda s, vs, f=f: self.call_value(f, vs[:len(e.args)], dict(zip([kw.arg for kw in e.keywords], vs[len(e.args):])), s, fr, e)))
        return out

    def isinstance_expr(self, v: Val, texpr: ast.expr, st: State, fr: Frame):
        types = texpr.elts if isinstance(texpr, ast.Tuple) else [texpr]
        parts = []
        for t in types:
            name = t.id if isinstance(t, ast.Name) else getattr(t, "attr", "?")
            parts.append(self.isinstance_one(v, name, st, fr))
        return z3.Or(*parts) if len(parts) > 1 else parts[0]

    def isinstance_one(self, v: Val, name: str, st: State, fr: Frame):
        k = v.ty.kind
        if k == "opt":
            return z3.And(z3.Not(v.none), self.isinstance_one(V.deopt(v), name, st, fr))
        if k == "none":
            return z3.BoolVal(False)
        simple = {"str": {"str"}, "int": {"int", "bool"}, "float": {"float"}, "bool": {"bool"}, "RP2Decimal": {"dec"}, "Decimal": {"dec", "pdec"},
                  "date": {"date", "datetime"}, "datetime": {"datetime"}, "List": {"list", "clist"}, "list": {"list", "clist"}, "Dict": {"dict", "cdict"},
                  "dict": {"dict", "cdict"}, "Set": {"set", "cset"}, "set": {"set", "cset"}}
        if name in simple and k not in ("obj", "any", "ext"):
            return z3.BoolVal(k in simple[name])
        q = self.tree.resolve_name(fr.module, name)
        if name == "cls" and "cls" in st.env and st.env["cls"].ty.kind == "class":
            q = st.env["cls"].ty.args[0]
        if q in self.tree.classes:
            c = self.tree.classes[q]
            if k == "obj":
                if self.tree.is_subclass(v.ty.args[0], q):
                    return z3.BoolVal(True)           # A-ANNOT: static type already implies it
                return self.isinstance_term(v, q)
            if k == "enum":
                return z3.BoolVal(v.ty.args[0] == q)
            if k == "rec":
                return z3.BoolVal(v.ty.args[0] == q)
            if k in ("any", "ext"):
                return self.uf("any_isinstance_" + q.replace(".", "_"), V.Ref, z3.BoolSort())(v.t)
            return z3.BoolVal(False)
        if k in ("any", "ext"):
            return self.uf("any_isinstance_" + name, V.Ref, z3.BoolSort())(v.t)
        if k == "obj":
            return z3.BoolVal(False)
        raise OutOfSubset(f"isinstance({v.ty}, {name})")

    # ------------------------------------------------------------------ call by value kind
    def call_value(self, f: Val, args: List[Val], kwargs: Dict[str, Val], st: State, fr: Frame, node) -> List:
        k = f.ty.kind
        if k == "func":
            return self.invoke(self.tree.func(f.ty.args[0]), None, args, kwargs, st, fr, node)
        if k == "bound":
            name = f.ty.args[0]
            if name.startswith("dyn:"):
                return self.dispatch(f.aux, name[4:], args, kwargs, st, fr, node)
            if name in self.tree.functions:
                fi = self.tree.functions[name]
                recv = f.aux
                if fi.is_staticmethod:
                    recv = None
                elif fi.is_classmethod:
                    recv = f.aux if (f.aux is not None and f.aux.ty.kind == "class") else Val(V.ClassT(fi.cls.qualname))
                elif recv is None:
                    # Class.method(self, ...) explicit
                    recv, args = args[0], args[1:]
                return self.invoke(fi, recv, args, kwargs, st, fr, node)
            return self.builtin_method(name, f.aux, args, kwargs, st, fr, node)
        if k == "class":
            return self.construct(f.ty.args[0], args, kwargs, st, fr, node)
        if k == "dynclass":
            # obj.__class__(...): same class as the receiver; case split over concrete subclasses
            recv = f.aux
            subs = [q for q in self.tree.subclasses(f.ty.args[0])]
            out = []
            for q in subs:
                c = V.cls_of(recv.t) == self.class_ids[q]
                if not self.feasible_with(st, c):
                    continue
                s2 = st.copy()
                s2.assume(c)
                out.extend(self.construct(q, args, kwargs, s2, fr, node))
            return out
        if k == "extfn":
            return self.external_call(f.ty.args[0], args, kwargs, st, fr, node)
        if k == "lambda":
            lam, env, lfr = f.aux
            s2 = State(dict(env), st.heap, st.pc, st.depth)
            for p, a in zip([x.arg for x in lam.args.args], args):
                s2.env[p] = a
            return [(kk, State(st.env, s3.heap, s3.pc, st.depth), v) for kk, s3, v in self.ev(lam.body, s2, lfr)]
        if k == "super":
            raise OutOfSubset("bare super() call value")
        raise OutOfSubset(f"call of {f.ty}")

    # ------------------------------------------------------------------ dynamic dispatch
    def dispatch(self, o: Val, name: str, args: List[Val], kwargs: Dict[str, Val], st: State, fr: Frame, node) -> List:
        if o.ty.kind == "opt":
            self.vc(st, z3.Not(o.none), "safety", f"none_deref.{name}", node, fr)
            st = st.copy()
            st.assume(z3.Not(o.none))
            o = V.deopt(o)
        q = o.ty.args[0]
        impls = self.overriders(q, name)
        groups: Dict[str, List[str]] = {}
        for k, f in impls.items():
            groups.setdefault(f.qualname, []).append(k)
        static_impl = self.tree.find_method(q, name)
        if not groups:
            if static_impl is None:
                raise OutOfSubset(f"no implementation of {name} for {q}")
            return self.invoke(static_impl, o, args, kwargs, st, fr, node)
        if len(groups) == 1:
            fq = next(iter(groups))
            return self.invoke(self.tree.functions[fq], o, args, kwargs, st, fr, node)
        out = []
        for fq, classes in sorted(groups.items()):
            c = z3.Or(*[V.cls_of(o.t) == self.class_ids[k] for k in classes])
            if not self.feasible_with(st, c):
                continue
            s2 = st.copy()
            s2.assume(c)
            fi = self.tree.functions[fq]
            # narrow the receiver to the most general class of the group that is a subclass of the static type
            narrowed = o
            common = [k for k in classes if all(self.tree.is_subclass(x, k) for x in classes)]
            if common and self.tree.is_subclass(common[0], q):
                narrowed = Val(V.Obj(common[0]), o.t)
            out.extend(self.invoke(fi, narrowed, args, kwargs, s2, fr, node))
        return out

    # ------------------------------------------------------------------ constructors
    def construct(self, q: str, args: List[Val], kwargs: Dict[str, Val], st: State, fr: Frame, node) -> List:
        if q == "rp2.rp2_decimal.RP2Decimal":
            return self.make_decimal(args[0], st, fr, node, rp2=True)
        c = self.tree.cls(q)
        if any(b in c.mro for b in ("Exception", "BaseException")):
            return self.val(st, exc_val(c.name))
        if c.is_namedtuple:
            items = {}
            for (n, a), v in zip(c.fields, args):
                items[n] = v
            for n, v in kwargs.items():
                items[n] = v
            if set(items) != {n for n, _ in c.fields}:
                raise OutOfSubset(f"namedtuple {q}: missing fields")
            items = {n: items[n] for n, _ in c.fields}
            return self.val(st, Val(Ty("ntuple", q), None, items=items))
        if c.is_dataclass and c.dataclass_frozen:
            flds = {}
            for (n, a), v in zip(c.fields, args):
                flds[n] = v
            flds.update(kwargs)
            rv = self.rec_make(q, flds)
            post = self.tree.find_method(q, "__post_init__")
            if post is not None:
                out = []
                for k, s2, v in self.invoke(post, rv, [], {}, st, fr, node):
                    out.append((k, s2, rv if k == "val" else v))
                return out
            return self.val(st, rv)
        if c.is_enum:
            raise OutOfSubset("Enum(value) call")
        init = self.tree.find_method(q, "__init__")
        s2 = st.copy()
        obj = self.allocate(s2, V.Obj(q), c.name.lower())
        if init is None:
            return self.val(s2, obj)
        out = []
        for k, s3, v in self.invoke(init, obj, args, kwargs, s2, fr, node):
            out.append((k, s3, obj if k == "val" else v))
        return out

    # ------------------------------------------------------------------ invoke an rp2 function: contract or real body
    def bind(self, fi: FuncInfo, recv: Optional[Val], args: List[Val], kwargs: Dict[str, Val], st: State) -> Dict[str, Val]:
        params = fi.params
        env: Dict[str, Val] = {}
        pos = list(args)
        if recv is not None and not fi.is_staticmethod:
            pos = [recv] + pos
        if len(pos) > len(params):
            raise OutOfSubset(f"too many positional arguments for {fi.qualname}")
        for p, a in zip(params, pos):
            env[p] = a
        for k, v in kwargs.items():
            if k in env or (k not in params and k not in fi.kwonly):
                raise OutOfSubset(f"bad keyword {k} for {fi.qualname}")
            env[k] = v
        defaults = fi.defaults()
        dfr = Frame(fi, fi.module, fi.cls)
        for p in params + fi.kwonly:
            if p not in env:
                if p not in defaults:
                    raise OutOfSubset(f"missing argument {p} for {fi.qualname}")
                env[p] = self.ev1(defaults[p], State({}, st.heap, st.pc), dfr)
        # coerce to annotated types (Optional wrapping etc.)
        for p in list(env):
            ann = fi.annotation(p)
            if ann is not None:
                t = self.type_of_annotation(ann, fi.module, fi.cls)
                v = env[p]
                if t.kind in ("any", "iter") or v.ty.kind in ("tuple", "ntuple", "bound", "func", "lambda", "class", "extfn", "cset", "cdict", "clist", "exc", "dynclass", "emptydict"):
                    continue
                try:
                    if t.kind == "obj" and v.ty.kind == "obj" and self.tree.is_subclass(v.ty.args[0], t.args[0]):
                        continue
                    if t.kind == "opt" and t.args[0].kind == "obj" and V.deopt(v).ty.kind == "obj" and self.tree.is_subclass(V.deopt(v).ty.args[0], t.args[0].args[0]):
                        if v.ty.kind != "opt":
                            env[p] = Val(V.Opt(v.ty), v.t, none=z3.BoolVal(False))
                        continue
                    env[p] = self.coerce(v, t)
                except OutOfSubset:
                    pass
        return env

    def invoke(self, fi: FuncInfo, recv: Optional[Val], args: List[Val], kwargs: Dict[str, Val], st: State, fr: Frame, node) -> List:
        k = S.CONTRACTS.get(fi.qualname)
        env = self.bind(fi, recv, args, kwargs, st)
        if k is not None and not k.inline and (k.requires_ or k.ensures_ or k.raises_ or k.never_ or k.modifies_declared or k.assumed):
            ret_ty = self.type_of_annotation(fi.node.returns, fi.module, fi.cls) if fi.node.returns is not None else NONE
            return self.apply_contract(k, env, ret_ty, st, fr, node, fi.qualname)
        if fi.qualname in self.call_stack or len(self.call_stack) > self.inline_depth_limit:
            raise OutOfSubset(f"recursive/too deep call of {fi.qualname} without contract")
        if "lru_cache" in fi.decorators:
            pass
        self.call_stack.append(fi.qualname)
        try:
            callee = State(env, st.heap, st.pc, st.depth + 1)
            cfr = Frame(fi, fi.module, fi.cls)
            out = []
            for kind, s2, v in self.block(fi.node.body, callee, cfr):
                s3 = State(st.env, s2.heap, s2.pc, st.depth)
                if kind == "normal":
                    out.append(("val", s3, V.NONEV))
                elif kind == "return":
                    out.append(("val", s3, v))
                elif kind == "raise":
                    out.append(("raise", s3, v))
                else:
                    raise OutOfSubset(f"{kind} escapes function {fi.qualname}")
            return out
        finally:
            self.call_stack.pop()

    # ------------------------------------------------------------------ contracts at call sites
    def heap_keys_of(self, heap: dict, spec) -> List[object]:
        if isinstance(spec, tuple):
            if spec not in heap:
                self.heap_get(heap, spec, self.heap_key_sort(spec))
            return [spec]
        m = self.tree.field(spec)
        t = self.field_type(m)
        self.field_arr(heap, m)
        keys: List[object] = [("f", m)]
        if t.kind == "opt":
            self.field_none_arr(heap, m)
            keys.append(("fn", m))
        return keys

    def apply_contract(self, k: S.Contract, env: Dict[str, Val], ret_ty: Ty, st: State, fr: Frame, node, qual: str) -> List:
        short = qual.split(".")[-2] + "." + qual.split(".")[-1] if qual.count(".") else qual
        pre = S.SpecState(self, env, st.heap, st.heap)
        for lbl, f in k.requires_:
            g = f(pre)
            if not self.entails(st, g):
                self.vc(st, g, "pre", f"{short}.{lbl}", node, fr)
        s2 = st.copy()
        for lbl, f in k.requires_:
            s2.assume(f(pre))
        for lbl, f in k.defines_:
            s2.assume(f(pre))
        old_heap = dict(s2.heap)
        # the result value exists before the frame is applied so that a frame clause can name it ("changes only at the returned object")
        if getattr(k, "fresh_result", False) and ret_ty.kind in ("obj", "list", "dict", "set"):
            # the callee returns a newly allocated object: the executor allocates it (birth time = now), the callee's own allocations follow
            res = self.allocate(s2, ret_ty, "ret", pin_class=False)      # dynamic class: given by the contract (may be a subclass)
        else:
            res = V.fresh(ret_ty, "ret") if ret_ty.kind not in ("none",) else V.NONEV
        if res.ty.kind == "ntuple":
            c = self.tree.cls(res.ty.args[0])
            res = Val(res.ty, None, items={n: V.fresh(self.type_of_annotation(a, c.module, c), "ret_" + n) for n, a in c.fields})
        elif res.ty.kind == "opt" and res.ty.args[0].kind == "ntuple":
            # Optional[NamedTuple]: a none flag plus one fresh term per field (read only where the flag is false)
            c = self.tree.cls(res.ty.args[0].args[0])
            res = Val(res.ty, None, none=z3.Const(V.fresh_name("ret_isnone"), z3.BoolSort()),
                      items={n: V.fresh(self.type_of_annotation(a, c.module, c), "ret_" + n) for n, a in c.fields})
        pre = S.SpecState(self, env, st.heap, st.heap, res)
        for spec, refs in k.modifies_:
            for key in self.heap_keys_of(s2.heap, spec):
                old = s2.heap[key]
                if isinstance(refs, S._FreshOnly):
                    new = z3.Const(V.fresh_name("Hc_" + "_".join(str(x) for x in key)), old.sort())
                    fr_r = z3.Const("fo_r", V.Ref)
                    keep = self.is_alloc(old_heap, fr_r)
                    for r in (refs.refs(pre) if refs.refs is not None else []):
                        keep = z3.And(keep, fr_r != (r.t if hasattr(r, "t") else r))
                    s2.assume(z3.ForAll([fr_r], z3.Implies(keep, z3.Select(new, fr_r) == z3.Select(old, fr_r))))
                    s2.heap[key] = new
                elif refs is None:
                    s2.heap[key] = z3.Const(V.fresh_name("Hc_" + "_".join(str(x) for x in key)), old.sort())
                    if key == ("alloc",):
                        s2.assume(s2.heap[key] >= old)       # the allocation clock only moves forward
                else:
                    new = old
                    for r in refs(pre):
                        r = r.t if hasattr(r, "t") else r
                        new = z3.Store(new, r, z3.Const(V.fresh_name("Hc_" + "_".join(str(x) for x in key)), old.sort().range()))
                    s2.heap[key] = new
        for key, arr in s2.heap.items():
            if key in (("llen",), ("dlen",)) and (old_heap.get(key) is None or not arr.eq(old_heap[key])):
                s2.assume(self.heap_array_wf(key, arr))
        out = []
        # exceptional outcomes
        for lbl, exc, when, iff in k.raises_:
            s3 = s2.copy()
            if when is not None:
                c = when(pre)
                if not self.feasible_with(s3, c):
                    continue
                s3.assume(c)
            xpost = S.SpecState(self, env, s3.heap, old_heap, None, {"skolem": {}})
            for xexc, xl, xf in k.exc_ensures_:
                if self.exc_subclass(exc, xexc):
                    s3.assume(xf(xpost))
            out.append(("raise", s3, exc_val(exc)))
        # normal outcome
        s4 = s2
        for lbl, exc, when, iff in k.raises_:
            if iff and when is not None:
                s4.assume(z3.Not(when(pre)))
        if not self.feasible(s4):
            return out
        self.assume_wf(s4, res)
        post = S.SpecState(self, env, s4.heap, old_heap, res, {"skolem": {}})
        for lbl, f in k.ensures_:
            s4.assume(f(post))
            if os.environ.get("PYVC_TRACE") and res.none is not None and not self.feasible_with(s4, z3.Not(res.none)):
                print("NOT-NONE INFEASIBLE after assuming", qual, lbl, file=sys.stderr)
                break
        for wv in post.extra["skolem"].values():
            self.assume_wf(s4, wv)
        if k.ensures_ and not self.feasible(s4):
            # the state was feasible before the postconditions were assumed: the contract contradicts its own frame at this call site
            # (typically a missing `modifies`); everything after the call would be proved vacuously, so this is reported, never silent
            self.contradictory_contracts.append(f"{qual} at {getattr(node, 'lineno', '?')} in {self.cur_func}")
        out.append(("val", s4, res))
        return out

    def assume_wf(self, s: State, v: Val) -> None:
        """Values handed out by a callee are allocated and of a class in their static type's domain (A-ANNOT)."""
        if v.ty.kind == "obj":
            self.assume_allocated(s, v)
            s.assume(self.class_domain(v))
            self.assume_closed(s, v, 2)
        elif v.ty.kind == "opt" and v.ty.args[0].kind == "obj":
            inner = V.deopt(v)
            s.assume(z3.Or(v.none, z3.And(self.is_alloc(s.heap, v.t), self.class_domain(inner))))
        elif v.ty.kind in ("list", "dict", "set"):
            self.assume_allocated(s, v)
        elif v.ty.kind == "tuple" and v.items:
            for x in v.items:
                self.assume_wf(s, x)
        elif v.ty.kind == "ntuple" and v.items:
            for x in v.items.values():
                self.assume_wf(s, x)

    def assume_closed(self, s: State, v: Val, depth: int) -> None:
        """Heap closedness (a property of every Python heap): what an allocated object's fields refer to is allocated too.
        Stated for the instance fields declared by the static class of `v` and its bases, `depth` levels deep."""
        if depth <= 0 or v.ty.kind != "obj":
            return
        q = v.ty.args[0]
        bases = {k for k in self.tree.cls(q).mro if k in self.tree.classes}
        for m, (c, ann, val, f) in self.field_table().items():
            if c.qualname not in bases:
                continue
            try:
                t = self.field_type(m)
            except (OutOfSubset, ExtractionError):
                continue
            inner = t.args[0] if t.kind == "opt" else t
            if inner.kind not in ("obj", "list", "dict", "set"):
                continue
            try:
                fv = self.read_field(s.heap, v, m, s)
            except (OutOfSubset, ExtractionError):
                continue
            if inner.kind == "obj" and not self.reaches_collection(inner.args[0], depth - 1):
                continue            # only chains that end in a list/dict/set matter for frame reasoning; keeps arithmetic VCs small
            al = self.is_alloc(s.heap, fv.t)
            if t.kind == "opt":
                s.assume(z3.Or(fv.none, al))
            else:
                s.assume(al)
                if inner.kind == "obj":
                    s.assume(self.class_domain(Val(inner, fv.t)))
                    self.assume_closed(s, Val(inner, fv.t), depth - 1)

    def reaches_collection(self, q: str, depth: int) -> bool:
        if depth <= 0:
            return False
        key = ("reach", q, depth)
        if key not in self.uf_cache:
            self.uf_cache[key] = False
            bases = {k for k in self.tree.cls(q).mro if k in self.tree.classes}
            res = False
            for m, (c, ann, val, f) in self.field_table().items():
                if c.qualname not in bases:
                    continue
                try:
                    t = self.field_type(m)
                except (OutOfSubset, ExtractionError):
                    continue
                inner = t.args[0] if t.kind == "opt" else t
                if inner.kind in ("list", "dict", "set") or (inner.kind == "obj" and self.reaches_collection(inner.args[0], depth - 1)):
                    res = True
                    break
            self.uf_cache[key] = res
        return self.uf_cache[key]

    # ------------------------------------------------------------------ iterator protocol
    def call_iter(self, it: Val, st: State, fr: Frame, node) -> List:
        if it.ty.kind == "opt":
            it = V.deopt(it)
        if it.ty.kind == "obj":
            q = it.ty.args[0]
            if self.tree.find_method(q, "__iter__") is not None or self.overriders(q, "__iter__"):
                return self.dispatch(it, "__iter__", [], {}, st, fr, node)
            if self.tree.find_method(q, "__next__") is not None or self.overriders(q, "__next__"):
                return self.val(st, it)
        if it.ty.kind == "iter":
            return self.val(st, it)
        raise OutOfSubset(f"iter() over {it.ty}")

    def call_next(self, it: Val, st: State, fr: Frame, node) -> List:
        if it.ty.kind == "obj":
            return self.dispatch(it, "__next__", [], {}, st, fr, node)
        if it.ty.kind == "iter":
            k = S.CONTRACTS.get("iter.__next__:" + str(it.ty.args[0]))
            if k is None:
                # abstract iterator over T: either yields an arbitrary (well-formed) T or stops
                s1 = st.copy()
                v = V.fresh(it.ty.args[0], "nxt")
                self.assume_wf(s1, v)
                return [("val", s1, v), ("raise", st.copy(), exc_val("StopIteration"))]
        raise OutOfSubset(f"next() over {it.ty}")

    # ------------------------------------------------------------------ builtin methods on values
    def builtin_method(self, name: str, recv: Val, args: List[Val], kwargs: Dict[str, Val], st: State, fr: Frame, node) -> List:
        if name == "list.append":
            s = st.copy()
            self.list_append(s, recv, args[0])
            return self.val(s, V.NONEV)
        if name == "list.pop" and not args:
            n = self.coll_len(st.heap, recv)
            self.vc(st, n > 0, "safety", "pop_nonempty", node, fr)
            s = st.copy()
            s.assume(n > 0)
            v = self.list_get(s.heap, recv, n - 1)
            s.heap[("llen",)] = z3.Store(s.heap[("llen",)], recv.t, n - 1)
            self.post_read(s, v)
            return self.val(s, v)
        if name == "list.sort":
            if args or set(kwargs) - {"key"}:
                raise OutOfSubset("list.sort with positional arguments / reverse")
            s = st.copy()
            self.sort_model(s, recv, recv, kwargs.get("key"), fr, node)
            return self.val(s, V.NONEV)
        if name == "dict.get":
            has = self.dict_has(st.heap, recv, args[0])
            v = self.dict_get(st.heap, recv, args[0])
            dflt = args[1] if len(args) > 1 else V.NONEV
            mv = self.merge_vals(has, v, dflt)
            if mv is None:
                raise OutOfSubset("dict.get with incompatible default")
            return self.val(st, mv)
        if name == "dict.setdefault":
            has = self.dict_has(st.heap, recv, args[0])
            old = self.dict_get(st.heap, recv, args[0])
            mv = self.merge_vals(has, old, args[1])
            if mv is None:
                raise OutOfSubset("dict.setdefault with incompatible default")
            s = st.copy()
            self.dict_set(s, recv, args[0], mv)
            return self.val(s, mv)
        if name in ("dict.items", "dict.keys", "dict.values"):
            return self.val(st, Val(Ty("dictiter"), None, items=[recv], aux=name.split(".")[1]))
        if name == "set.add":
            # a set is a map key -> first element inserted under that key (keys follow the element class's __eq__/__hash__)
            s = st.copy()
            et = recv.ty.args[0]
            asdict = Val(V.DictT(et, et), recv.t)
            has = self.dict_has(s.heap, asdict, args[0])
            old = self.dict_get(s.heap, asdict, args[0]) if et.kind != "opt" else None
            keep = self.merge_vals(has, old, args[0]) if old is not None else None
            self.dict_set(s, asdict, args[0], keep if keep is not None else args[0])
            return self.val(s, V.NONEV)
        if name in ("str.lower", "str.upper", "str.strip"):
            lit = V.lit_of(recv.t)
            op = name.split(".")[1]
            if lit is not None:
                return self.val(st, V.strv(getattr(lit, op)()))
            V.CASE_USED[0] = True
            return self.val(st, Val(STR, {"lower": V.STR_LOWER, "upper": V.STR_UPPER, "strip": V.STR_STRIP}[op](recv.t)))
        if name == "str.endswith" or name == "str.startswith":
            return self.val(st, V.boolv(self.uf("str_" + name.split(".")[1], V.StrS, V.StrS, z3.BoolSort())(recv.t, args[0].t)))
        if name == "dec.quantize":
            return self.val(st, self.quantize(recv, args[0], st))
        if name in ("pdec.__eq__", "pdec.__ge__", "pdec.__gt__", "pdec.__le__", "pdec.__lt__"):
            op = {"__eq__": "Eq", "__ge__": "GtE", "__gt__": "Gt", "__le__": "LtE", "__lt__": "Lt"}[name.split(".")[1]]
            return self.val(st, V.boolv(self.exact_cmp(op, recv.t, args[0].t)))
        if name == "datetime.date":
            s = st.copy()
            x = self.local_us(recv.t)
            for ax in self.day_axioms(x):
                s.assume(ax)
            return self.val(s, Val(DATE, self.local_date(recv.t)))
        if name == "datetime.timestamp":
            # A-FLOATTS: strictly monotone in the instant (distinct microsecond instants map to distinct doubles)
            return self.val(st, Val(FLOAT, z3.ToReal(V.DT.inst(recv.t)) / 1000000))
        if name == "datetime.replace" and not args and set(kwargs) == {"tzinfo"} and kwargs["tzinfo"].ty.kind == "none":
            # naive wall-clock datetime: modelled as the instant that shows the same clock reading at offset 0, so that differences and
            # comparisons of two such values are differences/comparisons of local clock readings (CPython semantics for naive datetimes)
            return self.val(st, Val(DATETIME, V.DT.mkdt(self.local_us(recv.t), z3.IntVal(0)), aux="naive"))
        if name == "datetime.astimezone":
            return self.val(st, Val(DATETIME, V.DT.mkdt(V.DT.inst(recv.t), z3.IntVal(0))))
        if name.startswith("ext.Logger."):
            return self.val(st, V.NONEV)             # logger calls: arguments already evaluated, no effect (dropped)
        if name.startswith("ext."):
            return self.external_call(name, [recv] + args, kwargs, st, fr, node)
        if name == "timedelta.total_seconds":
            return self.val(st, Val(FLOAT, z3.ToReal(recv.t) / 1000000))
        raise OutOfSubset(f"builtin method {name}")

    def quantize(self, x: Val, mask: Val, st: State) -> Val:
        """Decimal.quantize(mask): round-half-even to the number of decimals of `mask` (assumed contract of `decimal`)."""
        import decimal as _d
        if not isinstance(mask.aux, _d.Decimal):
            raise OutOfSubset("quantize with non-constant mask")
        k = -mask.aux.as_tuple().exponent
        scale = z3.RealVal(10 ** k)
        n = z3.Int(V.fresh_name("qz"))
        y = x.t * scale
        # n = round_half_even(y):  |y - n| <= 1/2, and on a tie n is even
        st.assume(z3.And(z3.ToReal(n) - y <= z3.RealVal("1/2"), y - z3.ToReal(n) <= z3.RealVal("1/2"),
                         z3.Implies(z3.Or(z3.ToReal(n) - y == z3.RealVal("1/2"), y - z3.ToReal(n) == z3.RealVal("1/2")), n % 2 == 0)))
        return Val(PDEC, z3.ToReal(n) / scale)

    # ------------------------------------------------------------------ builtin / external functions
    def external_call(self, q: str, args: List[Val], kwargs: Dict[str, Val], st: State, fr: Frame, node) -> List:
        name = q.split(".")[-1]
        k = S.CONTRACTS.get(q)
        if k is not None:
            params = getattr(k, "params", None)
            if params is None:
                raise OutOfSubset(f"external contract {q} lacks params")
            env = dict(zip(params, args))
            env.update(kwargs)
            rt = getattr(k, "returns", NONE)
            if callable(rt):
                rt = rt(env)          # result type derived from the receiver's type arguments (AVLTree[K, V] -> Optional[V])
            return self.apply_contract(k, env, rt, st, fr, node, q)
        if q in ("builtins.len",):
            v = args[0]
            if v.ty.kind in ("list", "dict", "set"):
                return self.val(st, Val(INT, self.coll_len(st.heap, v)))
            if v.ty.kind in ("cset", "clist", "cdict"):
                return self.val(st, V.intv(len(v.items)))
            if v.ty.kind == "tuple":
                return self.val(st, V.intv(len(v.items)))
            if v.ty.kind in ("any", "ext", "str"):
                n = self.uf("len_" + V.sort_key(V.sort_of(v.ty)), V.sort_of(v.ty), z3.IntSort())(v.t)
                s = st.copy()
                s.assume(n >= 0)
                return self.val(s, Val(INT, n))
        if q == "builtins.str":
            v = args[0]
            if v.ty.kind == "str":
                return self.val(st, v)
            if v.t is not None:
                f = self.uf("str_of_" + V.sort_key(v.t.sort()), v.t.sort(), V.StrS)
                if v.t.sort() == z3.IntSort():
                    # str() of an int is injective (decimal notation): stated through a left inverse, which is pattern-friendly
                    inv = self.uf("int_of_str_of_Int", V.StrS, z3.IntSort())
                    a = z3.Int("soi_a")
                    ax = z3.ForAll([a], inv(f(a)) == a)
                    if not any(ax.eq(x) for x in self.global_axioms):
                        self.global_axioms.append(ax)
                return self.val(st, Val(STR, f(v.t)))
        if q == "builtins.repr" or q == "builtins.type":
            return self.val(st, Val(STR, z3.Const(V.fresh_name("repr"), V.StrS)))
        if q == "builtins.id":
            return self.val(st, Val(INT, self.uf("py_id", V.Ref, z3.IntSort())(args[0].t)))
        if q == "builtins.hash":
            return self.val(st, Val(INT, z3.Const(V.fresh_name("hash"), z3.IntSort())))
        if q == "builtins.int":
            v = args[0]
            if v.ty.kind == "int":
                return self.val(st, v)
            if v.ty.kind == "str":
                # int(str): total-or-ValueError uninterpreted function
                ok = self.uf("str_is_int", V.StrS, z3.BoolSort())(v.t)
                s1, s2 = st.copy(), st.copy()
                s1.assume(ok)
                s2.assume(z3.Not(ok))
                return [("val", s1, Val(INT, self.uf("str_to_int", V.StrS, z3.IntSort())(v.t))), ("raise", s2, exc_val("ValueError"))]
        if q == "builtins.float":
            v = args[0]
            if v.ty.kind in ("dec", "pdec", "float"):
                return self.val(st, Val(FLOAT, v.t, aux="float-of-decimal"))
            if v.ty.kind == "int":
                return self.val(st, Val(FLOAT, z3.ToReal(v.t)))
        if q == "builtins.bool":
            return self.val(st, V.boolv(self.truth(args[0], st)))
        if q == "builtins.set" and not args:
            s = st.copy()
            return self.val(s, self.new_dict_typed(s, V.SetT(ANY)))
        if q == "builtins.list":
            if not args:
                s = st.copy()
                return self.val(s, self.new_list(s, ANY, []))
            return self.list_of(args[0], st, fr, node)
        if q == "builtins.iter":
            return self.call_iter(args[0], st, fr, node)
        if q == "builtins.next":
            return self.call_next(args[0], st, fr, node)
        if q == "builtins.range":
            lo, hi = (V.intv(0), args[0]) if len(args) == 1 else (args[0], args[1])
            if len(args) > 2:
                raise OutOfSubset("range with step")
            return self.val(st, Val(Ty("range"), None, items=[lo, hi]))
        if q == "builtins.enumerate":
            if args[0].ty.kind != "list":
                raise OutOfSubset(f"enumerate over {args[0].ty}")
            return self.val(st, Val(Ty("enumerate"), None, items=[args[0]]))
        if q == "builtins.print":
            return self.val(st, V.NONEV)
        if q in ("rp2.rp2_decimal.RP2Decimal", "decimal.Decimal") or name in ("RP2Decimal",):
            return self.make_decimal(args[0], st, fr, node, rp2=(name == "RP2Decimal"))
        if q.startswith("decimal.Decimal.__") or q.startswith("rp2.rp2_decimal.Decimal.__"):
            op = {"__add__": "Add", "__sub__": "Sub", "__mul__": "Mult", "__truediv__": "Div", "__radd__": "Add"}.get(name)
            if op:
                return self.dec_arith(op, args[0], args[1], st, fr, node, result_ty=PDEC)
            if name == "__neg__":
                return self.val(st, Val(PDEC, -args[0].t))
            if name in ("__rsub__", "__rtruediv__", "__rmul__"):
                op2 = {"__rsub__": "Sub", "__rtruediv__": "Div", "__rmul__": "Mult"}[name]
                return self.dec_arith(op2, args[1], args[0], st, fr, node, result_ty=PDEC)
        if q in ("decimal.getcontext",):
            return self.val(st, Val(Ty("ext", "DecimalContext"), z3.Const("decctx", V.Ref)))
        if q == "builtins.sorted" and len(args) == 1 and args[0].ty.kind == "list" and not (set(kwargs) - {"key"}):
            s = st.copy()
            r = self.allocate(s, args[0].ty, "sorted")
            self.sort_model(s, args[0], r, kwargs.get("key"), fr, node)
            return self.val(s, r)
        if q == "builtins.sorted" and len(args) == 1 and args[0].ty.kind == "set" and not (set(kwargs) - {"key", "reverse"}):
            return self.sorted_set(args[0], kwargs.get("key"), kwargs.get("reverse"), st, fr, node)
        if q == "builtins.sorted" or q == "builtins.max" or q == "builtins.min":
            raise OutOfSubset(f"{name}() without contract")
        if q == "copy.copy":
            return self.shallow_copy(args[0], st, fr, node)
        if q == "builtins.NotImplementedError" or name in EXC_BUILTINS:
            return self.val(st, exc_val(name))
        if q == "rp2.localization._" or name == "_":
            return self.val(st, args[0])             # gettext: identity on msgids for verification purposes (translations are assumed injective, C13)
        raise OutOfSubset(f"external function {q}")

    def make_decimal(self, v: Val, st: State, fr: Frame, node, rp2: bool) -> List:
        ty = DEC if rp2 else PDEC
        if v.ty.kind in ("dec", "pdec"):
            return self.val(st, Val(ty, v.t, aux=v.aux))
        if v.ty.kind == "str":
            lit = V.lit_of(v.t)
            if lit is not None:
                import decimal as _d
                try:
                    d = _d.Decimal(lit)
                except _d.InvalidOperation:
                    return [("raise", st, exc_val("InvalidOperation"))]
                f = fractions.Fraction(d)
                return self.val(st, Val(ty, z3.RealVal(f"{f.numerator}/{f.denominator}"), aux=d))
            if isinstance(v.aux, tuple) and v.aux[0] == "fstr":
                return self.decimal_of_fstring(v, st, fr, node, ty)
            ok = self.uf("str_is_decimal", V.StrS, z3.BoolSort())(v.t)
            s1, s2 = st.copy(), st.copy()
            s1.assume(ok)
            s2.assume(z3.Not(ok))
            return [("val", s1, Val(ty, self.uf("str_to_decimal", V.StrS, z3.RealSort())(v.t))), ("raise", s2, exc_val("InvalidOperation"))]
        if v.ty.kind == "int":
            return self.val(st, Val(ty, z3.ToReal(v.t)))
        if v.ty.kind == "float":
            # Decimal(float) traps FloatOperation in rp2's context: a float entering decimal arithmetic is a typing violation (C04)
            self.vc(st, False, "type", "decimal_only", node, fr, note="Decimal constructed from float")
            return [("raise", st, exc_val("FloatOperation"))]
        raise OutOfSubset(f"Decimal({v.ty})")

    def decimal_of_fstring(self, v: Val, st: State, fr: Frame, node, ty: Ty) -> List:
        raise OutOfSubset("Decimal(f-string) without contract")

    # ------------------------------------------------------------------ A-SORT: list.sort / sorted are stable sorts by key
    def key_term_fn(self, keyf: Optional[Val], et: Ty, st: State, fr: Frame, node):
        """Returns f: element term -> (key term of an ordered sort).  The key function's real body is executed once on a fresh element;
        its outcomes (dynamic dispatch on the element's class) are joined into one term."""
        e = z3.Const(V.fresh_name("srt_e"), V.sort_of(et))
        ev = Val(et, e)
        if keyf is None:
            outcomes = [("val", st, ev)]
            base_len = len(st.pc)
        else:
            scratch = st.copy()
            self.assume_wf(scratch, ev)
            base_len = len(scratch.pc)
            saved_emit, saved_n = self.emit, len(self.vcs)
            self.emit = False
            try:
                outcomes = self.call_value(keyf, [ev], {}, scratch, fr, node)
            finally:
                self.emit = saved_emit
                del self.vcs[saved_n:]
        term = None
        kind = None
        for k, s2, v in reversed([o for o in outcomes if o[0] == "val"]):
            if v.ty.kind == "datetime":
                t, kd = V.DT.inst(v.t), "int"
            elif v.ty.kind in ("int", "date"):
                t, kd = v.t, "int"
            elif v.ty.kind in ("dec", "float", "pdec"):
                t, kd = v.t, "real"
            elif v.ty.kind == "str":
                t, kd = self.uf("str_rank", V.StrS, z3.RealSort())(v.t), "real"
            else:
                raise OutOfSubset(f"sort key of type {v.ty}")
            if kind is not None and kd != kind:
                raise OutOfSubset("sort key of mixed types")
            kind = kd
            cond = z3.And(*s2.pc[base_len:]) if len(s2.pc) > base_len else z3.BoolVal(True)
            term = t if term is None else z3.If(cond, t, term)
        if term is None:
            raise OutOfSubset("sort key function has no normal outcome")
        return lambda x: z3.substitute(term, (e, x))

    def sort_model(self, s: State, src: Val, dst: Val, keyf: Optional[Val], fr: Frame, node) -> None:
        """dst := stable sort of src by key (dst may be src).  Facts: same length; ordered; permutation (ghost bijection p/q);
        stability; a list that is already ordered is left as it is."""
        et = self.list_elem_ty(src)
        key = self.key_term_fn(keyf, et, s, fr, node)
        n = self.coll_len(s.heap, src)
        old = V.sel(self.list_arr(s.heap, src), src.t)
        hk = ("lel", V.sort_key(V.sort_of(et)))
        new = z3.Const(V.fresh_name("sorted_el"), old.sort())
        s.heap[hk] = z3.Store(self.list_arr(s.heap, src), dst.t, new)
        s.heap[("llen",)] = z3.Store(self.heap_get(s.heap, ("llen",), z3.ArraySort(V.Ref, z3.IntSort())), dst.t, n)
        i, j = z3.Int("srt_i"), z3.Int("srt_j")
        p = z3.Function(V.fresh_name("srt_p"), z3.IntSort(), z3.IntSort())
        q = z3.Function(V.fresh_name("srt_q"), z3.IntSort(), z3.IntSort())
        rng = lambda x: z3.And(0 <= x, x < n)
        s.assume(z3.ForAll([i, j], z3.Implies(z3.And(0 <= i, i < j, j < n), key(z3.Select(new, i)) <= key(z3.Select(new, j)))))
        s.assume(z3.ForAll([i], z3.Implies(rng(i), z3.And(rng(p(i)), q(p(i)) == i, z3.Select(new, i) == z3.Select(old, p(i)))),
                           patterns=[z3.Select(new, i), p(i)]))
        s.assume(z3.ForAll([j], z3.Implies(rng(j), z3.And(rng(q(j)), p(q(j)) == j, z3.Select(new, q(j)) == z3.Select(old, j))),
                           patterns=[q(j), z3.Select(old, j)]))
        s.assume(z3.ForAll([i, j], z3.Implies(z3.And(0 <= i, i < j, j < n, key(z3.Select(new, i)) == key(z3.Select(new, j))), p(i) < p(j))))
        if et.kind == "obj":
            # A-ANNOT for list elements: every element's dynamic class is a concrete subclass of the element type
            s.assume(z3.ForAll([i], z3.Implies(rng(i), self.class_domain(Val(et, z3.Select(old, i))))))
            s.assume(z3.ForAll([i], z3.Implies(rng(i), self.class_domain(Val(et, z3.Select(new, i))))))
        already = z3.ForAll([i, j], z3.Implies(z3.And(0 <= i, i < j, j < n), key(z3.Select(old, i)) <= key(z3.Select(old, j))))
        s.assume(z3.Implies(already, z3.ForAll([i], z3.Implies(rng(i), z3.Select(new, i) == z3.Select(old, i)))))
        s.env["$sortperm"] = Val(ANY, None, items=[p, q])
        if "A-SORT" not in " ".join(self.notes):
            self.notes.append("A-SORT: list.sort/sorted = stable sort by key (same length, ordered, permutation, stable, identity on an ordered list)")

    def sorted_set(self, src: Val, keyf: Optional[Val], reverse: Optional[Val], st: State, fr: Frame, node) -> List:
        """sorted(S, key=f[, reverse=b]) for a set S: a fresh list holding exactly the elements of S, once each, ordered by key.
        Ghost function g maps every member key to its position."""
        s = st.copy()
        et = src.ty.args[0]
        asdict = Val(V.DictT(et, et), src.t)
        r = self.allocate(s, V.ListT(et), "sortedset")
        n = self.coll_len(s.heap, asdict)
        new = z3.Const(V.fresh_name("sset_el"), z3.ArraySort(z3.IntSort(), V.sort_of(et)))
        hk = ("lel", V.sort_key(V.sort_of(et)))
        s.heap[hk] = z3.Store(self.list_arr(s.heap, r), r.t, new)
        s.heap[("llen",)] = z3.Store(self.heap_get(s.heap, ("llen",), z3.ArraySort(V.Ref, z3.IntSort())), r.t, n)
        i, j = z3.Int("ss_i"), z3.Int("ss_j")
        rng = lambda x: z3.And(0 <= x, x < n)
        el = lambda x: Val(et, z3.Select(new, x))
        kt = lambda x: self.key_term(s.heap, el(x))[0]
        probe_kt, kname = self.key_term(s.heap, el(i))
        g = z3.Function(V.fresh_name("ss_pos"), probe_kt.sort(), z3.IntSort())
        s.assume(z3.ForAll([i], z3.Implies(rng(i), z3.And(self.dict_has(s.heap, asdict, el(i)), self.dict_get(s.heap, asdict, el(i)).t == z3.Select(new, i),
                                                              g(kt(i)) == i))))
        kv = z3.Const("ss_k", probe_kt.sort())
        has_arr = z3.Select(self.heap_get(s.heap, ("dhas", kname), z3.ArraySort(V.Ref, z3.ArraySort(probe_kt.sort(), z3.BoolSort()))), src.t)
        s.assume(z3.ForAll([kv], z3.Implies(z3.Select(has_arr, kv), z3.And(rng(g(kv)), self.key_term(s.heap, el(g(kv)))[0] == kv))))
        if keyf is not None:
            key = self.key_term_fn(keyf, et, s, fr, node)
            rev = reverse is not None and z3.is_true(z3.simplify(self.truth(reverse, s)))
            if reverse is not None and not rev and not z3.is_false(z3.simplify(self.truth(reverse, s))):
                raise OutOfSubset("sorted(reverse=<non-constant>)")
            a, b = (key(z3.Select(new, j)), key(z3.Select(new, i))) if rev else (key(z3.Select(new, i)), key(z3.Select(new, j)))
            s.assume(z3.ForAll([i, j], z3.Implies(z3.And(0 <= i, i < j, j < n), a <= b)))
        s.env["$sortedset_pos"] = Val(ANY, None, items=[g])
        if "A-SORT" not in " ".join(self.notes):
            self.notes.append("A-SORT: list.sort/sorted = stable sort by key (same length, ordered, permutation, stable, identity on an ordered list)")
        return self.val(s, r)

    def list_of(self, it: Val, st: State, fr: Frame, node) -> List:
        if it.ty.kind == "opt":
            it = V.deopt(it)
        if it.ty.kind == "list":
            # list(L): a fresh list with the same elements
            s = st.copy()
            r = self.allocate(s, it.ty, "lcopy")
            n = self.coll_len(s.heap, it)
            arr = self.list_arr(s.heap, it)
            s.heap[("lel", V.sort_key(V.sort_of(self.list_elem_ty(it))))] = z3.Store(arr, r.t, V.sel(arr, it.t))
            s.heap[("llen",)] = z3.Store(s.heap[("llen",)], r.t, n)
            return self.val(s, r)
        if it.ty.kind == "obj":
            k = S.CONTRACTS.get("builtins.list:" + it.ty.args[0])
            if k is None:
                for b in self.tree.cls(it.ty.args[0]).mro:
                    k = S.CONTRACTS.get("builtins.list:" + b)
                    if k is not None:
                        break
            if k is not None:
                et = getattr(k, "elem_type", None)
                return self.apply_contract(k, {"iterable": it}, V.ListT(et(self) if callable(et) else ANY), st, fr, node, k.target)
        raise OutOfSubset(f"list() over {it.ty} without contract")

    def shallow_copy(self, v: Val, st: State, fr: Frame, node) -> List:
        """copy.copy(obj): fresh object of the same class, every field equal (shallow)."""
        if v.ty.kind != "obj":
            raise OutOfSubset(f"copy of {v.ty}")
        s = st.copy()
        r = z3.Const(V.fresh_name("copy"), V.Ref)
        nw = self.now(s.heap)
        s.assume(self.born(r) == nw)
        s.heap[("alloc",)] = nw + 1
        s.assume(V.cls_of(r) == V.cls_of(v.t))
        q = v.ty.args[0]
        # all instance fields of the class and its bases and subclasses (dynamic class may be a subclass)
        classes = set(self.tree.subclasses(q)) | {k for k in self.tree.cls(q).mro if k in self.tree.classes}
        for m, (c, ann, val, f) in self.field_table().items():
            if c.qualname in classes:
                try:
                    fv = self.read_field(s.heap, v, m, s)
                except (OutOfSubset, ExtractionError):
                    continue
                self.write_field(s, Val(v.ty, r), m, fv)
        return self.val(s, Val(v.ty, r))

    # ------------------------------------------------------------------ verification of one function against its contract
    def symbolic_params(self, fi: FuncInfo, st: State) -> Dict[str, Val]:
        env: Dict[str, Val] = {}
        kk = S.CONTRACTS.get(fi.qualname)
        overrides = getattr(kk, "param_types", {}) if kk is not None else {}
        for i, p in enumerate(fi.params + fi.kwonly):
            ann = fi.annotation(p)
            if p in overrides:
                v = V.const(overrides[p], p)
                self.assume_wf(st, v)
                env[p] = v
                continue
            if i == 0 and fi.cls is not None and not fi.is_staticmethod and ann is None:
                if fi.is_classmethod:
                    env[p] = Val(V.ClassT(fi.cls.qualname))
                    continue
                ct = self.class_type(fi.cls.qualname)
                v = V.const(ct, p)
                env[p] = v
                if ct.kind == "obj":
                    # the dynamic class of self is any class that resolves this method to this very implementation
                    subs = [k for k in self.tree.subclasses(fi.cls.qualname) if self.tree.find_method(k, fi.name) is fi]
                    st.assume(z3.Or(*[V.cls_of(v.t) == self.class_ids[k] for k in subs]))
                    self.assume_allocated(st, v)
                continue
            t = self.type_of_annotation(ann, fi.module, fi.cls)
            if t.kind == "ntuple":
                c = self.tree.cls(t.args[0])
                v = Val(t, None, items={n: V.const(self.type_of_annotation(a, c.module, c), f"{p}.{n}") for n, a in c.fields})
            elif t.kind == "iter":
                v = Val(t, z3.Const(p, V.Ref))
            else:
                v = V.const(t, p)
            self.assume_wf(st, v)
            env[p] = v
        return env

    def verify(self, qual: str, label: Optional[str] = None) -> List[VC]:
        """Execute the real body of `qual` from an arbitrary pre-state satisfying its `requires`; emit all VCs."""
        fi = self.tree.func(qual)
        k = S.CONTRACTS.get(qual) or S.Contract(qual)
        self.cur_func = label or qual
        # proof guidance only: keep the paths of two-armed ifs apart instead of joining them with if-then-else terms (more, simpler VCs)
        self.no_merge = bool(getattr(k, "no_merge", False))
        start = len(self.vcs)
        st = State()
        env = self.symbolic_params(fi, st)
        st.env = dict(env)
        pre_heap_view = st.heap            # same dict object: lazily created initial arrays become visible to `old`
        pre = S.SpecState(self, env, st.heap, st.heap)
        for lbl, f in k.requires_:
            st.assume(f(pre))
        for lbl, f in k.defines_:
            st.assume(f(pre))
        self.call_stack = [qual]
        fr = Frame(fi, fi.module, fi.cls)
        ret_ty = self.type_of_annotation(fi.node.returns, fi.module, fi.cls) if fi.node.returns is not None else NONE
        entry_pc = list(st.pc)
        # vacuity: the precondition must be satisfiable
        self.vacuity = self.feasible(st)
        work = st.copy()
        work.heap = st.heap          # share so that initial arrays created during execution are the pre-state arrays
        outcomes = self.block(fi.node.body, State(dict(env), dict(st.heap), list(st.pc)), fr)
        n_normal = 0
        if os.environ.get("PYVC_TRACE"):
            for kind, s, v in outcomes:
                print("OUTCOME", kind, getattr(v, "aux", None) if kind == "raise" else "", file=sys.stderr)
        for kind, s, v in outcomes:
            old_heap = self.initial_heap(s.heap)
            if kind in ("normal", "return"):
                n_normal += 1
                res = v if kind == "return" else V.NONEV
                if ret_ty.kind not in ("none", "any", "iter") and res.ty.kind not in ("ntuple", "tuple"):
                    try:
                        res = self.coerce(res, ret_ty)
                    except OutOfSubset:
                        pass
                post = S.SpecState(self, env, s.heap, old_heap, res, {"locals": s.env})
                for lbl, f in k.ensures_:
                    try:
                        g = f(post)
                    except S.NoWitness as nw:
                        g, _ = z3.BoolVal(False), self.notes.append(f"{qual}/post.{lbl}: {nw}")
                    self.vc(s, g, "post", lbl, fi.node, fr)
                for lbl, exc, when, iff in k.raises_:
                    if iff and when is not None:
                        self.vc(s, z3.Not(when(S.SpecState(self, env, old_heap, old_heap))), "raises", f"{lbl}.must_raise", fi.node, fr)
                if k.modifies_declared:
                    self.frame_vcs(k, s, old_heap, env, fi, fr, res)
            elif kind == "raise":
                name = v.aux
                prestate = S.SpecState(self, env, old_heap, old_heap)
                for xexc, xl, xf in k.exc_ensures_:
                    if self.exc_subclass(name, xexc):
                        try:
                            g = xf(S.SpecState(self, env, s.heap, old_heap, None, {"locals": s.env}))
                        except S.NoWitness as nw:
                            g, _ = z3.BoolVal(False), self.notes.append(f"{qual}/raises.{name}.{xl}: {nw}")
                        self.vc(s, g, "raises", f"{name}.{xl}", fi.node, fr)
                if any(self.exc_subclass(name, nv) for nv in k.never_):
                    self.vc(s, False, "noraise", name, fi.node, fr)
                    continue
                matched = [(lbl, exc, when, iff) for lbl, exc, when, iff in k.raises_ if self.exc_subclass(name, exc)]
                if matched:
                    conds = [when(prestate) for _, _, when, _ in matched if when is not None]
                    if conds and len(conds) == len(matched):
                        self.vc(s, z3.Or(*conds), "raises", f"{name}.only_when", fi.node, fr)
                elif getattr(k, "strict_raises", False):
                    self.vc(s, False, "noraise", name, fi.node, fr)
            else:
                raise OutOfSubset(f"{kind} escapes {qual}")
        self.n_normal_paths = n_normal
        return self.vcs[start:]

    def initial_heap(self, heap: dict) -> dict:
        """The pre-state heap: for every key, the initial array constant H0_<key>."""
        out = {}
        for k, h in heap.items():
            name = "H0_" + "_".join(str(x) for x in (k if isinstance(k, tuple) else (k,)))
            out[k] = z3.Const(name, h.sort())
        return out

    def frame_vcs(self, k: S.Contract, s: State, old_heap: dict, env, fi, fr, res=None) -> None:
        allowed: Dict[object, Optional[Callable]] = {}
        for spec, refs in k.modifies_:
            for key in self.heap_keys_of(s.heap, spec):
                allowed[key] = refs
        pre = S.SpecState(self, env, old_heap, old_heap, res)
        alloc0 = old_heap.get(("alloc",))
        r = z3.Const("frame_r", V.Ref)
        for key, h in s.heap.items():
            if key == ("alloc",):
                continue
            h0 = old_heap.get(key)
            if h0 is None or h.eq(h0):
                continue
            if not z3.is_array(h) or h.sort().domain() != V.Ref:
                continue
            cond = (self.born(r) < alloc0) if alloc0 is not None else z3.BoolVal(True)
            if key in allowed:
                refs = allowed[key]
                if isinstance(refs, S._FreshOnly):
                    refs = refs.refs or (lambda s_: [])
                elif refs is None:
                    continue
                for x in refs(pre):
                    cond = z3.And(cond, r != (x.t if hasattr(x, "t") else x))
            lbl = "_".join(str(x) for x in key)
            self.vc(s, z3.ForAll([r], z3.Implies(cond, z3.Select(h, r) == z3.Select(h0, r))), "frame", lbl, fi.node, fr)
