"""Contract registry and the small specification vocabulary used by the sidecar files in /verif/contracts.

A contract is attached to the *qualified name of a real function* of /repo/src/rp2.  Clauses are Python
callables that receive a `SpecState` (arguments, pre-heap, post-heap, result) and return a z3 Bool.

    @contract("rp2.gain_loss.GainLoss.is_long_term_capital_gains")
    def _(k):
        k.requires("valid", lambda s: valid_gain_loss(s, s.a.self))
        k.ensures("short_if_no_lot", lambda s: implies(s.a.self.acquired_lot.is_none, s.result == False))
        k.raises_never("RP2RuntimeError")

Attribute access on a `SV` (spec value) that wraps an rp2 object reads the *field behind the property of
that name* from the heap (`x.acquired_lot` -> `_GainLoss__acquired_lot`), never the getter body: state is
the private fields, and every getter used this way gets its own obligation "returns its field"
(`getter.<name>`), so a getter that starts computing something else is refuted, not silently followed.
"""
from __future__ import annotations

import z3
from typing import Callable, Dict, List, Optional, Tuple

from . import vals as V
from .vals import Val

CONTRACTS: Dict[str, "Contract"] = {}
INVARIANTS: Dict[Tuple[str, int], "Invariant"] = {}
LEMMAS: Dict[str, "Lemma"] = {}
FIELD_TYPE_OVERRIDES: Dict[str, V.Ty] = {}     # mangled field name -> type (only where annotations cannot tell)
ASSUMPTION_MARKERS: List[Tuple[str, str]] = []   # (kind, text) collected for the evidence "assumption scan"


class NoWitness(Exception):
    """A clause asks for an existential witness (a local variable) that does not exist at this exit: the clause fails there."""


class Contract:
    def __init__(self, target: str) -> None:
        self.target = target
        self.requires_: List[Tuple[str, Callable]] = []
        self.ensures_: List[Tuple[str, Callable]] = []
        self.raises_: List[Tuple[str, str, Optional[Callable], bool]] = []   # (label, exc class, condition(pre-state) or None, iff)
        self.never_: List[str] = []
        self.modifies_: List[Tuple[str, Optional[Callable]]] = []   # (heap key spec, refs(s)->list of z3 Ref or None = whole array)
        self.modifies_declared = False
        self.inline = False          # use the real body at call sites instead of the contract
        self.assumed = False         # external / trusted: never verified against a body
        self.assumed_reason = ""
        self.pure_result: Optional[Callable] = None
        self.props: List[str] = []   # properties this contract serves (for evidence)
        self.floor = 0
        self.opaque_locals = False
        self.exc_ensures_: List[Tuple[str, str, Callable]] = []
        self.defines_: List[Tuple[str, Callable]] = []   # (exc class, label, f(post-state at the raise))

    # --- clause builders
    def requires(self, label: str, f: Callable) -> None: self.requires_.append((label, f))
    def ensures(self, label: str, f: Callable) -> None: self.ensures_.append((label, f))

    def raises(self, exc: str, when: Optional[Callable] = None, iff: bool = False, label: Optional[str] = None) -> None:
        """The function may raise `exc`; if `when` is given it raises it only in pre-states satisfying `when`;
        with iff=True it also *must not return normally* from such states."""
        self.raises_.append((label or exc, exc, when, iff))

    def raises_never(self, *excs: str) -> None: self.never_.extend(excs)

    def define(self, label: str, f: Callable) -> None:
        """Defining property of a spec function used by this contract (e.g. 'cut(L, d) is the first index whose date is past d').
        Assumed in the pre-state both when the function is verified and at its call sites; never asserted.  Must be a conservative
        definition (the function exists and is unique); listed in the evidence under `definitions`."""
        self.defines_.append((label, f))

    def raises_ensures(self, exc: str, label: str, f: Callable) -> None:
        """Exceptional postcondition: whenever `exc` (or a subclass) escapes, `f` holds of the state at the raise."""
        self.exc_ensures_.append((exc, label, f))

    def modifies(self, *keys, refs: Optional[Callable] = None, fresh_only: bool = False) -> None:
        """Frame: the callee may change these heap arrays -- everywhere (refs=None), only at the listed references, or (fresh_only)
        only at the listed references and at references that were not allocated before the call."""
        self.modifies_declared = True
        for k in keys:
            self.modifies_.append((k, refs) if not fresh_only else (k, _FreshOnly(refs)))

    def assume(self, reason: str) -> None:
        self.assumed = True
        self.assumed_reason = reason
        ASSUMPTION_MARKERS.append(("assumed-contract", f"{self.target}: {reason}"))


class _FreshOnly:
    """Marker wrapping a refs-callable: besides those refs only previously unallocated references may change."""
    def __init__(self, refs: Optional[Callable]) -> None:
        self.refs = refs


class Invariant:
    def __init__(self, target: str, loop: int) -> None:
        self.target, self.loop = target, loop
        self.clauses: List[Tuple[str, Callable]] = []
        self.extra_modifies: List[str] = []
        self.variant: Optional[Callable] = None
        self.defs: List[Tuple[str, Callable]] = []

    def inv(self, label: str, f: Callable) -> None: self.clauses.append((label, f))

    def unfold(self, label: str, f: Callable) -> None:
        """Definitional unfolding of a recursive spec function (a fold) at the current loop position, e.g.
        F(i+1, k) = F(i, k) + contribution(L[i], k) and F(0, k) = 0.  Assumed at the loop head, never asserted: it must be an instance
        of the spec function's defining equations (listed in the evidence as definitions, not as assumptions about rp2)."""
        self.defs.append((label, f))


class Lemma:
    """A pure proof obligation over spec functions (hypotheses => goal), e.g. an induction step."""
    def __init__(self, name: str) -> None:
        self.name = name
        self.cases: List[Tuple[str, Callable]] = []     # label, f() -> (list of hypotheses, goal)
        self.props: List[str] = []

    def case(self, label: str, f: Callable) -> None: self.cases.append((label, f))


def contract(target: str, props: Optional[List[str]] = None):
    def deco(fn):
        k = CONTRACTS.get(target) or Contract(target)
        fn(k)
        if props:
            k.props = sorted(set(k.props) | set(props))
        CONTRACTS[target] = k
        return fn
    return deco


def external(target: str, reason: str):
    """Assumed contract of something outside /repo/src/rp2 (or of an rp2 function deliberately not verified)."""
    def deco(fn):
        k = Contract(target)
        fn(k)
        k.assume(reason)
        CONTRACTS[target] = k
        return fn
    return deco


def inline(*targets: str) -> None:
    for t in targets:
        k = CONTRACTS.get(t) or Contract(t)
        k.inline = True
        CONTRACTS[t] = k


def invariant(target: str, loop: int = 0):
    def deco(fn):
        iv = Invariant(target, loop)
        fn(iv)
        INVARIANTS[(target, loop)] = iv
        return fn
    return deco


HINTS: Dict[Tuple[str, str, int], "Invariant"] = {}


def hint(target: str, var: str, occurrence: int = 0):
    """Intermediate assertion (a cut point in straight-line code) right after the `occurrence`-th assignment (source order) to local `var`
    of function `target`: every clause is first an obligation there and then an assumption for what follows.  Pure proof guidance: it adds
    obligations, never assumptions that are not proved."""
    def deco(fn):
        iv = Invariant(target, -1)
        fn(iv)
        HINTS[(target, var, occurrence)] = iv
        return fn
    return deco


def lemma(name: str, props: Optional[List[str]] = None):
    def deco(fn):
        lm = Lemma(name)
        fn(lm)
        lm.props = props or []
        LEMMAS[name] = lm
        return fn
    return deco


def field_type(mangled: str, ty: V.Ty) -> None:
    FIELD_TYPE_OVERRIDES[mangled] = ty


# ----------------------------------------------------------------------------- logic helpers
def implies(a, b): return z3.Implies(_b(a), _b(b))
def And(*xs): return z3.And(*[_b(x) for x in xs]) if xs else z3.BoolVal(True)
def Or(*xs): return z3.Or(*[_b(x) for x in xs]) if xs else z3.BoolVal(False)
def Not(a): return z3.Not(_b(a))
def iff(a, b): return _b(a) == _b(b)
def ite(c, a, b): return z3.If(_b(c), _t(a), _t(b))
TRUE = z3.BoolVal(True)
FALSE = z3.BoolVal(False)


def _t(x):
    if isinstance(x, SV):
        return x.t
    if isinstance(x, Val):
        return x.t
    return x


def _b(x):
    x = _t(x)
    if isinstance(x, bool):
        return z3.BoolVal(x)
    return x


def R(x) -> z3.ArithRef:
    """Real literal from int/str."""
    return z3.RealVal(x)


class SV:
    """Spec value: a Val bound to a heap, with field access by property name and *exact* arithmetic/comparison."""
    __slots__ = ("v", "h", "ex")

    def __init__(self, v: Val, h: "HeapView", ex) -> None:
        object.__setattr__(self, "v", v)
        object.__setattr__(self, "h", h)
        object.__setattr__(self, "ex", ex)

    # raw access
    @property
    def t(self): return self.v.t

    @property
    def ty(self): return self.v.ty

    @property
    def is_none(self):
        if self.v.ty.kind == "none":
            return z3.BoolVal(True)
        if self.v.ty.kind == "opt":
            return self.v.none
        return z3.BoolVal(False)

    @property
    def not_none(self): return z3.Not(self.is_none)

    @property
    def some(self) -> "SV":
        return SV(V.deopt(self.v), self.h, self.ex)

    # datetime parts
    @property
    def inst(self): return V.DT.inst(self.some.t)

    @property
    def off(self): return V.DT.off(self.some.t)

    def isa(self, clsname: str):
        return self.ex.isinstance_term(self.some.v, self.ex.class_q(clsname))

    def __getattr__(self, name: str) -> "SV":
        v = V.deopt(self.v)
        if v.ty.kind == "obj":
            return SV(self.ex.spec_field(v, name, self.h), self.h, self.ex)
        if v.ty.kind == "rec":
            return SV(self.ex.rec_field(v, name), self.h, self.ex)
        if v.items is not None and isinstance(v.items, dict) and name in v.items:
            return SV(v.items[name], self.h, self.ex)
        raise AttributeError(f"spec: no field {name} on {v.ty}")

    def f(self, spec: str) -> "SV":
        """Explicit field read: x.f('InTransaction.__crypto_in')."""
        return SV(self.ex.read_field(self.h.heap, V.deopt(self.v), self.ex.tree.field(spec), None), self.h, self.ex)

    def __getitem__(self, i):
        v = V.deopt(self.v)
        if v.ty.kind == "tuple":
            return SV(v.items[i], self.h, self.ex)
        if v.ty.kind == "list":
            return SV(self.ex.list_get(self.h.heap, v, _t(i) if not isinstance(i, int) else z3.IntVal(i)), self.h, self.ex)
        if v.ty.kind == "dict":
            return SV(self.ex.dict_get(self.h.heap, v, i.v if isinstance(i, SV) else i), self.h, self.ex)
        raise TypeError(f"spec: cannot index {v.ty}")

    def has(self, key) -> z3.BoolRef:
        v = V.deopt(self.v)
        return self.ex.dict_has(self.h.heap, v, key.v if isinstance(key, SV) else key)

    @property
    def len(self):
        v = V.deopt(self.v)
        return self.ex.coll_len(self.h.heap, v)

    # exact arithmetic / comparisons (mathematical, *not* RP2Decimal's tolerant operators)
    def __add__(self, o): return self.t + _t(o)
    def __radd__(self, o): return _t(o) + self.t
    def __sub__(self, o): return self.t - _t(o)
    def __rsub__(self, o): return _t(o) - self.t
    def __mul__(self, o): return self.t * _t(o)
    def __rmul__(self, o): return _t(o) * self.t
    def __truediv__(self, o): return self.t / _t(o)
    def __neg__(self): return -self.t
    def __eq__(self, o): return self.t == _t(o)      # type: ignore[override]
    def __ne__(self, o): return self.t != _t(o)      # type: ignore[override]
    def __lt__(self, o): return self.t < _t(o)
    def __le__(self, o): return self.t <= _t(o)
    def __gt__(self, o): return self.t > _t(o)
    def __ge__(self, o): return self.t >= _t(o)
    def __hash__(self): return id(self)


class HeapView:
    def __init__(self, heap: dict) -> None:
        self.heap = heap


class _Args:
    def __init__(self, s: "SpecState", h: HeapView) -> None:
        object.__setattr__(self, "_s", s)
        object.__setattr__(self, "_h", h)

    def __getattr__(self, name: str) -> SV:
        s = object.__getattribute__(self, "_s")
        if name not in s.args:
            raise AttributeError(f"spec: no parameter/local {name}; have {sorted(s.args)}")
        return SV(s.args[name], object.__getattribute__(self, "_h"), s.ex)


class SpecState:
    """What a clause sees.  `s.a.<param>` arguments read against the *current* heap of this view,
    `s.old` the same arguments against the pre-heap, `s.result` the return value."""

    def __init__(self, ex, args: Dict[str, Val], heap: dict, old_heap: Optional[dict] = None, result: Optional[Val] = None, extra=None) -> None:
        self.ex = ex
        self.args = args
        self.h = HeapView(heap)
        self.oh = HeapView(old_heap if old_heap is not None else heap)
        self._result = result
        self.extra = extra or {}

    @property
    def a(self) -> _Args: return _Args(self, self.h)

    @property
    def v(self) -> _Args: return _Args(self, self.h)     # loop invariants: locals

    @property
    def old(self) -> "SpecState":
        return SpecState(self.ex, self.args, self.oh.heap, self.oh.heap, self._result, self.extra)

    @property
    def result(self) -> SV:
        assert self._result is not None, "spec: result used outside a normal-return clause"
        return SV(self._result, self.h, self.ex)

    def sv(self, v: Val) -> SV: return SV(v, self.h, self.ex)

    def witness(self, name: str, ty: V.Ty) -> SV:
        """Existential witness of a postcondition: when the function is verified it is the value of local variable `name` at the
        return (the clause is proved *for that value*); at a call site it is a fresh, otherwise unconstrained value of type `ty`
        (the caller only learns that some such value exists)."""
        loc = self.extra.get("locals")
        if loc is not None:
            if name not in loc:
                raise NoWitness(f"no local {name} at this exit to witness the clause")
            return SV(loc[name], self.h, self.ex)
        sk = self.extra.setdefault("skolem", {})
        if name not in sk:
            if ty.kind == "rec":
                self.ex.rec_sort(ty.args[0])          # the record sort may not have been needed yet in the calling function
            v = V.fresh(ty, "wit_" + name)
            sk[name] = v
        return SV(sk[name], self.h, self.ex)

    def wrap(self, t, ty: V.Ty) -> SV: return SV(Val(ty, t), self.h, self.ex)

    def heapkey(self, key): return self.ex.heap_get(self.h.heap, key)
