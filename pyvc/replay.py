"""Replay of refutations on the real code (DESIGN.md 6.2).

A replay *descriptor* is plain JSON (concrete inputs decoded from the solver's counter-model + what the contract requires).
It is executed natively in a fresh interpreter whose `rp2` is the tree the VCs came from (PYTHONPATH=<repo>/src first) and whose
working directory is a scratch directory (importing rp2.logger creates ./log)."""
from __future__ import annotations

import fractions
import json
import os
import shutil
import subprocess
import sys
import tempfile
import z3
from typing import Dict, Optional

from . import vals as V

VERIF = os.path.dirname(os.path.dirname(os.path.abspath(__file__)))


def run_native(pid: str, desc: Dict, repo: str = "/repo", timeout: int = 300) -> Dict:
    d = tempfile.mkdtemp(prefix="rp2replay_")
    try:
        env = dict(os.environ)
        env["PYTHONPATH"] = os.path.join(os.path.abspath(repo), "src") + os.pathsep + VERIF
        env["RP2_VERIF_REPO"] = os.path.abspath(repo)
        p = subprocess.run([sys.executable, "-m", "pyvc.native", pid], input=json.dumps(desc), capture_output=True, text=True, cwd=d, env=env, timeout=timeout)
        lines = [l for l in p.stdout.splitlines() if l.startswith("NATIVE-RESULT ")]
        if not lines:
            return {"reproduced": False, "error": (p.stderr or p.stdout)[-1500:]}
        return json.loads(lines[-1][len("NATIVE-RESULT "):])
    except subprocess.TimeoutExpired:
        return {"reproduced": False, "error": "native replay timed out"}
    finally:
        shutil.rmtree(d, ignore_errors=True)


def run_e2e(pid: str, n_random: int, seed: int, repo: str = "/repo", timeout: int = 1800, scenario: Optional[Dict] = None, cli: bool = False) -> Dict:
    """Bounded native stand-in (harness/e2e.py) in a fresh interpreter importing the rp2 of `repo`."""
    d = tempfile.mkdtemp(prefix="rp2e2e_")
    try:
        env = dict(os.environ)
        env["PYTHONPATH"] = os.path.join(os.path.abspath(repo), "src") + os.pathsep + VERIF
        env["RP2_VERIF_REPO"] = os.path.abspath(repo)
        cmd = [sys.executable, "-m", "harness.cli_main" if cli else "harness.e2e_main", pid, str(n_random), str(seed)]
        if scenario is not None:
            sp = os.path.join(d, "scenario.json")
            cmd[2] = "harness.cli_main" if cli else "harness.e2e_main"
            with open(sp, "w") as f:
                json.dump(scenario, f)
            cmd += ["--scenario", sp]
        p = subprocess.run(cmd, capture_output=True, text=True, cwd=d, env=env, timeout=timeout)
        lines = [l for l in p.stdout.splitlines() if l.startswith("E2E-RESULT ")]
        if not lines:
            return {"evaluations": 0, "failures": [], "error": (p.stderr or p.stdout)[-1500:]}
        return json.loads(lines[-1][len("E2E-RESULT "):])
    except subprocess.TimeoutExpired:
        return {"evaluations": 0, "failures": [], "error": "timed out"}
    finally:
        shutil.rmtree(d, ignore_errors=True)


def main(path: str) -> int:
    with open(path) as f:
        info = json.load(f)
    rep = info.get("replay") or {}
    desc = rep.get("desc")
    pid = info.get("property")
    if not desc:
        print(f"replay file carries no native input (obligation {info.get('obligation')}): verifier output only")
        print(json.dumps(info.get("verifier_output", {}), indent=1)[:3000])
        return 0
    res = run_native(pid, desc)
    print(json.dumps(res, indent=1))
    return 1 if res.get("reproduced") else 0


# ----------------------------------------------------------------------------- model decoding helpers
class ModelView:
    def __init__(self, ex, model: z3.ModelRef) -> None:
        self.ex, self.m = ex, model

    def ev(self, t):
        return self.m.eval(t, model_completion=True)

    def const(self, name: str, sort) -> z3.ExprRef:
        return z3.Const(name, sort)

    def field_term(self, obj, spec: str, none: bool = False):
        m = self.ex.tree.field(spec)
        t = self.ex.field_type(m)
        key = ("fn", m) if none else ("f", m)
        arr = z3.Const("H0_" + "_".join(str(k) for k in key), z3.ArraySort(V.Ref, z3.BoolSort() if none else V.sort_of(t)))
        return z3.Select(arr, obj)

    def field(self, obj, spec: str):
        return self.py(self.ev(self.field_term(obj, spec)))

    def is_none(self, obj, spec: str) -> bool:
        return z3.is_true(self.ev(self.field_term(obj, spec, none=True)))

    def ref(self, obj):
        return self.ev(obj)

    def cls_name(self, obj) -> Optional[str]:
        cid = self.ev(V.cls_of(obj))
        if z3.is_int_value(cid):
            for q, i in self.ex.class_ids.items():
                if i == cid.as_long():
                    return q
        return None

    def py(self, v):
        if z3.is_int_value(v):
            return v.as_long()
        if z3.is_rational_value(v):
            return str(fractions.Fraction(v.numerator_as_long(), v.denominator_as_long()))
        if z3.is_true(v):
            return True
        if z3.is_false(v):
            return False
        if v.sort() == V.DT:
            return {"inst": self.py(self.ev(V.DT.inst(v))), "off": self.py(self.ev(V.DT.off(v)))}
        if v.sort() == V.StrS:
            for s, c in V.STR_LITS.items():
                if z3.is_true(self.ev(c == v)):
                    return s
            return "str:" + str(v)
        return str(v)


TX_FIELDS = {
    "InTransaction": ["exchange", "holder", "crypto_in", "crypto_fee", "fiat_fee", "fiat_in_no_fee", "fiat_in_with_fee"],
    "OutTransaction": ["exchange", "holder", "crypto_out_no_fee", "crypto_fee", "crypto_out_with_fee", "fiat_out_no_fee", "fiat_fee", "fiat_out_with_fee"],
    "IntraTransaction": ["from_exchange", "from_holder", "to_exchange", "to_holder", "crypto_sent", "crypto_received", "crypto_fee", "fiat_fee"],
}


def decode_tx(mv: ModelView, ref) -> Dict:
    """All fields of a transaction object in the model, keyed by attribute name; 'cls' is the simple class name."""
    q = mv.cls_name(ref) or ""
    cls = q.rsplit(".", 1)[-1]
    d = {"cls": cls, "timestamp": mv.field(ref, "AbstractTransaction.__timestamp"),
         "type": str(mv.ev(mv.field_term(ref, "AbstractTransaction.__transaction_type"))),
         "spot_price": mv.field(ref, "AbstractTransaction.__spot_price"), "row": mv.field(ref, "AbstractTransaction.__internal_id")}
    for f in TX_FIELDS.get(cls, []):
        try:
            d[f] = mv.field(ref, f"{cls}.__{f}")
        except Exception:
            pass
    return d
