"""Decision-table extraction: a small symbolic executor for straight-line / if / raise / try code whose tests are treated as formulas over
named atoms (calls are uninterpreted Boolean atoms keyed by their text, `x is None` is an option flag, integer counters are z3 Ints).
Every path through the statements is returned with its path condition and the effects met on the way (raises, calls, state updates).
The obligations built on top are ordinary VCs: "under case assumption A, every feasible path has effect E" is discharged by z3 as
unsat(A and pathcond and not E-holds) per path, and non-vacuity as sat(A and pathcond) for some path.

What it assumes of Python: tests have no side effects (checked: only calls on the allowlist of pure helpers appear in tests), `and`/`or`
are logical (short-circuit order irrelevant without side effects), enum members are truthy, integer arithmetic is mathematical."""
import ast
import z3
from typing import Dict, List, Optional, Tuple


class Path:
    def __init__(self, cond, effects, env, done=None):
        self.cond, self.effects, self.env, self.done = cond, effects, env, done

    def raises(self) -> bool:
        return self.done == "raise"


class Table:
    def __init__(self, int_vars=(), opt_vars=()):
        self.atoms: Dict[str, z3.BoolRef] = {}
        self.int_vars, self.opt_vars = set(int_vars), set(opt_vars)
        self.unknown: List[str] = []

    def atom(self, text: str) -> z3.BoolRef:
        if text not in self.atoms:
            self.atoms[text] = z3.Bool(text)
        return self.atoms[text]

    def init_env(self):
        env = {}
        for v in self.int_vars:
            env[v] = z3.Int(v)
        for v in self.opt_vars:
            env[("some", v)] = z3.Bool("some:" + v)
        return env

    # ---- expressions
    def some(self, e, env):
        if isinstance(e, ast.Name) and ("some", e.id) in env:
            return env[("some", e.id)]
        if isinstance(e, ast.Constant) and e.value is None:
            return z3.BoolVal(False)
        return self.atom("some:" + ast.unparse(e))

    def integer(self, e, env):
        if isinstance(e, ast.Constant) and isinstance(e.value, int) and not isinstance(e.value, bool):
            return z3.IntVal(e.value)
        if isinstance(e, ast.Name) and e.id in env and z3.is_int(env[e.id]):
            return env[e.id]
        if isinstance(e, ast.Name) and e.id in self.int_vars:
            return z3.Int(e.id)
        if isinstance(e, ast.BinOp) and isinstance(e.op, (ast.Add, ast.Sub)):
            a, b = self.integer(e.left, env), self.integer(e.right, env)
            if a is not None and b is not None:
                return a + b if isinstance(e.op, ast.Add) else a - b
        return None

    def boolean(self, e, env):
        if isinstance(e, ast.BoolOp):
            vs = [self.boolean(v, env) for v in e.values]
            return z3.And(*vs) if isinstance(e.op, ast.And) else z3.Or(*vs)
        if isinstance(e, ast.UnaryOp) and isinstance(e.op, ast.Not):
            return z3.Not(self.boolean(e.operand, env))
        if isinstance(e, ast.Compare) and len(e.ops) == 1:
            op, l, r = e.ops[0], e.left, e.comparators[0]
            if isinstance(op, (ast.Is, ast.IsNot)) and isinstance(r, ast.Constant) and r.value is None:
                s = self.some(l, env)
                return z3.Not(s) if isinstance(op, ast.Is) else s
            a, b = self.integer(l, env), self.integer(r, env)
            if a is not None and b is not None:
                return {ast.Eq: a == b, ast.NotEq: a != b, ast.Gt: a > b, ast.GtE: a >= b, ast.Lt: a < b, ast.LtE: a <= b}.get(type(op), self.atom(ast.unparse(e)))
            return self.atom(ast.unparse(e))
        if isinstance(e, ast.Name):
            if ("some", e.id) in env:
                return env[("some", e.id)]             # truthiness of an Optional[Enum] is "is not None"
            if e.id in env and z3.is_bool(env[e.id]):
                return env[e.id]
            return self.atom(e.id)
        if isinstance(e, ast.Constant) and isinstance(e.value, bool):
            return z3.BoolVal(e.value)
        return self.atom(ast.unparse(e))

    # ---- statements
    def run(self, stmts, paths: List[Path]) -> List[Path]:
        for st in stmts:
            nxt = []
            for p in paths:
                if p.done:
                    nxt.append(p)
                else:
                    nxt += self.step(st, p)
            paths = nxt
        return paths

    def step(self, st, p: Path) -> List[Path]:
        if isinstance(st, ast.If):
            c = self.boolean(st.test, p.env)
            a = self.run(st.body, [Path(p.cond + [c], list(p.effects), dict(p.env))])
            b = self.run(st.orelse, [Path(p.cond + [z3.Not(c)], list(p.effects), dict(p.env))])
            return a + b
        if isinstance(st, ast.Raise):
            return [Path(p.cond, p.effects + [("raise", ast.unparse(st.exc) if st.exc else "")], p.env, "raise")]
        if isinstance(st, (ast.Break, ast.Continue, ast.Return)):
            return [Path(p.cond, p.effects + [(type(st).__name__.lower(), ast.unparse(st))], p.env, type(st).__name__.lower())]
        if isinstance(st, ast.Pass):
            return [p]
        if isinstance(st, ast.AnnAssign) and st.value is None:
            return [p]
        if isinstance(st, (ast.Assign, ast.AnnAssign)):
            tgt = st.targets[0] if isinstance(st, ast.Assign) else st.target
            if isinstance(tgt, ast.Name):
                env = dict(p.env)
                if tgt.id in self.int_vars:
                    v = self.integer(st.value, env)
                    env[tgt.id] = v if v is not None else z3.FreshInt(tgt.id)
                    return [Path(p.cond, p.effects + [("set", f"{tgt.id} = {ast.unparse(st.value)}")], env)]
                if tgt.id in self.opt_vars:
                    env[("some", tgt.id)] = self.some(st.value, env)
                    return [Path(p.cond, p.effects + [("set", f"{tgt.id} = {ast.unparse(st.value)}")], env)]
                return [Path(p.cond, p.effects + [("local", ast.unparse(st))], env)]
            return [Path(p.cond, p.effects + [("store", ast.unparse(st))], p.env)]
        if isinstance(st, ast.AugAssign) and isinstance(st.target, ast.Name) and st.target.id not in self.int_vars and st.target.id not in self.opt_vars and \
                isinstance(st.op, (ast.Add, ast.Sub)) and self.integer(st.value, p.env) is not None:
            # a counter the caller did not announce: an integer all the same
            self.int_vars.add(st.target.id)
            if st.target.id not in p.env:
                p.env[st.target.id] = z3.Int(st.target.id)
        if isinstance(st, ast.AugAssign) and isinstance(st.target, ast.Name) and st.target.id in self.int_vars:
            env = dict(p.env)
            d = self.integer(st.value, env)
            if st.target.id not in env:
                env[st.target.id] = z3.Int(st.target.id)
            if d is None:
                d = z3.FreshInt("delta")
            env[st.target.id] = env[st.target.id] + d if isinstance(st.op, ast.Add) else env[st.target.id] - d
            return [Path(p.cond, p.effects + [("set", ast.unparse(st))], env)]
        if isinstance(st, ast.Expr) and isinstance(st.value, ast.Call):
            return [Path(p.cond, p.effects + [("call", ast.unparse(st.value))], p.env)]
        if isinstance(st, ast.Expr) and isinstance(st.value, ast.Constant):
            return [p]
        if isinstance(st, ast.Try) and not st.finalbody:
            # the guarded body either completes (then orelse runs) or raises something a handler catches (then that handler runs)
            txt = "; ".join(ast.unparse(x) for x in st.body)
            fails = self.atom("raises:" + txt)
            ok = self.run(st.body, [Path(p.cond + [z3.Not(fails)], p.effects + [("try", txt)], dict(p.env))])
            ok = self.run(st.orelse, ok)
            out = list(ok)
            for h in st.handlers:
                out += self.run(h.body, [Path(p.cond + [fails], p.effects + [("caught", f"{txt} -> except {ast.unparse(h.type) if h.type else ''}")], dict(p.env))])
            return out
        self.unknown.append(ast.unparse(st)[:120])
        return [Path(p.cond, p.effects + [("other", ast.unparse(st)[:200])], p.env)]


def feasible(conds) -> bool:
    s = z3.Solver()
    s.set("timeout", 5000)
    s.add(*conds)
    return s.check() == z3.sat
