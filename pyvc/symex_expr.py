"""Expression evaluation.  Every evaluator returns a list of outcomes ('val', state, Val) | ('raise', state, exc)."""
from __future__ import annotations

import ast
import datetime as _dt
import decimal as _decimal
import fractions
import z3
from typing import Callable, Dict, List, Optional, Tuple

from . import vals as V
from .vals import Val, Ty, INT, BOOL, DEC, FLOAT, STR, DATE, DATETIME, NONE, ANY, EXC
from .source import FuncInfo, ClassInfo, ModuleInfo, ExtractionError
from .base import VC, State, Frame, OutOfSubset, exc_val

PDEC = Ty("pdec")            # plain decimal.Decimal (result of quantize): exact comparisons
TDELTA = Ty("timedelta")     # microseconds, Int
V_SORT_EXTRA = {"pdec": z3.RealSort(), "timedelta": z3.IntSort()}
_orig_sort_of = V.sort_of


def _sort_of(t: Ty):
    if t.kind in V_SORT_EXTRA:
        return V_SORT_EXTRA[t.kind]
    if t.kind in ("ntuple", "iter", "cset", "cdict", "func", "bound", "extmod", "extfn", "lambda", "range"):
        return V.Ref
    return _orig_sort_of(t)


V.sort_of = _sort_of

US_PER_DAY = 86400 * 1000000


class ConstVal:
    """Result of concrete evaluation of a module/class constant."""
    def __init__(self, py): self.py = py


class ExprMixin:
    # ------------------------------------------------------------------ plumbing
    def ev(self, e: ast.expr, st: State, fr: Frame) -> List[Tuple[str, State, Val]]:
        m = getattr(self, "e_" + type(e).__name__, None)
        if m is None:
            raise OutOfSubset(f"expression {type(e).__name__} at {fr.module.relpath}:{getattr(e, 'lineno', 0)}")
        return m(e, st, fr)

    def seq(self, es: List[ast.expr], st: State, fr: Frame, k: Callable[[State, List[Val]], List]) -> List:
        """Evaluate `es` left to right threading the state; call k on each all-values outcome."""
        def go(i: int, st: State, acc: List[Val]) -> List:
            if i == len(es):
                return k(st, acc)
            out = []
            for kind, st2, v in self.ev(es[i], st, fr):
                if kind == "raise":
                    out.append((kind, st2, v))
                else:
                    out.extend(go(i + 1, st2, acc + [v]))
            return out
        return go(0, st, [])

    def ev1(self, e: ast.expr, st: State, fr: Frame) -> Val:
        """Evaluate an expression that must not fork (spec / constant contexts)."""
        outs = [o for o in self.ev(e, st, fr) if o[0] == "val"]
        if len(outs) != 1:
            raise OutOfSubset(f"expression forks where a single value is required: {ast.dump(e)[:80]}")
        return outs[0][2]

    @staticmethod
    def val(st: State, v: Val): return [("val", st, v)]

    # ------------------------------------------------------------------ python object -> Val
    def py_to_val(self, o) -> Val:
        if isinstance(o, Val):
            return o
        if o is None:
            return V.NONEV
        if isinstance(o, bool):
            return V.boolv(o)
        if isinstance(o, int):
            return V.intv(o)
        if isinstance(o, str):
            return V.strv(o)
        if isinstance(o, _decimal.Decimal):
            fr_ = fractions.Fraction(o)
            return Val(DEC, z3.RealVal(f"{fr_.numerator}/{fr_.denominator}"), aux=o)
        if isinstance(o, _dt.date) and not isinstance(o, _dt.datetime):
            return Val(DATE, z3.IntVal(o.toordinal()), aux=o)
        if isinstance(o, float):
            fr_ = fractions.Fraction(o)
            return Val(FLOAT, z3.RealVal(f"{fr_.numerator}/{fr_.denominator}"))
        if isinstance(o, (set, frozenset, list, tuple)):
            items = [self.py_to_val(x) for x in (sorted(o, key=repr) if isinstance(o, (set, frozenset)) else o)]
            et = items[0].ty if items else ANY
            return Val(Ty("cset" if isinstance(o, (set, frozenset)) else "clist", et), None, items=items)
        if isinstance(o, dict):
            items = [(self.py_to_val(k), self.py_to_val(v)) for k, v in o.items()]
            return Val(Ty("cdict"), None, items=items)
        if isinstance(o, EnumConst):
            return self.enum_member(o.q, o.member)
        if isinstance(o, ClassConst):
            return Val(V.ClassT(o.q))
        raise OutOfSubset(f"constant of python type {type(o).__name__}")

    # ------------------------------------------------------------------ concrete evaluation of constants
    def const_eval(self, e: ast.expr, module: ModuleInfo, cls: Optional[ClassInfo] = None, depth: int = 0, env: Optional[dict] = None):
        """Concrete value of a constant expression (module constants, class constants, enum tables).  Raises OutOfSubset."""
        env = env or {}
        if depth > 8:
            raise OutOfSubset("constant too deep")
        ce = lambda x, en=env: self.const_eval(x, module, cls, depth + 1, en)
        if isinstance(e, ast.Constant):
            return e.value
        if isinstance(e, ast.Name):
            if e.id in env:
                return env[e.id]
            if cls is not None and e.id in cls.class_assigns:
                return self.const_eval(cls.class_assigns[e.id], module, cls, depth + 1)
            q = self.tree.resolve_name(module, e.id)
            if q in self.tree.classes:
                return ClassConst(q)
            mod, _, leaf = q.rpartition(".")
            if mod in self.tree.modules and leaf in self.tree.modules[mod].assigns:
                return self.const_eval(self.tree.modules[mod].assigns[leaf], self.tree.modules[mod], None, depth + 1)
            raise OutOfSubset(f"constant name {e.id}")
        if isinstance(e, ast.Attribute):
            base = ce(e.value)
            if isinstance(base, ClassConst):
                c = self.tree.cls(base.q)
                if c.is_enum:
                    if any(m == e.attr for m, _ in c.enum_members):
                        return EnumConst(base.q, e.attr, self.enum_value_str(base.q, e.attr))
                hit = self.tree.find_class_attr(base.q, e.attr)
                if hit:
                    return self.const_eval(hit[1], hit[0].module, hit[0], depth + 1)
            if isinstance(base, EnumConst) and e.attr == "value":
                return base.value
            if isinstance(base, EnumConst) and e.attr == "name":
                return base.member
            if isinstance(base, _dt.date) and e.attr in ("year", "month", "day"):
                return getattr(base, e.attr)
            raise OutOfSubset(f"constant attribute {e.attr}")
        if isinstance(e, ast.BinOp):
            a, b = ce(e.left), ce(e.right)
            try:
                if isinstance(e.op, ast.Add): return a + b
                if isinstance(e.op, ast.Sub): return a - b
                if isinstance(e.op, ast.Mult): return a * b
            except TypeError as exc:
                raise OutOfSubset(f"constant binop: {exc}") from exc
            raise OutOfSubset("constant binop")
        if isinstance(e, ast.UnaryOp) and isinstance(e.op, ast.USub):
            return -ce(e.operand)
        if isinstance(e, ast.JoinedStr):
            parts = []
            for v in e.values:
                if isinstance(v, ast.Constant):
                    parts.append(str(v.value))
                elif isinstance(v, ast.FormattedValue) and v.format_spec is None and v.conversion == -1:
                    x = ce(v.value)
                    parts.append(str(x.value if isinstance(x, EnumConst) else x))
                else:
                    raise OutOfSubset("constant f-string with format spec")
            return "".join(parts)
        if isinstance(e, ast.Call):
            fn = e.func
            name = fn.id if isinstance(fn, ast.Name) else None
            args = [ce(a) for a in e.args]
            if name == "int": return int(args[0])
            if name == "str": return str(args[0])
            if name in ("Decimal", "RP2Decimal"): return _decimal.Decimal(args[0])
            if name == "date": return _dt.date(*args)
            if name in ("set", "list", "tuple", "frozenset", "sorted"):
                return {"set": set, "list": list, "tuple": tuple, "frozenset": frozenset, "sorted": sorted}[name](*args)
            if name == "len": return len(args[0])
            if name == "_":           # gettext marker: identity on the msgid for verification purposes
                return args[0]
            raise OutOfSubset(f"constant call {ast.dump(fn)[:40]}")
        if isinstance(e, (ast.Set, ast.List, ast.Tuple)):
            xs = [ce(x) for x in e.elts]
            return set(xs) if isinstance(e, ast.Set) else (list(xs) if isinstance(e, ast.List) else tuple(xs))
        if isinstance(e, ast.Dict):
            return {ce(k): ce(v) for k, v in zip(e.keys, e.values)}
        if isinstance(e, (ast.SetComp, ast.ListComp, ast.DictComp)) and len(e.generators) == 1 and not e.generators[0].is_async:
            g = e.generators[0]
            it = ce(g.iter)
            if isinstance(it, ClassConst) and self.tree.cls(it.q).is_enum:
                it = [EnumConst(it.q, m, v) for m, v in self.tree.cls(it.q).enum_members]
            if isinstance(it, dict) and False:
                pass
            out = []
            for x in (it.items() if (isinstance(it, dict) and isinstance(g.target, ast.Tuple) and False) else it):
                en = dict(env)
                if isinstance(g.target, ast.Name):
                    en[g.target.id] = x
                elif isinstance(g.target, ast.Tuple) and all(isinstance(t, ast.Name) for t in g.target.elts):
                    for t, xv in zip(g.target.elts, x):
                        en[t.id] = xv
                else:
                    raise OutOfSubset("constant comprehension target")
                if all(self.const_eval(c, module, cls, depth + 1, en) for c in g.ifs):
                    if isinstance(e, ast.DictComp):
                        out.append((self.const_eval(e.key, module, cls, depth + 1, en), self.const_eval(e.value, module, cls, depth + 1, en)))
                    else:
                        out.append(self.const_eval(e.elt, module, cls, depth + 1, en))
            return dict(out) if isinstance(e, ast.DictComp) else (set(out) if isinstance(e, ast.SetComp) else out)
        if isinstance(e, ast.Compare) and len(e.ops) == 1:
            a, b = ce(e.left), ce(e.comparators[0])
            op = type(e.ops[0]).__name__
            return {"Eq": a == b, "NotEq": a != b, "In": a in b if op == "In" else None, "NotIn": a not in b if op == "NotIn" else None}.get(op)
        if isinstance(e, ast.Subscript):
            a = ce(e.value)
            if isinstance(a, dict):
                return a[ce(e.slice)]
            raise OutOfSubset("constant subscript")
        raise OutOfSubset(f"constant expression {type(e).__name__}")

    # ------------------------------------------------------------------ leaves
    def e_Constant(self, e, st, fr):
        if isinstance(e.value, float):
            fr_ = fractions.Fraction(e.value)
            return self.val(st, Val(FLOAT, z3.RealVal(f"{fr_.numerator}/{fr_.denominator}"), aux="float-literal"))
        if e.value is Ellipsis:
            raise OutOfSubset("ellipsis")
        return self.val(st, self.py_to_val(e.value))

    def e_Name(self, e, st, fr):
        if e.id in st.env:
            return self.val(st, st.env[e.id])
        return self.val(st, self.global_name(e.id, fr))

    def global_name(self, name: str, fr: Frame) -> Val:
        m = fr.module
        if name in ("True", "False"):
            return V.boolv(name == "True")
        q = self.tree.resolve_name(m, name)
        if q in self.tree.classes:
            return Val(V.ClassT(q))
        if q in self.tree.functions:
            return Val(Ty("func", q))
        mod, _, leaf = q.rpartition(".")
        if mod in self.tree.modules and (leaf in self.tree.modules[mod].assigns):
            mm = self.tree.modules[mod]
            if leaf == "LOGGER":
                return Val(Ty("ext", "Logger"))
            try:
                return self.py_to_val(self.const_eval(mm.assigns[leaf], mm))
            except OutOfSubset:
                return Val(Ty("extfn", q))
        if name in m.imports or q != name:
            if q == "sys.maxsize":
                return self.sys_maxsize()
            return Val(Ty("extfn", q))          # imported external function / class / module (heapq.heappush, ezodf, ...)
        return Val(Ty("extfn", "builtins." + name))

    # ------------------------------------------------------------------ attribute
    def e_Attribute(self, e, st, fr):
        return self.seq([e.value], st, fr, lambda st2, vs: self.attr_of(vs[0], e.attr, st2, fr, e))

    def attr_of(self, o: Val, attr: str, st: State, fr: Frame, node) -> List:
        k = o.ty.kind
        if k == "opt":
            inner = o.ty.args[0]
            if not self.entails(st, z3.Not(o.none)):
                self.vc(st, z3.Not(o.none), "safety", f"none_deref.{attr}", node, fr)
                st = st.copy()
                st.assume(z3.Not(o.none))
            return self.attr_of(V.deopt(o), attr, st, fr, node)
        if k == "none":
            self.vc(st, False, "safety", f"none_deref.{attr}", node, fr)
            return []
        if k == "class":
            return self.class_attr(o, attr, st, fr, node)
        if k == "obj":
            return self.obj_attr(o, attr, st, fr, node)
        if k == "rec":
            q = o.ty.args[0]
            if any(n == attr for n, _ in self.rec_sort(q)[1]):
                return self.val(st, self.rec_field(o, attr))
            mi = self.tree.find_method(q, attr)
            if mi is not None:
                return self.val(st, Val(Ty("bound", mi.qualname), None, aux=o))
            raise OutOfSubset(f"record attr {attr}")
        if k == "ntuple":
            if o.items is not None and attr in o.items:
                return self.val(st, o.items[attr])
            raise OutOfSubset(f"namedtuple attr {attr}")
        if k == "enum":
            return self.enum_attr(o, attr, st, fr)
        if k == "datetime":
            return self.datetime_attr(o, attr, st, fr)
        if k == "date":
            if attr in ("year", "month", "day"):
                f = self.uf("date_" + attr, z3.IntSort(), z3.IntSort())
                return self.val(st, Val(INT, f(o.t)))
            return self.val(st, Val(Ty("bound", "date." + attr), None, aux=o))
        if k == "timedelta":
            if attr == "days":
                # floor division by 86_400_000_000 microseconds (CPython normalises timedelta so that 0 <= seconds < 86400)
                d = z3.Int(V.fresh_name("days"))
                st = st.copy()
                st.assume(z3.And(d * US_PER_DAY <= o.t, o.t < (d + 1) * US_PER_DAY))
                return self.val(st, Val(INT, d))
            return self.val(st, Val(Ty("bound", "timedelta." + attr), None, aux=o))
        if k == "dec" and "rp2.rp2_decimal.RP2Decimal" in self.tree.classes:
            mi = self.tree.find_method("rp2.rp2_decimal.RP2Decimal", attr)
            if mi is not None:
                return self.val(st, Val(Ty("bound", mi.qualname), None, aux=o))
        if k in ("list", "dict", "set", "str", "dec", "pdec", "cset", "cdict", "clist", "iter", "float", "int"):
            return self.val(st, Val(Ty("bound", f"{k}.{attr}"), None, aux=o))
        if k == "extfn":
            if o.ty.args[0] == "sys" and attr == "maxsize":
                return self.val(st, self.sys_maxsize())
            return self.val(st, Val(Ty("extfn", o.ty.args[0] + "." + attr)))
        if k in ("ext", "any"):
            return self.ext_attr(o, attr, st, fr, node)
        if k == "exc":
            raise OutOfSubset(f"attribute {attr} of exception value")
        raise OutOfSubset(f"attribute {attr} of {o.ty}")

    def class_attr(self, o: Val, attr: str, st: State, fr: Frame, node) -> List:
        q = o.ty.args[0]
        c = self.tree.cls(q)
        if c.is_enum and any(m == attr for m, _ in c.enum_members):
            return self.val(st, self.enum_member(q, attr))
        if attr == "__name__":
            return self.val(st, V.strv(c.name))
        mi = self.tree.find_method(q, attr)
        if mi is not None:
            return self.val(st, Val(Ty("bound", mi.qualname), None, aux=o if mi.is_classmethod else None))
        hit = self.tree.find_class_attr(q, attr)
        if hit:
            return self.val(st, self.py_to_val(self.const_eval(hit[1], hit[0].module, hit[0])))
        raise OutOfSubset(f"class attribute {q}.{attr}")

    def enum_attr(self, o: Val, attr: str, st: State, fr: Frame) -> List:
        q = o.ty.args[0]
        c = self.tree.cls(q)
        if attr in ("value", "name"):
            sort, consts = V.ENUM_SORTS[q]
            term = None
            for m, v in reversed(c.enum_members):
                lit = V.strlit(str(v) if attr == "value" else m)
                term = lit if term is None else z3.If(o.t == consts[m], lit, term)
            return self.val(st, Val(STR, term))
        mi = self.tree.find_method(q, attr)
        if mi is not None:
            return self.val(st, Val(Ty("bound", mi.qualname), None, aux=o))
        raise OutOfSubset(f"enum attribute {attr}")

    def datetime_attr(self, o: Val, attr: str, st: State, fr: Frame) -> List:
        if attr in ("year", "month", "day"):
            # calendar functions of *local* time = instant + offset (uninterpreted, with axioms supplied by contracts/datetime)
            f = self.uf("local_" + attr, z3.IntSort(), z3.IntSort())
            return self.val(st, Val(INT, f(self.local_us(o.t))))
        if attr == "tzinfo":
            return self.val(st, Val(V.Opt(Ty("ext", "tzinfo")), z3.Const("tz", V.Ref), none=self.uf("dt_naive", V.DT, z3.BoolSort())(o.t)))
        return self.val(st, Val(Ty("bound", "datetime." + attr), None, aux=o))

    def sys_maxsize(self) -> Val:
        """sys.maxsize: a symbolic integer >= 2**31 - 1 (true on every CPython build)."""
        m = z3.Int("sys_maxsize")
        ax = m >= 2 ** 31 - 1
        if not any(ax.eq(a) for a in self.global_axioms):
            self.global_axioms.append(ax)
        return Val(INT, m)

    @staticmethod
    def local_us(dt_term):
        return V.DT.inst(dt_term) + V.DT.off(dt_term) * 1000000

    def local_date(self, dt_term):
        """Ordinal of the local calendar date: floor(local microseconds / 86_400_000_000) + ordinal of 1970-01-01."""
        f = self.uf("us_to_day", z3.IntSort(), z3.IntSort())
        return f(self.local_us(dt_term))

    def day_axioms(self, x) -> List:
        """us_to_day(x) = floor(x / US_PER_DAY) + 719163, stated for one argument."""
        f = self.uf("us_to_day", z3.IntSort(), z3.IntSort())
        d = f(x) - 719163
        return [d * US_PER_DAY <= x, x < (d + 1) * US_PER_DAY]

    def ext_attr(self, o: Val, attr: str, st: State, fr: Frame, node) -> List:
        return self.val(st, Val(Ty("bound", f"ext.{o.ty.args[0] if o.ty.args else 'any'}.{attr}"), None, aux=o))

    def obj_attr(self, o: Val, attr: str, st: State, fr: Frame, node) -> List:
        q = o.ty.args[0]
        if attr == "__class__":
            return self.val(st, Val(Ty("dynclass", q), None, aux=o))
        mi = self.tree.find_method(q, attr)
        overridden = self.overriders(q, attr)
        if mi is not None or overridden:
            if (mi is not None and mi.is_property) or (mi is None and any(f.is_property for f in overridden.values())):
                return self.dispatch(o, attr, [], {}, st, fr, node)
            return self.val(st, Val(Ty("bound", "dyn:" + attr), None, aux=o))
        hit = self.tree.find_class_attr(q, attr)
        mangled = self.tree.mangle(fr.cls.name, attr) if fr.cls is not None else attr
        tab = self.field_table()
        if mangled in tab:
            return self.val(st, self.read_field_checked(st, o, mangled))
        if hit:
            return self.val(st, self.py_to_val(self.const_eval(hit[1], hit[0].module, hit[0])))
        raise OutOfSubset(f"attribute {attr} of {q} (no method, field or class constant)")

    def read_field_checked(self, st: State, o: Val, mangled: str) -> Val:
        v = self.read_field(st.heap, o, mangled, st)
        if v.ty.kind in ("obj", "list", "dict", "set"):
            self.assume_allocated(st, v)
        if v.ty.kind == "obj":
            st.assume(self.class_domain(v))
        if v.ty.kind == "opt" and v.ty.args[0].kind == "obj":
            st.assume(z3.Or(v.none, self.class_domain(V.deopt(v))))
        return v

    def overriders(self, q: str, name: str) -> Dict[str, FuncInfo]:
        """Concrete subclasses of q (including q) -> the implementation of `name` each resolves to (non-abstract only)."""
        out: Dict[str, FuncInfo] = {}
        for k in self.tree.subclasses(q):
            f = self.tree.find_method(k, name)
            if f is not None and not self.is_abstract_stub(f):
                out[k] = f
        return out

    @staticmethod
    def is_abstract_stub(f: FuncInfo) -> bool:
        body = [s for s in f.node.body if not (isinstance(s, ast.Expr) and isinstance(s.value, ast.Constant))]
        return (len(body) == 1 and isinstance(body[0], ast.Raise) and isinstance(body[0].exc, ast.Call)
                and isinstance(body[0].exc.func, ast.Name) and body[0].exc.func.id == "NotImplementedError")

    # ------------------------------------------------------------------ truthiness
    def truth(self, v: Val, st: State):
        k = v.ty.kind
        if k == "bool":
            return v.t
        if k == "none":
            return z3.BoolVal(False)
        if k == "opt":
            inner = V.deopt(v)
            return z3.And(z3.Not(v.none), self.truth(inner, st))
        if k in ("dec", "pdec", "float"):
            return v.t != 0
        if k in ("int", "timedelta"):
            return v.t != 0
        if k == "str":
            return v.t != V.strlit("")
        if k in ("list", "dict", "set"):
            return self.coll_len(st.heap, v) > 0
        if k in ("cset", "clist", "cdict"):
            return z3.BoolVal(len(v.items) > 0)
        if k == "obj":
            q = v.ty.args[0]
            if self.tree.find_method(q, "__bool__") or self.tree.find_method(q, "__len__"):
                raise OutOfSubset(f"truthiness of {q} with __bool__/__len__")
            return z3.BoolVal(True)
        if k in ("rec", "enum", "datetime", "date", "class", "func", "bound", "ntuple"):
            if k == "rec" and (self.tree.find_method(v.ty.args[0], "__bool__") or self.tree.find_method(v.ty.args[0], "__len__")):
                raise OutOfSubset("truthiness of record with __bool__")
            return z3.BoolVal(True)
        if k == "ext":
            nm = v.ty.args[0] if v.ty.args else ""
            if nm in ("AVLTree", "Logger", "tzinfo", "AVLNode", "Path", "ModuleType"):
                return z3.BoolVal(True)      # no __bool__/__len__ on these classes (prezzemolo.AVLTree checked by the conformance test)
            return self.uf("truthy", V.Ref, z3.BoolSort())(v.t)
        if k == "any":
            return self.uf("truthy", V.Ref, z3.BoolSort())(v.t)
        raise OutOfSubset(f"truthiness of {v.ty}")

    # ------------------------------------------------------------------ boolean structure
    def e_BoolOp(self, e, st, fr):
        is_and = isinstance(e.op, ast.And)

        def go(i: int, st: State) -> List:
            if i == len(e.values) - 1:
                return self.ev(e.values[i], st, fr)
            out = []
            for kind, st1, a in self.ev(e.values[i], st, fr):
                if kind == "raise":
                    out.append((kind, st1, a))
                    continue
                ta = self.truth(a, st1)
                cont_c = ta if is_and else z3.Not(ta)           # condition under which evaluation continues
                if V.is_false(cont_c) or not self.feasible_with(st1, cont_c):
                    out.append(("val", st1, a))
                    continue
                sure = V.is_true(cont_c) or self.entails(st1, cont_c)
                st_c = st1.copy()
                st_c.assume(cont_c)
                rest = go(i + 1, st_c)
                if sure:
                    out.extend(rest)
                    continue
                vals = [r for r in rest if r[0] == "val"]
                if len(rest) == 1 and len(vals) == 1 and self.same_heap(vals[0][1], st1):
                    # pure right operand: merge into one value, keep facts learned on the right guarded by the condition
                    _, st_r, b = vals[0]
                    merged = st1.copy()
                    extra = st_r.pc[len(st_c.pc):]
                    for x in extra:
                        merged.assume(z3.Implies(cont_c, x))
                    if a.ty.kind == "bool" and b.ty.kind == "bool":
                        out.append(("val", merged, V.boolv(z3.And(ta, b.t) if is_and else z3.Or(ta, b.t))))
                    else:
                        tb = self.truth(b, st_r)
                        out.append(("val", merged, Val(BOOL, z3.And(ta, tb) if is_and else z3.Or(ta, tb), aux=("boolop", a, b, cont_c))))
                else:
                    st_s = st1.copy()
                    st_s.assume(z3.Not(cont_c))
                    out.append(("val", st_s, a))
                    out.extend(rest)
            return out
        return go(0, st)

    def feasible_with(self, st: State, c) -> bool:
        if z3.is_false(c) or any(z3.is_false(p) for p in st.pc):
            return False
        self._sync(st.pc)
        self._feas.push()
        try:
            self._feas.add(c)
            return self._feas.check() != z3.unsat
        finally:
            self._feas.pop()

    @staticmethod
    def same_heap(a: State, b: State) -> bool:
        if a.heap.keys() != b.heap.keys():
            # new keys that were only *read* (lazily created initial arrays) are fine
            for k in set(a.heap) | set(b.heap):
                if k in a.heap and k in b.heap:
                    if not a.heap[k].eq(b.heap[k]):
                        return False
                else:
                    h = a.heap.get(k, b.heap.get(k))
                    if not (z3.is_const(h) and h.decl().name().startswith("H0_")):
                        return False
            return True
        return all(a.heap[k].eq(b.heap[k]) for k in a.heap)

    def e_UnaryOp(self, e, st, fr):
        def k(st2, vs):
            v = vs[0]
            if isinstance(e.op, ast.Not):
                return self.val(st2, V.boolv(z3.Not(self.truth(v, st2))))
            if isinstance(e.op, ast.USub):
                if v.ty.kind in ("int", "dec", "float", "pdec"):
                    return self.val(st2, Val(v.ty, -v.t))
            raise OutOfSubset(f"unary {type(e.op).__name__} on {v.ty}")
        return self.seq([e.operand], st, fr, k)

    def e_IfExp(self, e, st, fr):
        out = []
        for kind, st1, c in self.ev(e.test, st, fr):
            if kind == "raise":
                out.append((kind, st1, c))
                continue
            tc = self.truth(c, st1)
            branches = []
            for cond, sub in ((tc, e.body), (z3.Not(tc), e.orelse)):
                if V.is_false(cond) or not self.feasible_with(st1, cond):
                    continue
                s2 = st1.copy()
                s2.assume(cond)
                branches.append((cond, s2, self.ev(sub, s2, fr)))
            if len(branches) == 2 and all(len(b[2]) == 1 and b[2][0][0] == "val" and self.same_heap(b[2][0][1], st1) for b in branches):
                (c1, s1, [(_, r1, v1)]), (c2, s2, [(_, r2, v2)]) = branches
                mv = self.merge_vals(c1, v1, v2)
                if mv is not None:
                    merged = st1.copy()
                    for x in r1.pc[len(s1.pc):]:
                        merged.assume(z3.Implies(c1, x))
                    for x in r2.pc[len(s2.pc):]:
                        merged.assume(z3.Implies(c2, x))
                    out.append(("val", merged, mv))
                    continue
            for _, _, res in branches:
                out.extend(res)
        return out

    def merge_vals(self, c, a: Val, b: Val) -> Optional[Val]:
        """ite(c, a, b) when the two values have a common representation."""
        if a is b:
            return a
        if a.ty == b.ty:
            if a.ty.kind == "none":
                return a
            if a.ty.kind == "tuple":
                items = [self.merge_vals(c, x, y) for x, y in zip(a.items, b.items)]
                return None if any(i is None for i in items) else Val(a.ty, None, items=items)
            if a.ty.kind == "ntuple":
                if a.items is None or b.items is None:
                    return None
                items = {n: self.merge_vals(c, a.items[n], b.items[n]) for n in a.items}
                return None if any(i is None for i in items.values()) else Val(a.ty, None, items=items)
            if a.t is None or b.t is None:
                return a if (a.t is None and b.t is None and a.aux is b.aux and a.items is b.items) else None
            none = z3.If(c, a.none, b.none) if a.ty.kind == "opt" else None
            t = a.t if a.t.eq(b.t) else z3.If(c, a.t, b.t)
            aux = a.aux if a.aux is b.aux else None
            return Val(a.ty, t, none=none, aux=aux)
        # None vs T  ->  Optional[T]
        ka, kb = a.ty.kind, b.ty.kind
        if ka == "none" and kb not in ("tuple", "ntuple"):
            ot = V.Opt(b.ty)
            return self.merge_vals(c, V.to_opt(a, ot), self.coerce(b, ot))
        if kb == "none" and ka not in ("tuple", "ntuple"):
            ot = V.Opt(a.ty)
            return self.merge_vals(c, self.coerce(a, ot), V.to_opt(b, ot))
        if ka == "opt" and a.ty.args[0] == b.ty:
            return self.merge_vals(c, a, self.coerce(b, a.ty))
        if kb == "opt" and b.ty.args[0] == a.ty:
            return self.merge_vals(c, self.coerce(a, b.ty), b)
        if ka == "obj" and kb == "obj":
            # common superclass
            for k in self.tree.cls(a.ty.args[0]).mro:
                if k in self.tree.classes and self.tree.is_subclass(b.ty.args[0], k):
                    return Val(V.Obj(k), z3.If(c, a.t, b.t))
        if {ka, kb} <= {"dec", "float", "pdec"}:
            return Val(a.ty, z3.If(c, a.t, b.t))
        return None

    # ------------------------------------------------------------------ comparison
    def e_Compare(self, e, st, fr):
        if len(e.ops) != 1:
            # a < b < c  ==  a < b and b < c  (operands here are pure)
            parts = []
            left = e.left
            for op, right in zip(e.ops, e.comparators):
                parts.append(ast.Compare(left=left, ops=[op], comparators=[right]))
                left = right
            new = ast.BoolOp(op=ast.And(), values=parts)
            ast.copy_location(new, e)
            for p in parts:
                ast.copy_location(p, e)
            return self.e_BoolOp(new, st, fr)
        op = type(e.ops[0]).__name__
        return self.seq([e.left, e.comparators[0]], st, fr, lambda st2, vs: self.compare(op, vs[0], vs[1], st2, fr, e))

    def dec_cmp(self, op: str, d):
        """RP2Decimal operators as written in rp2_decimal.py (contract verified by the decimal lemma):
        ==: |d| <= 5e-14   >: d > 5e-14   >=: d >= -5e-14   <: not >=   <=: not >"""
        T = V.TOL
        return {"Eq": z3.And(d <= T, d >= -T), "NotEq": z3.Or(d > T, d < -T), "Gt": d > T, "GtE": d >= -T,
                "Lt": d < -T, "LtE": d <= T}[op]

    @staticmethod
    def exact_cmp(op: str, a, b):
        return {"Eq": a == b, "NotEq": a != b, "Gt": a > b, "GtE": a >= b, "Lt": a < b, "LtE": a <= b}[op]

    def compare(self, op: str, a: Val, b: Val, st: State, fr: Frame, node) -> List:
        ka, kb = a.ty.kind, b.ty.kind
        if op in ("Is", "IsNot"):
            r = self.identity(a, b)
            return self.val(st, V.boolv(r if op == "Is" else z3.Not(r)))
        if op in ("In", "NotIn"):
            r = self.contains(b, a, st)
            return self.val(st, V.boolv(r if op == "In" else z3.Not(r)))
        if ka == "opt" or kb == "opt" or ka == "none" or kb == "none":
            return self.compare_optional(op, a, b, st, fr, node)
        if "dec" in (ka, kb) and {ka, kb} <= {"dec", "pdec"}:
            return self.val(st, V.boolv(self.dec_cmp(op, a.t - b.t)))
        if ka == "dec" or kb == "dec":
            # RP2Decimal compared with a non-Decimal raises RP2TypeError in the operator body
            if {ka, kb} & {"int", "float", "str", "bool"}:
                self.vc(st, False, "type", "decimal_only", node, fr, note=f"RP2Decimal compared with {kb if ka == 'dec' else ka}")
                return [("raise", st, exc_val("RP2TypeError"))]
        if ka == "pdec" and kb == "pdec":
            return self.val(st, V.boolv(self.exact_cmp(op, a.t, b.t)))
        if ka in ("int", "date", "timedelta", "float") and kb in ("int", "date", "timedelta", "float", "bool"):
            bt = z3.If(b.t, 1, 0) if kb == "bool" else b.t
            return self.val(st, V.boolv(self.exact_cmp(op, a.t, bt)))
        if ka == "datetime" and kb == "datetime":
            return self.val(st, V.boolv(self.exact_cmp(op, V.DT.inst(a.t), V.DT.inst(b.t))))     # A-DT: aware datetimes compare as instants
        if op in ("Eq", "NotEq"):
            if ka in ("str", "enum", "bool") and ka == kb:
                r = a.t == b.t
                return self.val(st, V.boolv(r if op == "Eq" else z3.Not(r)))
            if ka == "rec" and kb == "rec":
                mi = self.tree.find_method(a.ty.args[0], "__eq__")
                if mi is None:
                    r = a.t == b.t
                    return self.val(st, V.boolv(r if op == "Eq" else z3.Not(r)))
            if ka == "obj":
                mi = self.tree.find_method(a.ty.args[0], "__eq__" if op == "Eq" else "__ne__")
                if mi is not None and not self.is_abstract_stub(mi):
                    return self.dispatch(a, "__eq__" if op == "Eq" else "__ne__", [b], {}, st, fr, node)
                ov = self.overriders(a.ty.args[0], "__eq__")
                if ov:
                    return self.dispatch(a, "__eq__" if op == "Eq" else "__ne__", [b], {}, st, fr, node)
                r = a.t == b.t
                return self.val(st, V.boolv(r if op == "Eq" else z3.Not(r)))
            if ka == "tuple" and kb == "tuple" and len(a.items) == len(b.items):
                raise OutOfSubset("tuple equality")
            if ka != kb and {ka, kb} <= {"str", "int", "enum", "bool", "date"}:
                return self.val(st, V.boolv(op == "NotEq"))
            if ka in ("any", "ext") or kb in ("any", "ext"):
                # equality of an opaque value with something: uninterpreted
                ua = self.coerce(a, ANY).t if a.t is not None else None
                ub = self.coerce(b, ANY).t if b.t is not None else None
                if ua is not None and ub is not None:
                    r = ua == ub
                    return self.val(st, V.boolv(r if op == "Eq" else z3.Not(r)))
        if ka == "obj" and op in ("Lt", "Gt", "LtE", "GtE"):
            name = {"Lt": "__lt__", "Gt": "__gt__", "LtE": "__le__", "GtE": "__ge__"}[op]
            return self.dispatch(a, name, [b], {}, st, fr, node)
        raise OutOfSubset(f"comparison {op} between {a.ty} and {b.ty}")

    def identity(self, a: Val, b: Val):
        ka, kb = a.ty.kind, b.ty.kind
        if kb == "none":
            return a.none if ka == "opt" else z3.BoolVal(ka == "none")
        if ka == "none":
            return b.none if kb == "opt" else z3.BoolVal(kb == "none")
        if ka in ("dec", "pdec") or kb in ("dec", "pdec"):
            # identity of Decimal objects: only decidable for the module singleton ZERO (aux tag), see computed_data._compute_price_per_unit
            if a.aux == "ZERO" and b.aux == "ZERO":
                return z3.BoolVal(True)
            if (a.aux == "ZERO") != (b.aux == "ZERO") and "fresh-object" in (a.aux, b.aux):
                return z3.BoolVal(False)
            raise OutOfSubset("identity comparison of Decimal objects")
        if ka == "opt" or kb == "opt":
            an = a.none if ka == "opt" else z3.BoolVal(False)
            bn = b.none if kb == "opt" else z3.BoolVal(False)
            return z3.Or(z3.And(an, bn), z3.And(z3.Not(an), z3.Not(bn), a.t == b.t))
        if a.t is not None and b.t is not None and a.t.sort() == b.t.sort():
            return a.t == b.t
        if ka == "class" and kb == "class":
            return z3.BoolVal(a.ty == b.ty)
        raise OutOfSubset(f"identity between {a.ty} and {b.ty}")

    def compare_optional(self, op: str, a: Val, b: Val, st: State, fr: Frame, node) -> List:
        if op not in ("Eq", "NotEq"):
            raise OutOfSubset("ordering on Optional")
        an = a.none if a.ty.kind == "opt" else z3.BoolVal(a.ty.kind == "none")
        bn = b.none if b.ty.kind == "opt" else z3.BoolVal(b.ty.kind == "none")
        out = []
        both_none = z3.And(an, bn)
        one_none = z3.Xor(an, bn)
        neither = z3.And(z3.Not(an), z3.Not(bn))
        res_parts = []          # (condition, Bool term)
        pending = []
        for cond, value in ((both_none, True), (one_none, False)):
            if not V.is_false(cond) and self.feasible_with(st, cond):
                res_parts.append((cond, z3.BoolVal(value)))
        if a.ty.kind != "none" and b.ty.kind != "none" and not V.is_false(neither) and self.feasible_with(st, neither):
            s2 = st.copy()
            s2.assume(neither)
            inner = self.compare("Eq", V.deopt(a), V.deopt(b), s2, fr, node)
            if len(inner) == 1 and inner[0][0] == "val" and self.same_heap(inner[0][1], st):
                res_parts.append((neither, inner[0][2].t))
                extra = inner[0][1].pc[len(s2.pc):]
                st = st.copy()
                for x in extra:
                    st.assume(z3.Implies(neither, x))
            else:
                # the rp2 __eq__ forks (raises): fall back to forking everything
                for cond, tv in res_parts:
                    s3 = st.copy()
                    s3.assume(cond)
                    out.append(("val", s3, V.boolv(tv if op == "Eq" else z3.Not(tv))))
                for kind, s3, v in inner:
                    out.append((kind, s3, V.boolv(v.t if op == "Eq" else z3.Not(v.t)) if kind == "val" else v))
                return out
        term = z3.BoolVal(False)
        for cond, tv in reversed(res_parts):
            term = z3.If(cond, tv, term)
        term = z3.simplify(term)
        return self.val(st, V.boolv(term if op == "Eq" else z3.Not(term)))

    def contains(self, coll: Val, x: Val, st: State):
        k = coll.ty.kind
        if k in ("cset", "clist"):
            xs = []
            for it in coll.items:
                if it.ty.kind == x.ty.kind or {it.ty.kind, x.ty.kind} <= {"dec", "pdec"}:
                    xs.append(it.t == x.t)
            return z3.Or(*xs) if xs else z3.BoolVal(False)
        if k == "cdict":
            xs = [kk.t == x.t for kk, _ in coll.items if kk.ty.kind == x.ty.kind]
            return z3.Or(*xs) if xs else z3.BoolVal(False)
        if k in ("dict", "set"):
            return self.dict_has(st.heap, coll, x)
        if k == "tuple":
            return z3.Or(*[it.t == x.t for it in coll.items if it.ty.kind == x.ty.kind])
        if k == "list":
            i = z3.Int(V.fresh_name("mem"))
            et = coll.ty.args[0]
            if et.kind == "obj":
                raise OutOfSubset("membership in list of objects")
            return z3.Exists([i], z3.And(0 <= i, i < self.coll_len(st.heap, coll), self.list_get(st.heap, coll, i).t == x.t))
        if k in ("ext", "any", "opt"):
            return self.uf("ext_contains", V.Ref, V.Ref, z3.BoolSort())(self.coerce(coll, ANY).t if coll.ty.kind != "opt" else coll.t, self.coerce(x, ANY).t)
        raise OutOfSubset(f"membership test on {coll.ty}")

    # ------------------------------------------------------------------ arithmetic
    def e_BinOp(self, e, st, fr):
        return self.seq([e.left, e.right], st, fr, lambda st2, vs: self.binop(type(e.op).__name__, vs[0], vs[1], st2, fr, e))

    def binop(self, op: str, a: Val, b: Val, st: State, fr: Frame, node) -> List:
        ka, kb = a.ty.kind, b.ty.kind
        if ka == "opt" or kb == "opt":
            for x in (a, b):
                if x.ty.kind == "opt":
                    self.vc(st, z3.Not(x.none), "safety", "none_operand", node, fr)
                    st = st.copy()
                    st.assume(z3.Not(x.none))
            return self.binop(op, V.deopt(a), V.deopt(b), st, fr, node)
        if ka == "dec" or kb == "dec":
            if not ({ka, kb} <= {"dec", "pdec"}):
                # RP2Decimal.__add__ & co raise RP2TypeError for non-Decimal operands: a typing obligation (C04 "no float enters")
                self.vc(st, False, "type", "decimal_only", node, fr, note=f"RP2Decimal {op} {kb if ka == 'dec' else ka}")
                return [("raise", st, exc_val("RP2TypeError"))]
            return self.dec_arith(op, a, b, st, fr, node)
        if ka == "pdec" and kb == "pdec":
            return self.dec_arith(op, a, b, st, fr, node, result_ty=Ty("pdec"))
        if ka in ("int", "bool") and kb in ("int", "bool"):
            at = z3.If(a.t, 1, 0) if ka == "bool" else a.t
            bt = z3.If(b.t, 1, 0) if kb == "bool" else b.t
            if op == "Add": return self.val(st, Val(INT, at + bt))
            if op == "Sub": return self.val(st, Val(INT, at - bt))
            if op == "Mult": return self.val(st, Val(INT, at * bt))
            if op in ("FloorDiv", "Mod"):
                self.vc(st, bt != 0, "safety", "div_zero", node, fr)
                # Python floor semantics; for positive divisors z3 div/mod coincide
                q = z3.Int(V.fresh_name("q"))
                r = z3.Int(V.fresh_name("r"))
                st = st.copy()
                st.assume(z3.And(at == q * bt + r, z3.If(bt > 0, z3.And(0 <= r, r < bt), z3.And(bt < r, r <= 0))))
                return self.val(st, Val(INT, q if op == "FloorDiv" else r))
        if ka == "datetime" and kb == "datetime" and op == "Sub":
            return self.val(st, Val(Ty("timedelta"), V.DT.inst(a.t) - V.DT.inst(b.t)))      # A-DT
        if ka == "date" and kb == "date" and op == "Sub":
            return self.val(st, Val(Ty("timedelta"), (a.t - b.t) * US_PER_DAY))
        if ka == "str" and kb == "str" and op == "Add":
            la, lb = V.lit_of(a.t), V.lit_of(b.t)
            if la is not None and lb is not None:
                return self.val(st, V.strv(la + lb))
            return self.val(st, Val(STR, self.uf("str_concat", V.StrS, V.StrS, V.StrS)(a.t, b.t)))
        if ka == "str" and kb == "int" and op == "Mult":
            la = V.lit_of(a.t)
            if la is not None and z3.is_int_value(b.t):
                return self.val(st, V.strv(la * b.t.as_long()))
        if ka == "list" and kb == "list" and op == "Add":
            return self.list_concat(a, b, st)
        if {ka, kb} <= {"float", "int"}:
            at = z3.ToReal(a.t) if ka == "int" else a.t
            bt = z3.ToReal(b.t) if kb == "int" else b.t
            if op == "Add": return self.val(st, Val(FLOAT, at + bt))
            if op == "Sub": return self.val(st, Val(FLOAT, at - bt))
            if op == "Mult": return self.val(st, Val(FLOAT, at * bt))
        raise OutOfSubset(f"binary {op} between {a.ty} and {b.ty}")

    rounded_mode = False        # C04 rounding lemma: every result is exact*(1+delta), |delta| <= 5e-31 (prec read from the tree)
    rounding_eps = None
    deltas: List = []

    def dec_arith(self, op: str, a: Val, b: Val, st: State, fr: Frame, node, result_ty: Ty = DEC) -> List:
        if op == "Add": r = a.t + b.t
        elif op == "Sub": r = a.t - b.t
        elif op == "Mult": r = a.t * b.t
        elif op == "Div":
            if not self.entails(st, b.t != 0):
                self.vc(st, b.t != 0, "safety", "div_zero", node, fr)
                st = st.copy()
                st.assume(b.t != 0)
            r = a.t / b.t
        else:
            raise OutOfSubset(f"decimal operator {op}")
        if self.rounded_mode:
            d = z3.Real(V.fresh_name("delta"))
            self.deltas.append(d)
            st = st.copy()
            st.assume(z3.And(d >= -self.rounding_eps, d <= self.rounding_eps))
            r = r * (1 + d)
        return self.val(st, Val(result_ty, r, aux="fresh-object"))

    def list_concat(self, a: Val, b: Val, st: State) -> List:
        st = st.copy()
        et = a.ty.args[0] if a.ty.args[0] != ANY else b.ty.args[0]
        if a.ty.args[0] != b.ty.args[0] and a.ty.args[0].kind == "obj" and b.ty.args[0].kind == "obj":
            for k in self.tree.cls(a.ty.args[0].args[0]).mro:
                if k in self.tree.classes and self.tree.is_subclass(b.ty.args[0].args[0], k):
                    et = V.Obj(k)
                    break
        r = self.allocate(st, V.ListT(et), "cat")
        na, nb = self.coll_len(st.heap, a), self.coll_len(st.heap, b)
        st.heap[("llen",)] = z3.Store(st.heap[("llen",)], r.t, na + nb)
        arr = self.list_arr(st.heap, Val(V.ListT(et), r.t))
        i = z3.Int("ci")
        ca, cb = V.sel(arr, a.t), V.sel(arr, b.t)
        new = z3.Const(V.fresh_name("cat_el"), ca.sort())
        st.heap[("lel", V.sort_key(V.sort_of(et)))] = z3.Store(arr, r.t, new)
        st.assume(z3.ForAll([i], z3.Implies(z3.And(0 <= i, i < na), z3.Select(new, i) == z3.Select(ca, i)), patterns=[z3.Select(new, i)]))
        st.assume(z3.ForAll([i], z3.Implies(z3.And(na <= i, i < na + nb), z3.Select(new, i) == z3.Select(cb, i - na)), patterns=[z3.Select(new, i)]))
        # every element of either operand occurs in the result (instances keyed on the operands' elements)
        st.assume(z3.ForAll([i], z3.Implies(z3.And(0 <= i, i < na), z3.Select(new, i) == z3.Select(ca, i)), patterns=[z3.Select(ca, i)]))
        st.assume(z3.ForAll([i], z3.Implies(z3.And(0 <= i, i < nb), z3.Select(new, i + na) == z3.Select(cb, i)), patterns=[z3.Select(cb, i)]))
        return self.val(st, r)

    # ------------------------------------------------------------------ subscripts, displays, f-strings
    def e_Subscript(self, e, st, fr):
        if isinstance(e.slice, ast.Slice):
            raise OutOfSubset("slice")
        return self.seq([e.value, e.slice], st, fr, lambda st2, vs: self.subscript(vs[0], vs[1], st2, fr, e))

    def subscript(self, o: Val, i: Val, st: State, fr: Frame, node) -> List:
        k = o.ty.kind
        if k == "opt":
            self.vc(st, z3.Not(o.none), "safety", "none_subscript", node, fr)
            st = st.copy()
            st.assume(z3.Not(o.none))
            return self.subscript(V.deopt(o), i, st, fr, node)
        if k == "list":
            n = self.coll_len(st.heap, o)
            idx = i.t
            ok = z3.And(idx >= -n, idx < n)
            if not self.entails(st, ok):
                self.vc(st, ok, "safety", "index_in_range", node, fr)
                st = st.copy()
                st.assume(ok)
            idx = z3.If(idx < 0, idx + n, idx) if not self.entails(st, idx >= 0) else idx
            v = self.list_get(st.heap, o, idx)
            if v.ty.kind == "obj":
                st = st.copy()
                self.assume_allocated(st, v)
                st.assume(self.class_domain(v))
            return self.val(st, v)
        if k == "dict":
            has = self.dict_has(st.heap, o, i)
            if not self.entails(st, has):
                self.vc(st, has, "safety", "key_present", node, fr)
                st = st.copy()
                st.assume(has)
            v = self.dict_get(st.heap, o, i)
            if v.ty.kind == "obj":
                st = st.copy()
                self.assume_allocated(st, v)
                st.assume(self.class_domain(v))
            return self.val(st, v)
        if k == "cdict":
            xs = [(kk, vv) for kk, vv in o.items if kk.ty.kind == i.ty.kind]
            has = z3.Or(*[kk.t == i.t for kk, _ in xs]) if xs else z3.BoolVal(False)
            if not self.entails(st, has):
                self.vc(st, has, "safety", "key_present", node, fr)
                st = st.copy()
                st.assume(has)
            res = None
            for kk, vv in reversed(xs):
                res = vv if res is None else self.merge_vals(kk.t == i.t, vv, res)
                if res is None:
                    raise OutOfSubset("constant dict with heterogeneous values")
            return self.val(st, res)
        if k == "tuple":
            if z3.is_int_value(i.t):
                return self.val(st, o.items[i.t.as_long()])
            raise OutOfSubset("symbolic tuple index")
        if k == "class" and self.tree.cls(o.ty.args[0]).is_enum:
            # TransactionType["BUY"]: member by name; KeyError if absent (obligation)
            q = o.ty.args[0]
            c = self.tree.cls(q)
            names = [m for m, _ in c.enum_members]
            has = z3.Or(*[i.t == V.strlit(m) for m in names])
            if not self.entails(st, has):
                self.vc(st, has, "safety", "enum_key_present", node, fr)
                st = st.copy()
                st.assume(has)
            res = None
            for m in reversed(names):
                mv = self.enum_member(q, m)
                res = mv if res is None else Val(mv.ty, z3.If(i.t == V.strlit(m), mv.t, res.t))
            return self.val(st, res)
        if k in ("ext", "any"):
            return self.ext_subscript(o, i, st, fr, node)
        raise OutOfSubset(f"subscript on {o.ty}")

    def ext_subscript(self, o: Val, i: Val, st: State, fr: Frame, node) -> List:
        raise OutOfSubset(f"subscript on external value {o.ty}")

    def e_Tuple(self, e, st, fr):
        return self.seq(list(e.elts), st, fr, lambda st2, vs: self.val(st2, Val(V.TupleT(*[v.ty for v in vs]), None, items=list(vs))))

    def e_List(self, e, st, fr):
        def k(st2, vs):
            st3 = st2.copy()
            et = vs[0].ty if vs else ANY
            for v in vs[1:]:
                if v.ty != et:
                    mv = self.merge_vals(z3.BoolVal(True), Val(et, v.t) if False else vs[0], v)
                    et = mv.ty if mv is not None else ANY
            return self.val(st3, self.new_list(st3, et, [self.coerce(v, et) for v in vs]))
        return self.seq(list(e.elts), st, fr, k)

    def e_Dict(self, e, st, fr):
        if e.keys:
            def k(st2, vs):
                n = len(e.keys)
                ks, xs = vs[:n], vs[n:]
                st3 = st2.copy()
                d = self.new_dict_typed(st3, V.DictT(ks[0].ty, xs[0].ty), ks[0])
                for kk, xv in zip(ks, xs):
                    self.dict_set(st3, d, kk, xv)
                return self.val(st3, d)
            return self.seq(list(e.keys) + list(e.values), st, fr, k)
        st2 = st.copy()
        return self.val(st2, Val(Ty("emptydict"), None))

    def e_Set(self, e, st, fr):
        raise OutOfSubset("set display in executable code")

    def e_JoinedStr(self, e, st, fr):
        """f-strings: the *text* is dropped (uninterpreted string, function of the site and of the formatted values);
        the formatted expressions are still evaluated for run-time-error freedom."""
        subs = [v.value for v in e.values if isinstance(v, ast.FormattedValue)]
        for v in e.values:
            if isinstance(v, ast.FormattedValue) and v.format_spec is not None:
                subs.extend(x.value for x in v.format_spec.values if isinstance(x, ast.FormattedValue))

        def k(st2, vs):
            if not vs:
                return self.val(st2, V.strv("".join(str(v.value) for v in e.values if isinstance(v, ast.Constant))))
            if all(v.ty.kind == "str" and V.lit_of(v.t) is not None for v in vs) and all(
                    isinstance(v, ast.Constant) or (v.format_spec is None and v.conversion == -1) for v in e.values):
                it = iter(vs)
                return self.val(st2, V.strv("".join(str(v.value) if isinstance(v, ast.Constant) else V.lit_of(next(it).t) for v in e.values)))
            site = f"fstr_{fr.module.name.replace('.', '_')}_{e.lineno}_{e.col_offset}"
            args = [v for v in vs if v.t is not None and v.ty.kind not in ("tuple", "ntuple")]
            if args:
                f = self.uf(site + "_" + "_".join(V.sort_key(a.t.sort()) for a in args), *([a.t.sort() for a in args] + [V.StrS]))
                return self.val(st2, Val(STR, f(*[a.t for a in args]), aux=("fstr", e, vs)))
            return self.val(st2, Val(STR, z3.Const(site, V.StrS), aux=("fstr", e, vs)))
        return self.seq(subs, st, fr, k)

    def e_FormattedValue(self, e, st, fr):
        return self.ev(e.value, st, fr)

    def e_Lambda(self, e, st, fr):
        return self.val(st, Val(Ty("lambda"), None, aux=(e, dict(st.env), fr)))

    def e_Call(self, e, st, fr):
        return self.call_expr(e, st, fr)

    def e_Starred(self, e, st, fr):
        raise OutOfSubset("starred expression")

    def e_ListComp(self, e, st, fr): return self.comprehension(e, st, fr)
    def e_SetComp(self, e, st, fr): return self.comprehension(e, st, fr)
    def e_DictComp(self, e, st, fr): return self.comprehension(e, st, fr)

    def e_GeneratorExp(self, e, st, fr):
        raise OutOfSubset("generator expression")

    def comprehension(self, e, st, fr):
        """[elt for x in L if c]  over a list L, one generator: closed form of the defining loop (order-preserving filter-map):
        ghost sigma strictly increasing with R[k] = elt(L[sigma(k)]) and c(L[sigma(k)]); ghost tau: every i with c(L[i]) is sigma(tau(i))."""
        if (isinstance(e, ast.DictComp) and len(e.generators) == 1 and not e.generators[0].is_async and not e.generators[0].ifs
                and isinstance(e.generators[0].target, ast.Name) and isinstance(e.key, ast.Name) and e.key.id == e.generators[0].target.id
                and isinstance(e.value, ast.Constant) and isinstance(e.generators[0].iter, ast.Name)):
            # {m: c for m in EnumClass} with a constant c: iteration over an Enum class yields its members in definition order, so the
            # comprehension is the dict display {EnumClass.A: c, EnumClass.B: c, ...} (desugared on the AST, then evaluated as usual)
            q = self.tree.resolve_name(fr.module, e.generators[0].iter.id)
            if q in self.tree.classes and self.tree.cls(q).is_enum and self.tree.cls(q).enum_members:
                keys = [ast.copy_location(ast.Attribute(value=e.generators[0].iter, attr=m, ctx=ast.Load()), e) for m, _ in self.tree.cls(q).enum_members]
                disp = ast.copy_location(ast.Dict(keys=keys, values=[e.value] * len(keys)), e)
                ast.fix_missing_locations(disp)
                return self.e_Dict(disp, st, fr)
        if not isinstance(e, ast.ListComp) or len(e.generators) != 1 or e.generators[0].is_async or not isinstance(e.generators[0].target, ast.Name):
            raise OutOfSubset("comprehension (unsupported shape)")
        gen = e.generators[0]
        var = gen.target.id
        out = []
        for k, s1, src in self.ev(gen.iter, st, fr):
            if k == "raise":
                out.append((k, s1, src))
                continue
            if src.ty.kind != "list":
                raise OutOfSubset(f"comprehension over {src.ty}")
            et = self.list_elem_ty(src)
            x = z3.Const(V.fresh_name("cmp_x"), V.sort_of(et))
            xv = Val(et, x)

            def lift(expr, want_bool):
                scratch = s1.copy()
                self.assume_wf(scratch, xv)
                scratch.env[var] = xv
                base = len(scratch.pc)
                saved_emit, saved_n = self.emit, len(self.vcs)
                self.emit = False
                try:
                    outs = self.ev(expr, scratch, fr)
                finally:
                    self.emit = saved_emit
                    del self.vcs[saved_n:]
                term, ty = None, None
                for kk, s2, v in reversed(outs):
                    if kk != "val":
                        raise OutOfSubset("comprehension part may raise")
                    if not self.same_heap(s2, scratch):
                        raise OutOfSubset("comprehension part with side effects")
                    t = self.truth(v, s2) if want_bool else v.t
                    if t is None:
                        raise OutOfSubset("comprehension element without a term")
                    ty = v.ty
                    cond = z3.And(*s2.pc[base:]) if len(s2.pc) > base else z3.BoolVal(True)
                    term = t if term is None else z3.If(cond, t, term)
                return (lambda a: z3.substitute(term, (x, a))), ty
            conds = [lift(c, True)[0] for c in gen.ifs]
            eltf, elty = lift(e.elt, False)
            keep = lambda a: z3.And(*[c(a) for c in conds]) if conds else z3.BoolVal(True)
            s = s1.copy()
            rty = V.ListT(elty)
            r = self.allocate(s, rty, "comp")
            n = self.coll_len(s.heap, src)
            m = z3.Int(V.fresh_name("cmp_len"))
            old = V.sel(self.list_arr(s.heap, src), src.t)
            new = z3.Const(V.fresh_name("cmp_el"), z3.ArraySort(z3.IntSort(), V.sort_of(elty)))
            s.heap[("lel", V.sort_key(V.sort_of(elty)))] = z3.Store(self.list_arr(s.heap, Val(rty, r.t)), r.t, new)
            s.heap[("llen",)] = z3.Store(self.heap_get(s.heap, ("llen",), z3.ArraySort(V.Ref, z3.IntSort())), r.t, m)
            sg = z3.Function(V.fresh_name("cmp_sigma"), z3.IntSort(), z3.IntSort())
            tau = z3.Function(V.fresh_name("cmp_tau"), z3.IntSort(), z3.IntSort())
            i, j = z3.Int("cmp_i"), z3.Int("cmp_j")
            s.assume(z3.And(0 <= m, m <= n))
            s.assume(z3.ForAll([i], z3.Implies(z3.And(0 <= i, i < m), z3.And(0 <= sg(i), sg(i) < n, keep(z3.Select(old, sg(i))),
                                                                              z3.Select(new, i) == eltf(z3.Select(old, sg(i))), tau(sg(i)) == i))))
            s.assume(z3.ForAll([i, j], z3.Implies(z3.And(0 <= i, i < j, j < m), sg(i) < sg(j))))
            s.assume(z3.ForAll([i], z3.Implies(z3.And(0 <= i, i < n, keep(z3.Select(old, i))), z3.And(0 <= tau(i), tau(i) < m, sg(tau(i)) == i))))
            if "A-COMP" not in " ".join(self.notes):
                self.notes.append("A-COMP: a list comprehension over a list is the order-preserving filter-map of its defining loop")
            out.append(("val", s, Val(rty, r.t)))
        return out


class EnumConst:
    def __init__(self, q, member, value): self.q, self.member, self.value = q, member, value
    def __hash__(self): return hash((self.q, self.member))
    def __eq__(self, o): return isinstance(o, EnumConst) and (self.q, self.member) == (o.q, o.member)
    def __repr__(self): return f"{self.q}.{self.member}"


class ClassConst:
    def __init__(self, q): self.q = q
    def __hash__(self): return hash(self.q)
    def __eq__(self, o): return isinstance(o, ClassConst) and self.q == o.q
