"""Executor = core (types/heap) + expressions + statements/loops + calls/contracts.  See base.py for the doc."""
from .base import *          # noqa: F401,F403
from .symex_core import ExecCore
from .symex_expr import ExprMixin
from .symex_stmt import StmtMixin
from .symex_call import CallMixin


class Exec(ExecCore, ExprMixin, StmtMixin, CallMixin):
    pass
