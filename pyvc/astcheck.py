"""Effect / frame / finite-case obligations that are discharged syntactically over the AST of the current tree (DESIGN 8.C16-C18 and the
routing/shape clauses of C11-C15, C19, C20).  Each obligation is a named VC whose goal is a Boolean constant computed from the tree, so it goes
through the same reporting pipeline (a `False` goal is a refuted obligation; the note carries the offending site)."""
import ast
import z3
from typing import Dict, Iterable, List, Optional, Tuple

from .base import VC


def bvc(func: str, kind: str, label: str, ok: bool, loc: str = "", note: str = "") -> VC:
    return VC(func, kind, label, [], z3.BoolVal(bool(ok)), loc, 0, note=note[:600])


def all_modules(tree, prefix: str = "rp2"):
    return [m for n, m in sorted(tree.modules.items()) if n == prefix or n.startswith(prefix + ".")]


def imported_names(mod) -> List[Tuple[str, int]]:
    """Top-level names of every import statement anywhere in the module (also function-local ones)."""
    out = []
    for n in ast.walk(mod.tree):
        if isinstance(n, ast.Import):
            out += [(a.name, n.lineno) for a in n.names]
        elif isinstance(n, ast.ImportFrom) and n.module and n.level == 0:
            out.append((n.module, n.lineno))
    return out


def calls(mod) -> Iterable[ast.Call]:
    for n in ast.walk(mod.tree):
        if isinstance(n, ast.Call):
            yield n


def dotted(e) -> str:
    if isinstance(e, ast.Name):
        return e.id
    if isinstance(e, ast.Attribute):
        return dotted(e.value) + "." + e.attr
    if isinstance(e, ast.Call):
        return dotted(e.func) + "()"
    return "?"


def func_node(tree, qual: str) -> Optional[ast.FunctionDef]:
    try:
        return tree.func(qual).node
    except Exception:
        return None


def literal_set_returned(cls_node: ast.ClassDef, method: str):
    """The set/str literal returned by `def method(self): return {...}` of a class body (None if it has another shape)."""
    for b in cls_node.body:
        if isinstance(b, ast.FunctionDef) and b.name == method:
            rets = [n for n in ast.walk(b) if isinstance(n, ast.Return)]
            if len(rets) == 1:
                try:
                    return ast.literal_eval(rets[0].value)
                except (ValueError, SyntaxError):
                    return None
    return None
