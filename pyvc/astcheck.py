"""Effect / frame / finite-case obligations that are discharged syntactically over the AST of the current tree (DESIGN 8.C16-C18 and the
routing/shape clauses of C11-C15, C19, C20).  Each obligation is a named VC whose goal is a Boolean constant computed from the tree, so it goes
through the same reporting pipeline (a `False` goal is a refuted obligation; the note carries the offending site)."""
import ast
import z3
from typing import Dict, Iterable, List, Optional, Tuple

from .base import VC


OPEN = set()         # names of obligations whose failure means "shape not recognized" (undecided), not "refuted"


DEFINITE = set()     # names of syntactic obligations whose failure is a semantic fact about the tree (a wrong routing entry, a missing template, a
                     # forbidden call), not merely a shape that is no longer recognized


def bvc(func: str, kind: str, label: str, ok: bool, loc: str = "", note: str = "", open_: bool = False, definite: bool = False) -> VC:
    vc = VC(func, kind, label, [], z3.BoolVal(bool(ok)), loc, 0, note=note[:600])
    if open_ and not ok:
        OPEN.add(vc.name)
    if definite:
        DEFINITE.add(vc.name)
    return vc


def is_shape(vc, definite_labels=()) -> bool:
    """A syntactic obligation (goal is a Boolean constant computed from the AST) that only says 'the code no longer has the expected shape'.
    `definite_labels`: substrings of obligation names whose failure is a semantic fact (declared per property)."""
    if vc.pc or not (z3.is_true(vc.goal) or z3.is_false(vc.goal)) or vc.name in DEFINITE or vc.name in OPEN:
        return False
    return not any(d in vc.name for d in definite_labels)


def all_modules(tree, prefix: str = "rp2"):
    return [m for n, m in sorted(tree.modules.items()) if n == prefix or n.startswith(prefix + ".")]


def imported_names(mod) -> List[Tuple[str, int]]:
    """Top-level names of every import statement anywhere in the module (also function-local ones)."""
    out = []
    for n in ast.walk(mod.tree):
        if isinstance(n, ast.Import):
            out += [(a.name, n.lineno) for a in n.names]
        elif isinstance(n, ast.ImportFrom) and n.module and n.level == 0:
            out.append((n.module, n.lineno))
    return out


def calls(mod) -> Iterable[ast.Call]:
    for n in ast.walk(mod.tree):
        if isinstance(n, ast.Call):
            yield n


def dotted(e) -> str:
    if isinstance(e, ast.Name):
        return e.id
    if isinstance(e, ast.Attribute):
        return dotted(e.value) + "." + e.attr
    if isinstance(e, ast.Call):
        return dotted(e.func) + "()"
    return "?"


_MOD_OF: Dict[int, ast.Module] = {}


def func_node(tree, qual: str) -> Optional[ast.FunctionDef]:
    try:
        fi = tree.func(qual)
        _MOD_OF[id(fi.node)] = fi.module.tree
        return fi.node
    except Exception:
        return None


def literal_set_returned(cls_node: ast.ClassDef, method: str):
    """The set/str literal returned by `def method(self): return {...}` of a class body (None if it has another shape)."""
    for b in cls_node.body:
        if isinstance(b, ast.FunctionDef) and b.name == method:
            rets = [n for n in ast.walk(b) if isinstance(n, ast.Return)]
            if len(rets) == 1:
                try:
                    return ast.literal_eval(rets[0].value)
                except (ValueError, SyntaxError):
                    return None
    return None


# ------------------------------------------------------------------------------------------------------------------ table-writer rule
# A derived proof rule for the report writers, whose loops all have the shape
#
#     for e in S:                      # S: an entry set / list that is not modified in the body
#         ...                          # pure locals
#         self._fill_cell(sheet, row, <const column>, <value(e)>, ...)
#         row += 1                     # (or counters[key] = row + 1)
#
# Contract: after the loop, for every k < |S| and every bound column c:  cell(sheet, row0 + k, c) == value_c(S[k]),  and row == row0 + |S|.
# The invariant "row == row0 + k  and  rows row0 .. row0+k-1 carry the bindings" is inductive when (side conditions, checked on the AST):
#   W1  the loop iterates exactly the stated collection;
#   W2  no break / continue / return in the body, and no raise outside a type-check guard (every element gets its row);
#   W3  the row variable is advanced exactly once per iteration, by one, unconditionally, after the last cell write;
#   W4  every bound column is written by a _fill_cell(sheet, row, c, v) whose value v - after inlining single-assignment locals and
#       dropping typing casts - is the stated expression of the loop element, under the stated guard (None = unconditionally);
#   W5  no other write to a bound column of the row.
# _fill_cell's own frame (writes cell (row, column) of the sheet only) is a separate obligation on its body.
# The rule is syntactic, hence brittle by design against semantic rewrites (they become open obligations, i.e. undecided - never a violation
# unless the binding is provably different: a different constant column or a different attribute path).


class _Subst(ast.NodeTransformer):
    def __init__(self, env):
        self.env = env

    def visit_Name(self, n):
        if isinstance(n.ctx, ast.Load) and n.id in self.env:
            v = self.env[n.id]
            return ast.Name(id=v, ctx=ast.Load()) if isinstance(v, str) else ast.parse("(" + ast.unparse(v) + ")", mode="eval").body
        return n

    def visit_Call(self, n):
        n = self.generic_visit(n)
        if isinstance(n.func, ast.Name) and n.func.id == "cast" and len(n.args) == 2:
            return n.args[1]
        return n


def _single_assignments(body_nodes, exclude):
    """name -> rhs for names bound exactly once in the loop body by a plain (annotated) assignment and never read before that binding
    (a name read earlier carries a value from the previous iteration: it is state, not an abbreviation)."""
    counts: Dict[str, int] = {}
    rhs: Dict[str, ast.AST] = {}
    where: Dict[str, int] = {}
    for st in body_nodes:
        for n in ast.walk(st):
            if isinstance(n, ast.Name) and isinstance(n.ctx, ast.Store):
                counts[n.id] = counts.get(n.id, 0) + 1
            if isinstance(n, ast.AnnAssign) and n.value is None and isinstance(n.target, ast.Name):
                counts[n.target.id] = counts.get(n.target.id, 0) - 1        # bare annotation is not a binding
            if isinstance(n, ast.Assign) and len(n.targets) == 1 and isinstance(n.targets[0], ast.Name):
                rhs[n.targets[0].id], where[n.targets[0].id] = n.value, n.lineno
            elif isinstance(n, ast.AnnAssign) and isinstance(n.target, ast.Name) and n.value is not None:
                rhs[n.target.id], where[n.target.id] = n.value, n.lineno
    out = {}
    for k, v in rhs.items():
        if counts.get(k) != 1 or k in exclude:
            continue
        early = False
        for st in body_nodes:
            for n in ast.walk(st):
                if isinstance(n, ast.Name) and n.id == k and isinstance(n.ctx, ast.Load) and (n.lineno < where[k] or any(x is n for x in ast.walk(v))):
                    early = True
        if not early:
            out[k] = v
    return out


def norm_expr(e: ast.AST, env: Dict[str, object]) -> str:
    cur = ast.unparse(e)
    for _ in range(8):
        node = ast.parse(cur, mode="eval").body
        new = _Subst(env).visit(node)
        ast.fix_missing_locations(new)
        nxt = ast.unparse(new)
        if nxt == cur:
            break
        cur = nxt
    return ast.unparse(ast.parse(cur, mode="eval").body)


def loops_of(fnode) -> List[ast.For]:
    return sorted([n for n in ast.walk(fnode) if isinstance(n, ast.For)], key=lambda n: (n.lineno, n.col_offset))


class Writer:
    """Facts about one writer loop, in normal form (ELT = loop element)."""

    def __init__(self, fnode, loop: ast.For, row_expr: str = "row_index", fill="_fill_cell", outer_env: Optional[Dict[str, object]] = None):
        self.loop = loop
        self.fnode = fnode
        self.scope = scope_of(fnode, _MOD_OF.get(id(fnode)))
        if row_expr.isidentifier():
            # the row variable is whatever the cell writes of this loop pass as their row (robust against a rename of the local / parameter)
            from collections import Counter
            cnt = Counter(ast.unparse(c.args[1]) for st in loop.body for c in ast.walk(st) if isinstance(c, ast.Call) and isinstance(c.func, ast.Attribute) and
                          c.func.attr == fill and len(c.args) >= 4 and isinstance(c.args[1], ast.Name))
            if cnt:
                row_expr = cnt.most_common(1)[0][0]
        else:
            # counter lvalue such as row_indexes[sheet.name]: the local that is read from it and passed as the row
            for st in loop.body:
                tg = st.targets[0] if isinstance(st, ast.Assign) and len(st.targets) == 1 else st.target if isinstance(st, ast.AnnAssign) else None
                if isinstance(tg, ast.Name) and getattr(st, "value", None) is not None and isinstance(st.value, ast.Subscript) and \
                        any(isinstance(c, ast.Call) and isinstance(c.func, ast.Attribute) and c.func.attr == fill and len(c.args) >= 4 and ast.unparse(c.args[1]) == tg.id
                            for s2 in loop.body for c in ast.walk(s2)):
                    row_expr = ast.unparse(st.value)
                    break
        self.row_src = row_expr
        tgt = loop.target
        env: Dict[str, object] = dict(outer_env or {})
        if isinstance(tgt, ast.Name):
            env[tgt.id] = "ELT"
            self.targets = [tgt.id]
        else:
            self.targets = [x.id for x in tgt.elts if isinstance(x, ast.Name)]
            for i, x in enumerate(self.targets):
                env[x] = f"ELT{i}"
        env.update(_single_assignments(loop.body, exclude=set(self.targets) | {row_expr}))
        self.env = env
        self.row_norm = norm_expr(ast.parse(row_expr, mode="eval").body, env)
        self.iter = norm_expr(loop.iter, dict(outer_env or {}))
        self.cells = []         # (col, value, guards, lineno, row)
        self.skips = []
        self.stores = []        # (target, value, guards, lineno)
        self.advances = []      # (kind, guards, lineno)
        self._walk(loop.body, ())

    def n(self, e):
        s = norm_expr(e, self.env)
        return s

    def _walk(self, stmts, guards):
        for st in stmts:
            if isinstance(st, ast.If):
                t = self.n(st.test)
                self._walk(st.body, guards + ((t, True),))
                self._walk(st.orelse, guards + ((t, False),))
                continue
            if isinstance(st, (ast.For, ast.While)):
                # nested loop: its writes are not per-element bindings; recorded as guarded by the loop
                self._walk(st.body, guards + (("<nested loop>", True),))
                continue
            if isinstance(st, (ast.Break, ast.Continue, ast.Return)):
                self.skips.append((type(st).__name__.lower(), guards, st.lineno))
            if isinstance(st, ast.Raise):
                self.skips.append(("raise", guards, st.lineno))
            if isinstance(st, ast.Try):
                self._walk(st.body, guards)
                for h in st.handlers:
                    self._walk(h.body, guards + (("<except>", True),))
                continue
            if isinstance(st, ast.AugAssign) and (ast.unparse(st.target) == self.row_src or self.n(st.target) == self.row_norm):
                self.advances.append((ast.unparse(st.op.__class__()) if False else type(st.op).__name__ + ":" + ast.unparse(st.value), guards, st.lineno))
            if isinstance(st, ast.Assign) and len(st.targets) == 1 and isinstance(st.targets[0], ast.Name) and st.targets[0].id == self.row_src and \
                    isinstance(st.value, ast.BinOp) and isinstance(st.value.op, (ast.Add, ast.Sub)) and ast.unparse(st.value.left) == self.row_src:
                self.advances.append((type(st.value.op).__name__ + ":" + ast.unparse(st.value.right), guards, st.lineno))      # x = x + 1 is x += 1
            if isinstance(st, ast.Assign) and len(st.targets) == 1:
                t = st.targets[0]
                if not isinstance(t, ast.Name) and (ast.unparse(t) == self.row_src or self.n(t) == self.row_norm):
                    self.advances.append(("store:" + self.n(st.value), guards, st.lineno))
                elif isinstance(t, ast.Subscript):
                    self.stores.append((self.n(t), self.n(st.value), guards, st.lineno))
            for c in ast.walk(st):
                if isinstance(c, ast.Call) and isinstance(c.func, ast.Attribute) and c.func.attr == "_fill_cell" and len(c.args) >= 4:
                    col = c.args[2]
                    colv = col.value if isinstance(col, ast.Constant) else self.n(col)
                    self.cells.append((colv, self.n(c.args[3]), guards, c.lineno, self.n(c.args[1]), self.n(c.args[0])))


def _guards_eq(want, got, sc) -> bool:
    return len(want) == len(got) and all(wb == gb and expr_eq(wt, gt, sc) if not wt.startswith("<") else (wt, wb) == (gt, gb) for (wt, wb), (gt, gb) in zip(want, got))


def writer_vcs(qual: str, relpath: str, w: Optional[Writer], iter_expected: str, bindings: Dict, row_norm: Optional[str] = None, advance: Optional[str] = None,
               allow_raise_guards: Tuple[str, ...] = ("isinstance",), tag: str = "") -> List[VC]:
    """bindings: column -> expected value  |  column -> {guard or None: value}.  A guard is the normalized test text, prefixed with 'not ' for
    the else branch; a value may be a tuple of accepted alternatives.  Expected and actual expressions are compared modulo local names."""
    out = []
    t = (tag + "_") if tag else ""
    if w is None:
        return [bvc(qual, "writer", f"{t}loop_present", False, relpath, "writer loop not found (code restructured): obligation open", open_=True)]
    sc = w.scope
    row_norm = row_norm or w.row_norm
    advance = advance or ("Add:1" if w.row_src.isidentifier() else f"store:{row_norm} + 1")
    out.append(bvc(qual, "writer", f"{t}W1_iterates_{_lab(iter_expected)}", expr_eq(iter_expected, w.iter, sc), f"{relpath}:{w.loop.lineno}", f"iterates {w.iter}"))
    bad_skips = [s for s in w.skips if not (s[0] == "raise" and s[1] and any(g in s[1][-1][0] for g in allow_raise_guards))]
    out.append(bvc(qual, "writer", f"{t}W2_every_element_gets_a_row_no_break_continue_return", not bad_skips, f"{relpath}:{w.loop.lineno}", str(bad_skips)[:300]))
    adv_ok = len(w.advances) == 1 and w.advances[0][0] == advance and w.advances[0][1] == ()
    last_cell = max([c[3] for c in w.cells if c[4] == row_norm] or [0])
    if adv_ok and w.advances[0][2] < last_cell:
        adv_ok = False
    out.append(bvc(qual, "writer", f"{t}W3_row_advances_once_by_one_after_the_last_write", adv_ok, f"{relpath}:{w.loop.lineno}", str(w.advances)[:300]))
    for col, exp in sorted(bindings.items(), key=lambda kv: str(kv[0])):
        exp = exp if isinstance(exp, dict) else {None: exp}
        writes = [c for c in w.cells if c[0] == col and c[4] == row_norm]
        ok = True
        notes = []
        wants = []
        for guard, val in exp.items():
            vals = val if isinstance(val, tuple) else (val,)
            want = () if guard is None else _guard_tuple(guard)
            wants.append(want)
            hit = [c for c in writes if _guards_eq(want, c[2], sc)]
            if not hit:
                ok = False
                notes.append(f"no write of column {col} under guard {guard}")
            elif not all(any(expr_eq(v, c[1], sc) for v in vals) for c in hit):
                ok = False
                notes.append(f"column {col} under guard {guard} receives {[c[1] for c in hit]}, contract says {vals[0]}")
        stray = [c for c in writes if not any(_guards_eq(wn, c[2], sc) for wn in wants)]
        if stray:
            ok = False
            notes.append(f"further writes to column {col}: {[(c[1], c[2]) for c in stray]}")
        out.append(bvc(qual, "writer", f"{t}W4_column_{col}_is_{_lab(str(list(exp.values())[0] if not isinstance(list(exp.values())[0], tuple) else list(exp.values())[0][0]))}", ok,
                       f"{relpath}:{w.loop.lineno}", "; ".join(notes)[:500]))
    return out


def _guard_tuple(g):
    if isinstance(g, tuple):
        return tuple(_guard_tuple(x)[0] for x in g)
    if g.startswith("not "):
        return ((g[4:], False),)
    return ((g, True),)


def _lab(s: str) -> str:
    return "".join(ch if ch.isalnum() else "_" for ch in s)[:60].strip("_")


def function_env(fnode) -> Dict[str, object]:
    """Function-level abbreviations: names bound exactly once in the whole function by a plain assignment outside any loop."""
    top = [st for st in fnode.body]
    env = _single_assignments(top, exclude=set(a.arg for a in fnode.args.args))
    inside = set()
    for lp in loops_of(fnode):
        for n in ast.walk(lp):
            if isinstance(n, ast.Name) and isinstance(n.ctx, ast.Store):
                inside.add(n.id)
    return {k: v for k, v in env.items() if k not in inside and not isinstance(v, (ast.Dict, ast.List, ast.Set, ast.Constant))}


def writer_for(tree, qual: str, iter_expected: str, row_expr: str = "row_index") -> Tuple[Optional[ast.FunctionDef], Optional[Writer]]:
    f = func_node(tree, qual)
    if f is None:
        return None, None
    env = function_env(f)
    sc = scope_of(f, _MOD_OF.get(id(f)))
    for lp in loops_of(f):
        if expr_eq(iter_expected, norm_expr(lp.iter, env), sc):
            return f, Writer(f, lp, row_expr=row_expr, outer_env=env)
    return f, None


def header_list(fnode, attr: str) -> Optional[List[str]]:
    """English msgids of `self.<attr> = [ _("..."), "", _("{} x").format(...) ... ]` inside a function (None if another shape)."""
    for n in ast.walk(fnode):
        tgt = n.target if isinstance(n, ast.AnnAssign) else (n.targets[0] if isinstance(n, ast.Assign) and len(n.targets) == 1 else None)
        if tgt is not None and isinstance(tgt, ast.Attribute) and tgt.attr == attr and isinstance(n.value, ast.List):
            out = []
            for e in n.value.elts:
                if isinstance(e, ast.Constant):
                    out.append(e.value)
                    continue
                c = e
                if isinstance(c, ast.Call) and isinstance(c.func, ast.Attribute) and c.func.attr == "format":
                    c = c.func.value
                if isinstance(c, ast.Call) and dotted(c.func) == "_" and c.args and isinstance(c.args[0], ast.Constant):
                    out.append(c.args[0].value)
                else:
                    return None
            return out
    return None


# ------------------------------------------------------------------------------------------------------------------ matching modulo local names
# Expected code is written with the names the current tree uses.  To keep the obligations stable under harmless renames of locals and
# parameters, expected and actual code are compared modulo a consistent, injective renaming: a name of the expected snippet that the actual
# function does not know as a module-level name, builtin or attribute is a metavariable and may stand for any local or parameter of the
# actual function (the same one everywhere in that function).  `ANY` matches any expression, `ANY(...)`/`f(ANY)` accordingly; a lone `...`
# statement matches any (possibly empty) sequence of statements.  Names starting with ELT (normal form of loop elements) only match themselves.
import builtins as _builtins


class Scope:
    def __init__(self, fnode, mod_tree=None):
        self.params = set()
        self.locals = set()
        if fnode is not None and hasattr(fnode, "args"):
            a = fnode.args
            self.params = {x.arg for x in a.args + a.kwonlyargs + a.posonlyargs} | ({a.vararg.arg} if a.vararg else set()) | ({a.kwarg.arg} if a.kwarg else set())
        if fnode is not None:
            for n in ast.walk(fnode):
                if isinstance(n, ast.Name) and isinstance(n.ctx, (ast.Store, ast.Del)):
                    self.locals.add(n.id)
                elif isinstance(n, ast.ExceptHandler) and n.name:
                    self.locals.add(n.name)
        self.globals = set(dir(_builtins))
        if mod_tree is not None:
            for n in ast.walk(mod_tree):
                if isinstance(n, (ast.Import, ast.ImportFrom)):
                    self.globals |= {(x.asname or x.name).split(".")[0] for x in n.names}
            for n in mod_tree.body:
                if isinstance(n, (ast.FunctionDef, ast.ClassDef)):
                    self.globals.add(n.name)
                for t in (n.targets if isinstance(n, ast.Assign) else [n.target] if isinstance(n, ast.AnnAssign) else []):
                    if isinstance(t, ast.Name):
                        self.globals.add(t.id)
        self.env: Dict[str, str] = {}

    def bindable(self) -> set:
        return self.locals | self.params


_SKIP_FIELDS = {"ctx", "lineno", "col_offset", "end_lineno", "end_col_offset", "type_comment", "kind"}


def amatch(e, a, sc: Scope, strict_annotations: bool = False) -> bool:
    if isinstance(e, ast.Name) and e.id == "ANY":
        return True
    if isinstance(e, ast.Constant) and e.value is Ellipsis and not isinstance(a, ast.Constant):
        return True
    if type(e) is not type(a):
        return False
    if isinstance(e, ast.Name):
        if e.id.startswith("ELT") or a.id.startswith("ELT"):
            return e.id == a.id
        if a.id not in sc.bindable():
            return e.id == a.id                      # module-level name, builtin or free name: literally the same
        if e.id in sc.globals and e.id not in sc.bindable():
            return False                             # a module-level name of the expectation never stands for a local
        if e.id in sc.bindable():
            return e.id == a.id                      # the function still uses this name: it stands for itself (a swap of two locals is not a renaming)
        if e.id in sc.env:
            return sc.env[e.id] == a.id
        if a.id in sc.env.values():
            return False
        sc.env[e.id] = a.id
        return True
    if isinstance(e, ast.arg):
        return amatch(ast.Name(id=e.arg, ctx=ast.Load()), ast.Name(id=a.arg, ctx=ast.Load()), sc)
    if isinstance(e, ast.AnnAssign) and not strict_annotations:
        # annotations are documentation: `x: T = v` matches `x = v` handled by the caller; here only compare target and value
        return amatch(e.target, a.target, sc) and ((e.value is None) == (a.value is None)) and (e.value is None or amatch(e.value, a.value, sc))
    for f in e._fields:
        if f in _SKIP_FIELDS:
            continue
        ev, av = getattr(e, f, None), getattr(a, f, None)
        if isinstance(ev, list):
            if not isinstance(av, list):
                return False
            if f in ("body", "orelse", "finalbody") and ev and all(isinstance(x, ast.stmt) for x in ev):
                if not _match_block(ev, av, sc, anchored=True):
                    return False
                continue
            if len(ev) != len(av):
                # a call written f(ANY) matches any argument list
                if f in ("args", "keywords") and isinstance(e, ast.Call) and len(e.args) == 1 and isinstance(e.args[0], ast.Name) and e.args[0].id == "ANY" and not e.keywords:
                    continue
                return False
            for x, y in zip(ev, av):
                if isinstance(x, ast.AST):
                    if not amatch(x, y, sc):
                        return False
                elif x != y:
                    return False
        elif isinstance(ev, ast.AST):
            if not isinstance(av, ast.AST) or not amatch(ev, av, sc):
                return False
        else:
            if ev != av:
                if f == "id":
                    continue
                return False
    return True


def _benign(st) -> bool:
    if isinstance(st, ast.Pass) or (isinstance(st, ast.AnnAssign) and st.value is None):
        return True
    if isinstance(st, ast.Expr):
        if isinstance(st.value, ast.Constant):
            return True
        if isinstance(st.value, ast.Call) and dotted(st.value.func).split(".")[0] in ("LOGGER", "logging", "logger") and \
                not any(isinstance(n, ast.Call) for a in st.value.args[1:] for n in ast.walk(a)):
            return True          # a log statement whose arguments call nothing
    return False


def _is_ellipsis_stmt(st) -> bool:
    return isinstance(st, ast.Expr) and isinstance(st.value, ast.Constant) and st.value.value is Ellipsis


def _norm_stmt(st):
    """`x: T = v` and `x = v` are the same statement for matching purposes."""
    if isinstance(st, ast.AnnAssign) and st.value is not None:
        return ast.Assign(targets=[st.target], value=st.value)
    return st


def _match_block(exp: List[ast.stmt], act: List[ast.stmt], sc: Scope, anchored: bool) -> bool:
    """exp matches a run of consecutive statements of act (anywhere unless anchored at both ends; `...` = any run of statements)."""
    def rec(i, j, env0):
        if i == len(exp):
            return j == len(act) or not anchored
        if _is_ellipsis_stmt(exp[i]):
            for k in range(j, len(act) + 1):
                saved = dict(sc.env)
                if rec(i + 1, k, env0):
                    return True
                sc.env = saved
            return False
        if j >= len(act):
            return False
        saved = dict(sc.env)
        if amatch(_norm_stmt(exp[i]), _norm_stmt(act[j]), sc) and rec(i + 1, j + 1, env0):
            return True
        sc.env = saved
        # statements without effect on the computation may sit between the expected ones: logging calls, bare annotations, pass, string statements
        if i > 0 and _benign(act[j]) and rec(i, j + 1, env0):
            return True
        sc.env = saved
        return False
    starts = [0] if anchored else range(len(act) + 1)
    for s0 in starts:
        saved = dict(sc.env)
        if rec(0, s0, saved):
            return True
        sc.env = saved
    return False


_SCOPES: Dict[int, Scope] = {}


def scope_of(fnode, mod_tree=None) -> Scope:
    if id(fnode) not in _SCOPES:
        _SCOPES[id(fnode)] = Scope(fnode, mod_tree)
    return _SCOPES[id(fnode)]


def has(fnode, snippet: str, mod_tree=None, scope: Optional[Scope] = None) -> bool:
    """The statements of `snippet` occur consecutively in some block of `fnode`, modulo the renaming of locals / parameters (consistent per function)."""
    if fnode is None:
        return False
    import textwrap
    try:
        exp = canon(ast.parse(textwrap.dedent(snippet))).body
    except SyntaxError:
        return False
    sc = scope or scope_of(fnode, mod_tree)
    blocks = []
    for n in ast.walk(canon_of(fnode)):
        for f in ("body", "orelse", "finalbody"):
            b = getattr(n, f, None)
            if isinstance(b, list) and b and isinstance(b[0], ast.stmt):
                blocks.append(b)
    for b in blocks:
        if _match_block(exp, b, sc, anchored=False):
            return True
    return False


def has_expr(fnode, expr_src: str, mod_tree=None) -> bool:
    """Some sub-expression (or keyword argument `name=value`) of fnode matches, modulo local names."""
    if fnode is None:
        return False
    sc = scope_of(fnode, mod_tree)
    if "=" in expr_src and expr_src.split("=")[0].isidentifier() and not expr_src.split("=", 1)[1].startswith("="):
        k, v = expr_src.split("=", 1)
        e = canon(ast.parse(v, mode="eval")).body
        for n in ast.walk(canon_of(fnode)):
            if isinstance(n, ast.keyword) and n.arg == k:
                saved = dict(sc.env)
                if amatch(e, n.value, sc):
                    return True
                sc.env = saved
        return False
    e = canon(ast.parse(expr_src, mode="eval")).body
    for n in ast.walk(canon_of(fnode)):
        if isinstance(n, ast.expr):
            saved = dict(sc.env)
            if amatch(e, n, sc):
                return True
            sc.env = saved
    return False


def expr_eq(expected_src: str, actual_src: str, sc: Scope) -> bool:
    if expected_src == actual_src:
        return True
    try:
        e, a = canon(ast.parse(expected_src, mode="eval")).body, canon(ast.parse(actual_src, mode="eval")).body
    except SyntaxError:
        return False
    saved = dict(sc.env)
    if amatch(e, a, sc):
        return True
    sc.env = saved
    return False


class Fn:
    """A function of the tree under test with matching helpers (all modulo local names, consistent per function)."""

    def __init__(self, tree, qual: str):
        self.qual = qual
        self.node = func_node(tree, qual)
        self.mod = _MOD_OF.get(id(self.node)) if self.node is not None else None

    def __bool__(self) -> bool:
        return self.node is not None

    def has(self, *snippets: str) -> bool:
        return self.node is not None and all(has(self.node, s, self.mod) for s in snippets)

    def expr(self, *srcs: str) -> bool:
        return self.node is not None and all(has_expr(self.node, s, self.mod) for s in srcs)

    def order(self, *snippets: str) -> bool:
        """each snippet occurs, and their first occurrences come in this order (by line)"""
        lines = []
        for sn in snippets:
            ln = first_line(self.node, sn, self.mod)
            if ln is None:
                return False
            lines.append(ln)
        return lines == sorted(lines) and len(set(lines)) == len(lines)

    @property
    def scope(self) -> Scope:
        return scope_of(self.node, self.mod)

    def src(self) -> str:
        return ast.unparse(self.node) if self.node is not None else ""


def first_line(fnode, snippet: str, mod_tree=None) -> Optional[int]:
    import textwrap
    if fnode is None:
        return None
    try:
        exp = canon(ast.parse(textwrap.dedent(snippet))).body
    except SyntaxError:
        return None
    sc = scope_of(fnode, mod_tree)
    best = None
    for n in ast.walk(canon_of(fnode)):
        for f in ("body", "orelse", "finalbody"):
            b = getattr(n, f, None)
            if isinstance(b, list) and b and isinstance(b[0], ast.stmt):
                for k in range(len(b)):
                    saved = dict(sc.env)
                    if _match_block(exp, b[k:k + len(exp)], sc, anchored=True) if not any(_is_ellipsis_stmt(x) for x in exp) else _match_block(exp, b[k:], sc, anchored=False):
                        if best is None or b[k].lineno < best:
                            best = b[k].lineno
                        break
                    sc.env = saved
    return best


class _Rename(ast.NodeTransformer):
    def __init__(self, mapping):
        self.m = mapping

    def visit_Name(self, n):
        return ast.copy_location(ast.Name(id=self.m.get(n.id, n.id), ctx=n.ctx), n)


def renamed(node, mapping: Dict[str, str]):
    import copy
    return ast.fix_missing_locations(_Rename(mapping).visit(copy.deepcopy(node)))


# ------------------------------------------------------------------------------------------------------------------ canonical forms
# Equivalent spellings are brought to one form before expected and actual code are compared, so that the usual harmless rewrites do not
# change a verdict:  x += e  ==  x = x + e;  a == b  ==  b == a (operands ordered textually);  not (a or b)  ==  not a and not b;
# not (a == b)  ==  a != b;  `X if not c else Y`  ==  `Y if c else X`;  `if not c: A else: B`  ==  `if c: B else: A`;  tests with != are
# turned into == with the branches swapped.
class _Canon(ast.NodeTransformer):
    def visit_AugAssign(self, n):
        n = self.generic_visit(n)
        import copy
        tgt_load = copy.deepcopy(n.target)
        for x in ast.walk(tgt_load):
            if hasattr(x, "ctx"):
                x.ctx = ast.Load()
        return ast.copy_location(ast.Assign(targets=[n.target], value=ast.BinOp(left=tgt_load, op=n.op, right=n.value)), n)

    def visit_Compare(self, n):
        n = self.generic_visit(n)
        if len(n.ops) == 1 and isinstance(n.ops[0], (ast.Eq, ast.NotEq)):
            a, b = n.left, n.comparators[0]
            if ast.unparse(b) < ast.unparse(a):
                n.left, n.comparators = b, [a]
        return n

    def _neg(self, e):
        """canonical negation of an already canonical expression"""
        if isinstance(e, ast.UnaryOp) and isinstance(e.op, ast.Not):
            return e.operand
        if isinstance(e, ast.BoolOp):
            return ast.copy_location(ast.BoolOp(op=ast.And() if isinstance(e.op, ast.Or) else ast.Or(), values=[self._neg(v) for v in e.values]), e)
        if isinstance(e, ast.Compare) and len(e.ops) == 1:
            flip = {ast.Eq: ast.NotEq, ast.NotEq: ast.Eq, ast.Is: ast.IsNot, ast.IsNot: ast.Is, ast.In: ast.NotIn, ast.NotIn: ast.In,
                    ast.Lt: ast.GtE, ast.GtE: ast.Lt, ast.Gt: ast.LtE, ast.LtE: ast.Gt}
            t = flip.get(type(e.ops[0]))
            if t is not None and not isinstance(e.ops[0], (ast.Lt, ast.GtE, ast.Gt, ast.LtE)):      # order comparisons of Decimals/None-able values are left alone
                return ast.copy_location(ast.Compare(left=e.left, ops=[t()], comparators=e.comparators), e)
        return ast.copy_location(ast.UnaryOp(op=ast.Not(), operand=e), e)

    def visit_UnaryOp(self, n):
        n = self.generic_visit(n)
        if isinstance(n.op, ast.Not):
            return self._neg(n.operand)
        return n

    @staticmethod
    def _negative(t) -> bool:
        return (isinstance(t, ast.UnaryOp) and isinstance(t.op, ast.Not)) or \
            (isinstance(t, ast.Compare) and len(t.ops) == 1 and isinstance(t.ops[0], (ast.NotEq, ast.IsNot, ast.NotIn)))

    def visit_IfExp(self, n):
        n = self.generic_visit(n)
        if self._negative(n.test):
            return ast.copy_location(ast.IfExp(test=self._neg(n.test), body=n.orelse, orelse=n.body), n)
        return n

    def visit_If(self, n):
        n = self.generic_visit(n)
        if n.orelse and self._negative(n.test) and not (len(n.orelse) == 1 and isinstance(n.orelse[0], ast.If)):
            return ast.copy_location(ast.If(test=self._neg(n.test), body=n.orelse, orelse=n.body), n)
        return n


_CANON: Dict[int, ast.AST] = {}


def canon(node):
    import copy
    c = _Canon().visit(copy.deepcopy(node))
    ast.fix_missing_locations(c)
    return c


def canon_of(fnode):
    if id(fnode) not in _CANON:
        _CANON[id(fnode)] = canon(fnode)
    return _CANON[id(fnode)]
