"""Types, SMT sorts and symbolic values of the verifier (DESIGN.md 4.3)."""
from __future__ import annotations

import z3
from typing import Dict, List, Optional, Tuple

# ----------------------------------------------------------------------------- sorts
Ref = z3.DeclareSort("Ref")          # every heap object: rp2 instances, lists, dicts, sets, external handles
StrS = z3.DeclareSort("Str")         # strings: equality only (+ uninterpreted lower/upper/strip/format functions)
_DT = z3.Datatype("DateTime")        # aware datetime = (instant in microseconds since the epoch, UTC offset in seconds)
_DT.declare("mkdt", ("inst", z3.IntSort()), ("off", z3.IntSort()))
DT = _DT.create()

cls_of = z3.Function("cls_of", Ref, z3.IntSort())     # dynamic class id of an object

TOL = z3.RealVal("5e-14")            # half a unit of CRYPTO_DECIMALS=13 (re-derived from the tree by contracts/decimal lemma)


# ----------------------------------------------------------------------------- types
class Ty:
    __slots__ = ("kind", "args")

    def __init__(self, kind: str, *args) -> None:
        self.kind = kind
        self.args = args

    def __eq__(self, o) -> bool:
        return isinstance(o, Ty) and self.kind == o.kind and self.args == o.args

    def __hash__(self) -> int:
        return hash((self.kind, self.args))

    def __repr__(self) -> str:
        return self.kind if not self.args else f"{self.kind}[{','.join(map(str, self.args))}]"


INT = Ty("int")
BOOL = Ty("bool")
DEC = Ty("dec")          # RP2Decimal / Decimal -> Real
FLOAT = Ty("float")      # float -> Real (A-FLOATTS / A-FMT)
STR = Ty("str")
DATE = Ty("date")        # date -> Int (ordinal)
DATETIME = Ty("datetime")
NONE = Ty("none")
ANY = Ty("any")          # opaque value (sort Ref)
EXC = Ty("exc")          # exception instance (class name in Val.aux)


def Opt(t: Ty) -> Ty:
    if t.kind in ("opt", "none", "any"):
        return t
    return Ty("opt", t)


def Obj(q: str) -> Ty: return Ty("obj", q)
def Enum(q: str) -> Ty: return Ty("enum", q)
def Rec(q: str) -> Ty: return Ty("rec", q)
def ListT(t: Ty) -> Ty: return Ty("list", t)
def DictT(k: Ty, v: Ty) -> Ty: return Ty("dict", k, v)
def SetT(t: Ty) -> Ty: return Ty("set", t)
def TupleT(*ts: Ty) -> Ty: return Ty("tuple", *ts)
def ClassT(q: str) -> Ty: return Ty("class", q)
def Ext(name: str, *a) -> Ty: return Ty("ext", name, *a)    # external handle (AVLTree, ezodf ...), sort Ref


# registries filled by the executor from the tree
ENUM_SORTS: Dict[str, Tuple[z3.DatatypeSortRef, Dict[str, z3.ExprRef]]] = {}
REC_SORTS: Dict[str, Tuple[z3.DatatypeSortRef, List[Tuple[str, Ty]]]] = {}
TUPLE_SORTS: Dict[Tuple[str, ...], z3.DatatypeSortRef] = {}


def sort_of(t: Ty) -> z3.SortRef:
    k = t.kind
    if k in ("int", "date"):
        return z3.IntSort()
    if k == "bool":
        return z3.BoolSort()
    if k in ("dec", "float"):
        return z3.RealSort()
    if k == "str":
        return StrS
    if k == "datetime":
        return DT
    if k == "opt":
        return sort_of(t.args[0])
    if k == "enum":
        return ENUM_SORTS[t.args[0]][0]
    if k == "rec":
        return REC_SORTS[t.args[0]][0]
    if k in ("obj", "list", "dict", "set", "ext", "any", "none", "exc", "class"):
        return Ref
    if k == "tuple":
        return tuple_sort(t)
    raise NotImplementedError(f"sort_of({t})")


def sort_key(s: z3.SortRef) -> str:
    return s.name() if s.kind() != z3.Z3_ARRAY_SORT else f"Arr({sort_key(s.domain())},{sort_key(s.range())})"


def make_datatype(name: str, fields) -> z3.DatatypeSortRef:
    """A one-constructor datatype whose constructor/accessor names are unique in the SMT-LIB text (VCs are shipped to the solver pool
    as text, and an overloaded `mk`/`year` would be ambiguous there); Python-side aliases `.mk` and `.<field>` are kept."""
    d = z3.Datatype(name)
    d.declare("mk_" + name, *[(f"{name}.{n}", srt) for n, srt in fields])
    srt = d.create()
    aliases = {"mk": srt.constructor(0)}
    for i, (n, _) in enumerate(fields):
        aliases[n] = srt.accessor(0, i)
    DT_ALIASES[name] = aliases
    for n, f in aliases.items():
        if not hasattr(z3.DatatypeSortRef, n):
            setattr(srt, n, f)          # python-side alias on this wrapper object (the registries hand out this very object)
    return srt


DT_ALIASES: Dict[str, Dict[str, z3.FuncDeclRef]] = {}


class DTView:
    """sort + attribute access to its constructor (`mk`) and accessors by field name."""
    def __init__(self, srt) -> None:
        object.__setattr__(self, "_srt", srt)

    def __getattr__(self, n):
        srt = object.__getattribute__(self, "_srt")
        al = DT_ALIASES.get(srt.name(), {})
        if n in al:
            return al[n]
        return getattr(srt, n)

    def __eq__(self, o): return object.__getattribute__(self, "_srt") == (object.__getattribute__(o, "_srt") if isinstance(o, DTView) else o)
    def __hash__(self): return hash(object.__getattribute__(self, "_srt"))


def tuple_sort(t: Ty) -> z3.DatatypeSortRef:
    key = tuple(sort_key(sort_of(a)) for a in t.args)
    if key not in TUPLE_SORTS:
        TUPLE_SORTS[key] = make_datatype("Tup_" + "_".join(key), [(f"e{i}", sort_of(a)) for i, a in enumerate(t.args)])
    return TUPLE_SORTS[key]


# ----------------------------------------------------------------------------- values
class Val:
    """A symbolic Python value: static type + SMT term (+ `none` flag for Optional, + items for tuples)."""
    __slots__ = ("ty", "t", "none", "items", "aux")

    def __init__(self, ty: Ty, t=None, none=None, items=None, aux=None) -> None:
        self.ty = ty
        self.t = t
        self.none = none      # z3 Bool: value is None (only for opt types)
        self.items = items    # tuple elements (list of Val) / NamedTuple fields (dict)
        self.aux = aux        # bound-method receiver, exception class, ...

    def __repr__(self) -> str:
        return f"Val({self.ty}, {self.t}{', none=' + str(self.none) if self.none is not None else ''})"


_fresh_counter = [0]


def fresh_name(prefix: str) -> str:
    _fresh_counter[0] += 1
    return f"{prefix}!{_fresh_counter[0]}"


def fresh(ty: Ty, prefix: str = "v") -> Val:
    if ty.kind == "none":
        return Val(NONE)
    if ty.kind == "tuple":
        items = [fresh(a, prefix + f"_{i}") for i, a in enumerate(ty.args)]
        return Val(ty, None, items=items)
    if ty.kind == "opt":
        return Val(ty, z3.Const(fresh_name(prefix), sort_of(ty)), none=z3.Const(fresh_name(prefix + "_isnone"), z3.BoolSort()))
    return Val(ty, z3.Const(fresh_name(prefix), sort_of(ty)))


def const(ty: Ty, name: str) -> Val:
    if ty.kind == "opt":
        return Val(ty, z3.Const(name, sort_of(ty)), none=z3.Const(name + "$none", z3.BoolSort()))
    if ty.kind == "tuple":
        return Val(ty, None, items=[const(a, f"{name}.{i}") for i, a in enumerate(ty.args)])
    return Val(ty, z3.Const(name, sort_of(ty)))


def intv(n: int) -> Val: return Val(INT, z3.IntVal(n))
def boolv(b) -> Val: return Val(BOOL, z3.BoolVal(b) if isinstance(b, bool) else b)
def decv(x) -> Val: return Val(DEC, z3.RealVal(x) if not z3.is_expr(x) else x)
NONEV = Val(NONE)

# string literals are interned constants of sort Str, pairwise distinct (the Distinct axiom is added to every VC)
STR_LITS: Dict[str, z3.ExprRef] = {}


def strlit(s: str) -> z3.ExprRef:
    if s not in STR_LITS:
        safe = "".join(c if c.isalnum() else "_" for c in s)[:24]
        STR_LITS[s] = z3.Const(f"strlit{len(STR_LITS)}_{safe}", StrS)
    return STR_LITS[s]


def strv(s: str) -> Val: return Val(STR, strlit(s))


STR_LOWER = z3.Function("str_lower", StrS, StrS)
STR_UPPER = z3.Function("str_upper", StrS, StrS)
STR_STRIP = z3.Function("str_strip", StrS, StrS)
CASE_USED = [False]


_AX_CACHE = [None, None]


def str_axioms() -> List[z3.BoolRef]:
    key = (len(STR_LITS), CASE_USED[0])
    if _AX_CACHE[0] == key:
        return _AX_CACHE[1]
    out = _str_axioms()
    _AX_CACHE[0], _AX_CACHE[1] = (len(STR_LITS), CASE_USED[0]), out
    return out


def _str_axioms() -> List[z3.BoolRef]:
    out: List[z3.BoolRef] = []
    if CASE_USED[0]:
        # str.lower/upper on interned literals are computed; two closure rounds suffice (lower/upper are idempotent)
        for _ in range(2):
            for s in list(STR_LITS):
                strlit(s.lower()), strlit(s.upper()), strlit(s.strip())
        for s, c in STR_LITS.items():
            out += [STR_LOWER(c) == strlit(s.lower()), STR_UPPER(c) == strlit(s.upper()), STR_STRIP(c) == strlit(s.strip())]
        x = z3.Const("sx", StrS)
        out += [z3.ForAll([x], STR_UPPER(STR_LOWER(x)) == STR_UPPER(x)), z3.ForAll([x], STR_LOWER(STR_UPPER(x)) == STR_LOWER(x)),
                z3.ForAll([x], STR_LOWER(STR_LOWER(x)) == STR_LOWER(x)), z3.ForAll([x], STR_UPPER(STR_UPPER(x)) == STR_UPPER(x))]
    lits = list(STR_LITS.values())
    if len(lits) > 1:
        out.append(z3.Distinct(*lits))
    return out


def lit_of(t: z3.ExprRef) -> Optional[str]:
    """The Python string a Str term denotes, if it is an interned literal."""
    for s, c in STR_LITS.items():
        if c.eq(t):
            return s
    return None


def is_true(b) -> bool: return z3.is_true(z3.simplify(b)) if z3.is_expr(b) else bool(b)
def is_false(b) -> bool: return z3.is_false(z3.simplify(b)) if z3.is_expr(b) else not b


def deopt(v: Val) -> Val:
    """Strip the Optional wrapper (caller has established `not v.none`)."""
    if v.ty.kind == "opt":
        return Val(v.ty.args[0], v.t, items=v.items, aux=v.aux)
    return v


def to_opt(v: Val, ty: Ty) -> Val:
    """Coerce v to the optional type ty."""
    assert ty.kind == "opt"
    if v.ty.kind == "none":
        return Val(ty, z3.Const(fresh_name("nonepad"), sort_of(ty)), none=z3.BoolVal(True))
    if v.ty.kind == "opt":
        return Val(ty, v.t, none=v.none, items=v.items)
    return Val(ty, v.t, none=z3.BoolVal(False), items=v.items)


ALLOC_CONSTS: Dict[int, int] = {}      # z3 ast id of a reference constant handed out by the executor's allocator -> serial number


def sel(arr, idx):
    """Select with the store axioms applied syntactically: Store(a, i, v)[i] -> v, and Store(a, i, v)[j] -> a[j] when i and j are two
    different references handed out by the allocator (distinct by construction: their birth times differ).  Keeps heap terms small;
    anything else is left to the solver."""
    while z3.is_app(arr) and arr.decl().kind() == z3.Z3_OP_STORE:
        i = arr.arg(1)
        if i.eq(idx):
            return arr.arg(2)
        if i.get_id() in ALLOC_CONSTS and idx.get_id() in ALLOC_CONSTS:
            arr = arr.arg(0)
            continue
        break
    return z3.Select(arr, idx)
