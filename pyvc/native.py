"""Native side of a replay: runs inside a fresh interpreter with the tree under test first on sys.path."""
import importlib
import json
import sys


def main() -> int:
    pid = sys.argv[1]
    desc = json.load(sys.stdin)
    mod = importlib.import_module(f"props.{pid}")
    try:
        if desc.get("kind") == "cli":
            from harness import cli
            what = cli.replay(pid, desc["scenario"], desc.get("run"))
            res = {"reproduced": bool(what), "observed": what[:6], "required": "the property's statement, checked by harness/cli.py on the reports / exit status of this run"}
        elif desc.get("kind") == "e2e":
            from harness import e2e
            what = [w for p, w in e2e.run_scenario(desc["scenario"], [pid]) if p == pid]
            res = {"reproduced": bool(what), "observed": what[:6], "required": "the property's statement, checked by harness/e2e.py oracles on this history"}
        else:
            res = mod.native(desc)
    except Exception as exc:      # the harness failing is not a reproduction
        import traceback
        res = {"reproduced": False, "error": f"{type(exc).__name__}: {exc}", "trace": traceback.format_exc()[-1200:]}
    print("NATIVE-RESULT " + json.dumps(res, default=str))
    return 0


if __name__ == "__main__":
    sys.exit(main())
