"""Shared base types. Forward symbolic execution of real rp2 functions against contracts (DESIGN.md 4.4).

One `Exec` per run.  `verify(qualname)` executes the *real body* read from the tree, uses the contracts
of callees (or inlines their real bodies when they have none / are marked inline), cuts loops at the
sidecar invariants and returns the list of verification conditions.
"""
from __future__ import annotations

import ast
import itertools
import z3
from typing import Callable, Dict, List, Optional, Tuple

from . import vals as V
from .vals import Val, Ty, INT, BOOL, DEC, FLOAT, STR, DATE, DATETIME, NONE, ANY, EXC
from .source import SourceTree, FuncInfo, ClassInfo, ModuleInfo, ExtractionError
from . import spec as S


class OutOfSubset(Exception):
    """The function uses a construct the executor does not encode: *undecided*, never a violation."""


class VC:
    __slots__ = ("func", "kind", "label", "pc", "goal", "loc", "path", "note", "props")

    def __init__(self, func, kind, label, pc, goal, loc="", path=0, note="") -> None:
        self.func, self.kind, self.label, self.pc, self.goal, self.loc, self.path, self.note = func, kind, label, pc, goal, loc, path, note
        self.props: List[str] = []

    @property
    def name(self) -> str:
        return f"{self.func}/{self.kind}.{self.label}"


class State:
    __slots__ = ("env", "heap", "pc", "depth")

    def __init__(self, env=None, heap=None, pc=None, depth=0) -> None:
        self.env: Dict[str, Val] = env if env is not None else {}
        self.heap: Dict[object, z3.ExprRef] = heap if heap is not None else {}
        self.pc: List[z3.BoolRef] = pc if pc is not None else []
        self.depth = depth

    def copy(self) -> "State":
        return State(dict(self.env), dict(self.heap), list(self.pc), self.depth)

    def assume(self, b) -> None:
        if isinstance(b, bool):
            b = z3.BoolVal(b)
        if not z3.is_true(b):
            self.pc.append(b)


Outcome = Tuple[str, State, Optional[Val]]    # kind in val|normal|return|raise|break|continue


def exc_val(name: str) -> Val:
    return Val(EXC, None, aux=name)


class Frame:
    """Static context of the function being executed."""
    __slots__ = ("fn", "cls", "module", "loop_counter", "self_name")

    def __init__(self, fn: Optional[FuncInfo], module: ModuleInfo, cls: Optional[ClassInfo]) -> None:
        self.fn, self.module, self.cls = fn, module, cls
        self.loop_counter = 0


