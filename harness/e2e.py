"""End-to-end native stand-in (BOUNDED, never counted as proved): small histories through the real compute_tax of the tree under test,
checked against oracles transcribed from the property statements with exact rational arithmetic.

Used (a) as the tie-breaker when an obligation is undecided, (b) to look for a concrete failing input behind a refuted obligation,
(c) in the thorough tier as an independent cross-check.  A scenario is plain JSON; `run_scenario` returns the list of violated
property ids with details.  Nothing here is derived from rp2's own results except the results being checked.
"""
import datetime as dt
import random
from fractions import Fraction as Fr

EARN = {"airdrop", "hardfork", "income", "interest", "mining", "staking", "wages"}
TOL15 = Fr(1, 10 ** 15)


# ------------------------------------------------------------------ scenario -> real objects
def parse_ts(s):
    return dt.datetime.fromisoformat(s)


def inst(s):
    return parse_ts(s).timestamp() if False else int((parse_ts(s) - dt.datetime(1970, 1, 1, tzinfo=dt.timezone.utc)) / dt.timedelta(microseconds=1))


def local_date(s):
    return parse_ts(s).date()


def local_year(s):
    return parse_ts(s).year


def build(sc, txs=None, from_date=None, to_date=None, allow_negative=None):
    from harness import rp2h
    from rp2.in_transaction import InTransaction
    from rp2.out_transaction import OutTransaction
    from rp2.intra_transaction import IntraTransaction
    from rp2.transaction_set import TransactionSet
    from rp2.input_data import InputData
    from rp2.configuration import MIN_DATE, MAX_DATE
    fd = from_date if from_date is not None else (dt.date.fromisoformat(sc["from"]) if sc.get("from") else None)
    td = to_date if to_date is not None else (dt.date.fromisoformat(sc["to"]) if sc.get("to") else None)
    an = sc.get("allow_negative", True) if allow_negative is None else allow_negative
    cfg = rp2h.configuration(sc.get("country", "us"), sc.get("generic_days"), fd, td, an)
    asset = sc.get("asset", "B1")
    sets = {"IN": TransactionSet(cfg, "IN", asset), "OUT": TransactionSet(cfg, "OUT", asset), "INTRA": TransactionSet(cfg, "INTRA", asset)}
    objs = {}
    D = rp2h.D
    for t in (txs if txs is not None else sc["txs"]):
        opt = lambda k: D(t[k]) if t.get(k) is not None else None
        if t["tab"] == "IN":
            o = InTransaction(cfg, t["ts"], asset, t["ex"], t["ho"], t["type"], D(t["spot"]), D(t["amount"]), fiat_fee=opt("fiat_fee"),
                              fiat_in_no_fee=opt("fiat_in_no_fee"), fiat_in_with_fee=opt("fiat_in_with_fee"), row=t["row"])
        elif t["tab"] == "OUT":
            o = OutTransaction(cfg, t["ts"], asset, t["ex"], t["ho"], t["type"], D(t["spot"]), D(t["amount"]), D(t.get("fee", "0")),
                               fiat_out_no_fee=opt("fiat_out_no_fee"), fiat_fee=opt("fiat_fee"), row=t["row"])
        else:
            o = IntraTransaction(cfg, t["ts"], asset, t["ex"], t["ho"], t["to_ex"], t["to_ho"], D(t["spot"]), D(t["amount"]), D(t["received"]), row=t["row"])
        sets[t["tab"]].add_entry(o)
        objs[t["row"]] = o
    idata = InputData(asset, sets["IN"], sets["OUT"], sets["INTRA"], fd or MIN_DATE, td or MAX_DATE)
    return cfg, idata, objs


def engine(sc):
    import importlib
    from prezzemolo.avl_tree import AVLTree
    from rp2.accounting_engine import AccountingEngine
    y2m = AVLTree()
    for year, m in sorted((int(y), m) for y, m in sc.get("schedule", {"1970": "fifo"}).items()):
        y2m.insert_node(year, importlib.import_module(f"rp2.plugin.accounting_method.{m}").AccountingMethod())
    return AccountingEngine(y2m)


def compute(sc, **kw):
    from rp2.tax_engine import compute_tax
    cfg, idata, objs = build(sc, **kw)
    return compute_tax(cfg, engine(sc), idata), objs


# ------------------------------------------------------------------ reference quantities from the scenario alone (statements)
def need_of(t):
    if t["tab"] == "OUT":
        return Fr(t["amount"]) + Fr(t.get("fee", "0"))
    if t["tab"] == "INTRA":
        return Fr(t["amount"]) - Fr(t["received"])
    return Fr(t["amount"])


def taxable(t):
    if t["tab"] == "IN":
        return t["type"] in EARN
    if t["tab"] == "OUT":
        return True
    return need_of(t) != 0


def fiat_of(t, field, default):
    return Fr(t[field]) if t.get(field) is not None else default


def lot_cost(t):
    no_fee = fiat_of(t, "fiat_in_no_fee", Fr(t["amount"]) * Fr(t["spot"]))
    fee = fiat_of(t, "fiat_fee", Fr(0))
    return fiat_of(t, "fiat_in_with_fee", no_fee + fee)


def event_value(t):
    if t["tab"] == "OUT":
        if t["type"] == "fee":
            return fiat_of(t, "fiat_fee", Fr(t.get("fee", "0")) * Fr(t["spot"]))
        return fiat_of(t, "fiat_out_no_fee", Fr(t["amount"]) * Fr(t["spot"]))
    if t["tab"] == "INTRA":
        return need_of(t) * Fr(t["spot"])
    return lot_cost(t)


def method_for(sc, t):
    sched = sorted((int(y), m) for y, m in sc.get("schedule", {"1970": "fifo"}).items())
    y = local_year(t["ts"])
    best = None
    for year, m in sched:
        if year <= y:
            best = m
    return best


def better(method, a, b):
    """statement of C01: is lot a strictly better ranked than lot b under `method`?"""
    if method == "fifo":
        return inst(a["ts"]) < inst(b["ts"])
    if method == "lifo":
        return inst(a["ts"]) > inst(b["ts"])
    if method == "hifo":
        return Fr(a["spot"]) > Fr(b["spot"])
    return Fr(a["spot"]) < Fr(b["spot"])


TAB_ORDER = {"IN": 0, "OUT": 1, "INTRA": 2}
FLOW_ORDER = {"IN": 0, "INTRA": 1, "OUT": 2}


def threshold(sc):
    c = sc.get("country", "us")
    return {"us": 365, "es": 365, "jp": None, "ie": None, "generic": sc.get("generic_days", 365)}[c]


# ------------------------------------------------------------------ oracles
def entries_of(cd_or_set):
    gs = cd_or_set.gain_loss_set if hasattr(cd_or_set, "gain_loss_set") else cd_or_set
    return list(gs)


def desc_entry(g):
    return (g.taxable_event.row, g.acquired_lot.row if g.acquired_lot else None, str(g.crypto_amount))


def check_matching(sc, computed, props):
    """C01, C02, C03, C04, C05 on the (unfiltered) result of a run that returned normally."""
    out = []
    by_row = {t["row"]: t for t in sc["txs"]}
    ents = entries_of(computed)
    consumed = {t["row"]: Fr(0) for t in sc["txs"] if t["tab"] == "IN"}
    done = {}
    for g in ents:
        ev, lot = by_row[g.taxable_event.row], (by_row[g.acquired_lot.row] if g.acquired_lot else None)
        a = Fr(str(g.crypto_amount))
        if "C02" in props:
            if a <= 0:
                out.append(("C02", f"fraction {desc_entry(g)} has non-positive amount"))
            if lot is not None and inst(lot["ts"]) > inst(ev["ts"]):
                out.append(("C02", f"fraction {desc_entry(g)} taken from a lot acquired after the disposal"))
        if "C03" in props:
            if not taxable(ev):
                out.append(("C03", f"non-taxable transaction row {ev['row']} ({ev['tab']}/{ev.get('type')}) reported as taxable event"))
            is_earn = ev["tab"] == "IN"
            if is_earn and (lot is not None or a != need_of(ev)):
                out.append(("C03", f"earn event row {ev['row']} must be reported once, in full, without a lot: {desc_entry(g)}"))
            if not is_earn and lot is None:
                out.append(("C03", f"disposal row {ev['row']} reported without a lot"))
            if g.taxable_event.transaction_type.value != (ev.get("type") or "move"):
                out.append(("C03", f"row {ev['row']} reported under type {g.taxable_event.transaction_type.value}"))
        if "C01" in props and lot is not None:
            m = method_for(sc, ev)
            for r, l in by_row.items():
                if l["tab"] == "IN" and r != lot["row"] and inst(l["ts"]) <= inst(ev["ts"]) and Fr(l["amount"]) - consumed[r] > 0 and better(m, l, lot):
                    out.append(("C01", f"{m}: disposal row {ev['row']} took lot row {lot['row']} although better-ranked lot row {r} still had "
                                       f"{Fr(l['amount']) - consumed[r]} available"))
                    break
        if "C04" in props:
            proceeds = event_value(ev) * a / need_of(ev)
            cost = lot_cost(lot) * a / Fr(lot["amount"]) if lot is not None else Fr(0)
            for name, want, scale in (("taxable_event_fiat_amount_with_fee_fraction", proceeds, abs(proceeds)), ("fiat_cost_basis", cost, abs(cost)),
                                      ("fiat_gain", proceeds - cost, max(abs(proceeds), abs(cost)))):
                got = Fr(str(getattr(g, name)))
                if abs(got - want) > TOL15 * scale:
                    out.append(("C04", f"{name} of fraction {desc_entry(g)} is {float(got)!r}, exact value {float(want)!r}"))
        if "C05" in props:
            th = threshold(sc)
            want = False
            if lot is not None and th is not None:
                want = (inst(ev["ts"]) - inst(lot["ts"])) // (86400 * 10 ** 6) >= th
            if g.is_long_term_capital_gains() != want:
                out.append(("C05", f"fraction {desc_entry(g)} flagged {'LONG' if not want else 'SHORT'}, required {'LONG' if want else 'SHORT'}"))
        if lot is not None:
            consumed[lot["row"]] += a
        done[ev["row"]] = done.get(ev["row"], Fr(0)) + a
    if "C02" in props:
        for r, c in consumed.items():
            if c > Fr(by_row[r]["amount"]):
                out.append(("C02", f"lot row {r} overspent: {c} > {by_row[r]['amount']}"))
    for t in sc["txs"]:
        got = done.get(t["row"], Fr(0))
        if taxable(t) and got != need_of(t):
            if got == 0 and "C03" in props:
                out.append(("C03", f"taxable transaction row {t['row']} ({t['tab']}/{t.get('type', 'move')}) was dropped: no fraction reports it"))
            if t["tab"] != "IN" and "C02" in props:
                out.append(("C02", f"taxable event row {t['row']} covered for {got} instead of {need_of(t)}"))
            if t["tab"] == "IN" and got != 0 and "C03" in props:
                out.append(("C03", f"earn event row {t['row']} reported for {got} instead of its full amount {need_of(t)}"))
    if "C03" in props:
        for r in done:
            if not taxable(by_row[r]):
                out.append(("C03", f"row {r} is not taxable but has fractions"))
        seen = [desc_entry(g)[:2] for g in ents]
        if len(seen) != len(set(seen)):
            out.append(("C03", "a (taxable event, lot) pair is reported twice"))
    if "C04" in props:
        # sum of parts: an event's fractions add up to its taxable fiat value, a fully consumed lot's fractions to its full cost
        pe, pl = {}, {}
        for g in ents:
            pe[g.taxable_event.row] = pe.get(g.taxable_event.row, Fr(0)) + Fr(str(g.taxable_event_fiat_amount_with_fee_fraction))
            if g.acquired_lot:
                pl[g.acquired_lot.row] = pl.get(g.acquired_lot.row, Fr(0)) + Fr(str(g.fiat_cost_basis))
        for r, v in pe.items():
            if done.get(r) == need_of(by_row[r]) and abs(v - event_value(by_row[r])) > 10 * TOL15 * abs(event_value(by_row[r])):
                out.append(("C04", f"proceeds of the fractions of event row {r} add up to {float(v)!r}, not {float(event_value(by_row[r]))!r}"))
        for r, v in pl.items():
            if consumed[r] == Fr(by_row[r]["amount"]) and abs(v - lot_cost(by_row[r])) > 10 * TOL15 * abs(lot_cost(by_row[r])):
                out.append(("C04", f"cost bases of the fractions of lot row {r} add up to {float(v)!r}, not {float(lot_cost(by_row[r]))!r}"))
    return out


def coverable(sc):
    """C02: can every disposal be covered by lots acquired at or before it? (independent of which lots are picked)"""
    evs = sorted([t for t in sc["txs"] if taxable(t) and t["tab"] != "IN"], key=lambda t: (inst(t["ts"]), TAB_ORDER[t["tab"]]))
    used = Fr(0)
    for e in evs:
        avail = sum((Fr(l["amount"]) for l in sc["txs"] if l["tab"] == "IN" and inst(l["ts"]) <= inst(e["ts"])), Fr(0))
        if used + need_of(e) > avail:
            return False
        used += need_of(e)
    return True


def yearly_reference(sc, ents, to_date):
    ref = {}
    for g in ents:
        ev = g.taxable_event
        if ev.timestamp.date() > to_date:
            continue
        k = (ev.timestamp.year, ev.transaction_type.value, bool(g.is_long_term_capital_gains()))
        cur = ref.setdefault(k, [Fr(0)] * 4)
        for i, v in enumerate((g.crypto_amount, g.taxable_event_fiat_amount_with_fee_fraction, g.fiat_cost_basis, g.fiat_gain)):
            cur[i] += Fr(str(v))
    return ref


def check_yearly(sc, computed, unfiltered_entries, from_date, to_date):
    out = []
    ref = {k: v for k, v in yearly_reference(sc, unfiltered_entries, to_date).items() if k[0] >= from_date.year}
    got = {}
    for y in computed.yearly_gain_loss_list:
        k = (y.year, y.transaction_type.value, bool(y.is_long_term_capital_gains))
        if k in got:
            out.append(("C06", f"two summary lines for key {k}"))
        got[k] = [Fr(str(v)) for v in (y.crypto_amount, y.fiat_amount, y.fiat_cost_basis, y.fiat_gain_loss)]
    for k in sorted(set(ref) | set(got), key=str):
        if k not in got:
            out.append(("C06", f"no summary line for key {k} although fractions dated up to the to-date have it"))
        elif k not in ref:
            out.append(("C06", f"summary line for key {k} without any fraction"))
        elif any(abs(a - b) > 100 * TOL15 * max(abs(b), 1) for a, b in zip(got[k], ref[k])):
            out.append(("C06", f"summary line {k} is {[float(x) for x in got[k]]}, sums of its fractions are {[float(x) for x in ref[k]]}"))
    return out


def balances_reference(sc, to_date):
    acq, sent, recv = {}, {}, {}
    touched = []

    def add(d, k, v):
        d[k] = d.get(k, Fr(0)) + v
        if k not in touched:
            touched.append(k)
    for t in sc["txs"]:
        if local_date(t["ts"]) > to_date:
            continue
        if t["tab"] == "IN":
            add(acq, (t["ex"], t["ho"]), Fr(t["amount"]))
        elif t["tab"] == "OUT":
            add(sent, (t["ex"], t["ho"]), Fr(t["amount"]) + Fr(t.get("fee", "0")))
        else:
            add(sent, (t["ex"], t["ho"]), Fr(t["amount"]))
            add(recv, (t["to_ex"], t["to_ho"]), Fr(t["received"]))
    return {k: (acq.get(k, Fr(0)), sent.get(k, Fr(0)), recv.get(k, Fr(0))) for k in touched}


def check_balances(sc, computed, to_date):
    out = []
    ref = balances_reference(sc, to_date)
    got = {}
    for b in computed.balance_set:
        k = (b.exchange, b.holder)
        if k in got:
            out.append(("C07", f"account {k} listed twice"))
        got[k] = tuple(Fr(str(x)) for x in (b.acquired_balance, b.sent_balance, b.received_balance, b.final_balance))
    for k in sorted(set(ref) | set(got)):
        if k not in got:
            out.append(("C07", f"account {k} has transactions up to the to-date but no balance line"))
        elif k not in ref:
            out.append(("C07", f"balance line for untouched account {k}"))
        else:
            a, s, r = ref[k]
            if got[k] != (a, s, r, a + r - s):
                out.append(("C07", f"account {k}: acquired/sent/received/final = {[str(x) for x in got[k]]}, flows give {[str(x) for x in (a, s, r, a + r - s)]}"))
    return out


def overdraft_reference(sc, to_date):
    """C08: first account whose running balance drops below -1e-10 (resp. is >= 0 throughout) walking the flows chronologically:
    credits of an instant before its transfers, transfers before its disposals (DESIGN 5.2)."""
    flows = sorted(sc["txs"], key=lambda t: (inst(t["ts"]), FLOW_ORDER[t["tab"]]))
    bal = {}
    worst = Fr(0)
    for t in flows:
        if local_date(t["ts"]) > to_date:
            break
        if t["tab"] == "IN":
            bal[(t["ex"], t["ho"])] = bal.get((t["ex"], t["ho"]), Fr(0)) + Fr(t["amount"])
        elif t["tab"] == "OUT":
            k = (t["ex"], t["ho"])
            bal[k] = bal.get(k, Fr(0)) - Fr(t["amount"]) - Fr(t.get("fee", "0"))
            worst = min(worst, bal[k])
        else:
            k = (t["ex"], t["ho"])
            bal[k] = bal.get(k, Fr(0)) - Fr(t["amount"])
            worst = min(worst, bal[k])
            k2 = (t["to_ex"], t["to_ho"])
            bal[k2] = bal.get(k2, Fr(0)) + Fr(t["received"])
    return worst


def same_figures(a, b):
    return (desc_entry(a) == desc_entry(b) and a.fiat_cost_basis == b.fiat_cost_basis and a.fiat_gain == b.fiat_gain and
            a.taxable_event_fiat_amount_with_fee_fraction == b.taxable_event_fiat_amount_with_fee_fraction and
            a.is_long_term_capital_gains() == b.is_long_term_capital_gains())


def run_scenario(sc, props):
    """Returns [(property id, what failed)] for the properties in `props`."""
    from rp2.rp2_error import RP2ValueError
    from rp2.configuration import MIN_DATE, MAX_DATE
    props = set(props)
    out = []
    txs = sc["txs"]
    fd = dt.date.fromisoformat(sc["from"]) if sc.get("from") else MIN_DATE
    td = dt.date.fromisoformat(sc["to"]) if sc.get("to") else MAX_DATE
    monotone_dates = all(local_date(a["ts"]) <= local_date(b["ts"]) for a in txs for b in txs if inst(a["ts"]) < inst(b["ts"]))
    sc["_monotone_dates"] = monotone_dates
    # --- unfiltered, negative balances allowed: the matcher on its own
    try:
        base, _ = compute(sc, from_date=MIN_DATE, to_date=MAX_DATE, allow_negative=True)
        base_err = None
    except RP2ValueError as exc:
        base, base_err = None, str(exc)
    cov = coverable(sc)
    if "C02" in props:
        if base_err is not None and cov:
            out.append(("C02", f"valid history (every disposal coverable by earlier lots) rejected: {base_err[:200]}"))
        if base_err is None and not cov:
            out.append(("C02", "history whose lots cannot cover a disposal was accepted"))
    if base_err is not None and cov and "C02" not in props and props & {"C01", "C03", "C04", "C05"}:
        out.append((sorted(props & {"C01", "C03", "C04", "C05"})[0], f"valid history rejected: {base_err}"))
    if base is None and "C09" in props and cov:
        # the full history is rejected although every disposal is coverable: if a truncation computes, adding the later transactions
        # changed what was computed for the earlier events (from figures to an error)
        instants = sorted({inst(t["ts"]) for t in txs})
        for cut in reversed(instants[:-1]):
            sub = dict(sc)
            sub["txs"] = [t for t in txs if inst(t["ts"]) <= cut]
            if not any(t["tab"] == "IN" for t in sub["txs"]) or not any(taxable(t) for t in sub["txs"]):
                continue
            try:
                compute(sub, from_date=MIN_DATE, to_date=MAX_DATE, allow_negative=True)
            except RP2ValueError:
                continue
            out.append(("C09", f"the history truncated at {cut} computes, with the later transactions added the run is rejected: {base_err[:200]}"))
            break
    if base is None:
        return out
    ents = entries_of(base)
    out += check_matching(sc, base, props & {"C01", "C02", "C03", "C04", "C05"})
    if "C06" in props:
        out += check_yearly(sc, base, ents, MIN_DATE, MAX_DATE)
    if "C07" in props:
        out += check_balances(sc, base, MAX_DATE)
        final = sum((Fr(str(b.final_balance)) for b in base.balance_set), Fr(0))
        left = sum((Fr(t["amount"]) for t in txs if t["tab"] == "IN"), Fr(0)) - sum((Fr(str(g.crypto_amount)) for g in ents if g.acquired_lot), Fr(0))
        if final != left:
            out.append(("C07", f"sum of final balances {final} differs from the amount left unconsumed in lots {left}"))
    # --- the scenario's own window / -n setting
    if props & {"C06", "C07", "C08", "C10"} and (sc.get("from") or sc.get("to") or not sc.get("allow_negative", True)):
        worst = overdraft_reference(sc, td)
        try:
            win, _ = compute(sc)
            err = None
        except RP2ValueError as exc:
            win, err = None, str(exc)
        if "C08" in props:
            if err is not None and "went negative" in err and (worst >= 0 or sc.get("allow_negative", True)):
                out.append(("C08", f"history without overdraft (lowest running balance {worst}) rejected: {err[:160]}"))
            if err is None and not sc.get("allow_negative", True) and worst < -Fr(1, 10 ** 10):
                out.append(("C08", f"running balance drops to {float(worst)} but the history was accepted without -n"))
        if win is not None:
            if "C06" in props:
                out += check_yearly(sc, win, ents, fd, td)
            if "C07" in props:
                out += check_balances(sc, win, td)
            if "C10" in props and "C06" not in props and monotone_dates:
                out += [("C10", "yearly summary under the window: " + w) for _, w in check_yearly(sc, win, ents, fd, td)]
            if "C10" in props:
                shown = entries_of(win)
                want = [g for g in ents if fd <= g.taxable_event.timestamp.date() <= td]
                if len(shown) != len(want) or not all(same_figures(a, b) for a, b in zip(shown, want)):
                    out.append(("C10", f"window [{fd}, {td}] shows fractions {[desc_entry(g) for g in shown]}, the unfiltered run has "
                                       f"{[desc_entry(g) for g in want]} in that window"))
                for name in ("in_transaction_set", "out_transaction_set", "intra_transaction_set"):
                    rows = sorted(t.row for t in getattr(win, name))
                    tab = {"in_transaction_set": "IN", "out_transaction_set": "OUT", "intra_transaction_set": "INTRA"}[name]
                    wrows = sorted(t["row"] for t in txs if t["tab"] == tab and fd <= local_date(t["ts"]) <= td)
                    if rows != wrows:
                        out.append(("C10", f"window [{fd}, {td}] shows {tab} rows {rows}, rows dated in the window are {wrows}"))
    # --- C09: truncation at every cut point between distinct instants
    if "C09" in props:
        instants = sorted({inst(t["ts"]) for t in txs})
        for cut in instants[:-1]:
            sub = dict(sc)
            sub["txs"] = [t for t in txs if inst(t["ts"]) <= cut]
            if not any(t["tab"] == "IN" for t in sub["txs"]):
                continue
            try:
                tr, _ = compute(sub, from_date=MIN_DATE, to_date=MAX_DATE, allow_negative=True)
            except RP2ValueError:
                continue
            a = [g for g in ents if inst(g.taxable_event.timestamp.isoformat()) <= cut]
            b = entries_of(tr)
            if len(a) != len(b) or not all(same_figures(x, y) for x, y in zip(a, b)):
                out.append(("C09", f"adding transactions after {cut} changed earlier results: {[desc_entry(g) for g in a]} vs truncated run {[desc_entry(g) for g in b]}"))
                break
    if "C09" in props and monotone_dates and not region_non_monotone_local_dates(sc):
        # (inside that region the to-date cut itself is known finding 9.2, reported under C06/C07/C10: not repeated here)
        days = sorted({local_date(t["ts"]) for t in txs})
        for d in days[:-1]:
            sub = dict(sc)
            sub["txs"] = [t for t in txs if local_date(t["ts"]) <= d]
            if not any(t["tab"] == "IN" for t in sub["txs"]):
                continue
            try:
                lim, _ = compute(sc, from_date=MIN_DATE, to_date=d, allow_negative=True)
                tr, _ = compute(sub, from_date=MIN_DATE, to_date=MAX_DATE, allow_negative=True)
            except RP2ValueError:
                continue
            a, b = entries_of(lim), entries_of(tr)
            if len(a) != len(b) or not all(same_figures(x, y) for x, y in zip(a, b)):
                out.append(("C09", f"run limited by to-date {d} differs from the run on the history truncated at {d}: {[desc_entry(g) for g in a]} vs {[desc_entry(g) for g in b]}"))
                break

            def numbering(cd):
                gs = cd.gain_loss_set
                res = []
                for g in entries_of(cd):
                    res.append((gs.get_taxable_event_fraction(g), gs.get_taxable_event_number_of_fractions(g.taxable_event),
                                gs.get_acquired_lot_fraction(g) if g.acquired_lot else None, gs.get_acquired_lot_number_of_fractions(g.acquired_lot) if g.acquired_lot else None))
                return res
            na, nb = numbering(lim), numbering(tr)
            if na != nb:
                out.append(("C09", f"fraction numbering (k, n per event / per lot) of the run limited by to-date {d} is {na}, on the history truncated at {d} it is {nb}"))
                break
            ya = sorted((y.year, y.transaction_type.value, bool(y.is_long_term_capital_gains), str(y.crypto_amount), str(y.fiat_gain_loss)) for y in lim.yearly_gain_loss_list)
            yb = sorted((y.year, y.transaction_type.value, bool(y.is_long_term_capital_gains), str(y.crypto_amount), str(y.fiat_gain_loss)) for y in tr.yearly_gain_loss_list)
            if ya != yb:
                out.append(("C09", f"yearly totals of the run limited by to-date {d} are {ya}, on the truncated history {yb}"))
                break
    return out


# ------------------------------------------------------------------ generators
T0 = dt.datetime(2019, 12, 30, 12, 0, 0, tzinfo=dt.timezone.utc)
OFFSETS = [0, 0, 0, 9 * 3600, -5 * 3600, 14 * 3600, -10 * 3600]
AMOUNTS = ["0.1", "0.25", "0.5", "1", "1.5", "2", "0.33333333333", "3"]
PRICES = ["1", "10", "100", "1000", "10", "250.5", "0.00000123"]
ACCOUNTS = [("Coinbase", "Bob"), ("Kraken", "Bob"), ("BlockFi", "Alice"), ("Coinbase", "Alice")]


def iso_at(rnd, base, tz_mix):
    off = rnd.choice(OFFSETS) if tz_mix else 0
    return base.astimezone(dt.timezone(dt.timedelta(seconds=off))).isoformat()


def random_scenario(rnd, tz_mix=False, earn=True, schedule=False, windows=False, strict_balances=False, intra=True):
    n = rnd.randint(2, 7)
    times = []
    t = T0
    for _ in range(n):
        step = rnd.choice([0, 0, 1, 3600 * 5, 86400, 86400 * 40, 86400 * 200, 86400 * 370, 3600 * 13])
        t = t + dt.timedelta(seconds=step)
        times.append(t)
    txs = []
    held = {}
    row = 2
    total = Fr(0)
    for i, tm in enumerate(times):
        kind = "IN" if i == 0 else rnd.choice(["IN", "IN", "OUT", "OUT", "INTRA" if intra else "OUT"])
        acct = rnd.choice(ACCOUNTS if strict_balances or intra else ACCOUNTS[:1])
        ts = iso_at(rnd, tm, tz_mix)
        if kind == "IN":
            typ = rnd.choice(["buy", "buy", "buy", "interest", "airdrop", "gift", "staking", "wages"] if earn else ["buy", "gift", "donate"])
            amt = rnd.choice(AMOUNTS)
            tx = {"tab": "IN", "ts": ts, "ex": acct[0], "ho": acct[1], "type": typ, "spot": rnd.choice(PRICES), "amount": amt, "row": row}
            if rnd.random() < 0.2:
                tx["fiat_fee"] = rnd.choice(["0.5", "2", "0.01"])
            if rnd.random() < 0.15:
                tx["fiat_in_no_fee"] = str(Fr(amt) * Fr(tx["spot"]) + Fr(rnd.choice(["0.01", "-0.003", "1"])))[:18] if "/" not in str(Fr(amt) * Fr(tx["spot"])) else None
                if tx["fiat_in_no_fee"] and "/" in tx["fiat_in_no_fee"]:
                    tx["fiat_in_no_fee"] = None
            held[acct] = held.get(acct, Fr(0)) + Fr(amt)
            total += Fr(amt)
        elif kind == "OUT":
            src = [a for a, v in held.items() if v > 0]
            if not src:
                continue
            acct = rnd.choice(src)
            avail = held[acct]
            frac = rnd.choice([Fr(1), Fr(1, 2), Fr(1, 4), Fr(3, 4), Fr(1, 3)])
            q = (avail * frac).limit_denominator(10 ** 11)
            q = Fr(int(q * 10 ** 11), 10 ** 11)
            if q <= 0:
                continue
            if strict_balances and rnd.random() < 0.3:
                # overdraw the account by a little or a lot (C08: dust must be tolerated, anything beyond 1e-10 rejected)
                q = avail + Fr(rnd.choice(["0.00000000001", "0.00000000004", "0.000000001", "0.00001", "0.003", "1"]))
            typ = rnd.choice(["sell", "sell", "gift", "donate", "fee", "lost", "staking"])
            fee = Fr(0)
            if typ == "fee":
                amount, fee = Fr(0), q
            else:
                amount = q
                if rnd.random() < 0.3:
                    fee = min(q / 10, Fr(1, 100))
                    fee = Fr(int(fee * 10 ** 11), 10 ** 11)
                    amount = q - fee
            tx = {"tab": "OUT", "ts": ts, "ex": acct[0], "ho": acct[1], "type": typ, "spot": rnd.choice(PRICES[:6]), "amount": dec(amount), "fee": dec(fee), "row": row}
            held[acct] -= q
            total -= q
        else:
            src = [a for a, v in held.items() if v > 0]
            if not src:
                continue
            acct = rnd.choice(src)
            dst = rnd.choice([a for a in ACCOUNTS if a != acct])
            q = held[acct] * rnd.choice([Fr(1), Fr(1, 2)])
            q = Fr(int(q * 10 ** 11), 10 ** 11)
            if q <= 0:
                continue
            if strict_balances and rnd.random() < 0.3:
                q = held[acct] + Fr(rnd.choice(["0.00000000001", "0.00000000004", "0.000000001", "0.00001", "0.003", "1"]))
            fee = rnd.choice([Fr(0), Fr(0), min(q / 20, Fr(1, 1000)), Fr(1, 10 ** 8)])
            fee = min(Fr(int(fee * 10 ** 11), 10 ** 11), q)
            tx = {"tab": "INTRA", "ts": ts, "ex": acct[0], "ho": acct[1], "to_ex": dst[0], "to_ho": dst[1], "spot": rnd.choice(PRICES[:6]), "amount": dec(q),
                  "received": dec(q - fee), "row": row}
            held[acct] -= q
            held[dst] = held.get(dst, Fr(0)) + q - fee
            total -= fee
        txs.append(tx)
        row += 1
    sc = {"asset": "B1", "txs": txs, "allow_negative": not strict_balances}
    m = rnd.choice(["fifo", "lifo", "hifo", "lofo"])
    sc["schedule"] = {"1970": m}
    if schedule and rnd.random() < 0.6:
        sc["schedule"] = {"1970": m, "2020": rnd.choice(["fifo", "lifo", "hifo", "lofo"])}
        if rnd.random() < 0.4:
            sc["schedule"]["2021"] = rnd.choice(["fifo", "lifo", "hifo", "lofo"])
    if windows:
        days = sorted({local_date(t["ts"]) for t in txs})
        pool = days + [days[0] - dt.timedelta(days=1), days[-1] + dt.timedelta(days=1), dt.date(2020, 6, 30), dt.date(2020, 12, 31), dt.date(2021, 1, 1)]
        a, b = sorted([rnd.choice(pool), rnd.choice(pool)])
        if rnd.random() < 0.7:
            sc["to"] = b.isoformat()
        if rnd.random() < 0.5:
            sc["from"] = a.isoformat()
    sc["country"] = rnd.choice(["us", "us", "es", "jp", "ie"])
    return sc


def dec(f):
    """exact decimal string of a fraction on the 1e-11 grid"""
    n = int(f * 10 ** 11)
    s = f"{n // 10 ** 11}.{n % 10 ** 11:011d}".rstrip("0").rstrip(".")
    return s or "0"


def curated():
    """Specific situations that ordinary examples miss (each a plain scenario)."""
    out = []
    B, K = ("Coinbase", "Bob"), ("Kraken", "Bob")

    def IN(ts, amt, spot, row, typ="buy", acct=B, **kw):
        return dict({"tab": "IN", "ts": ts, "ex": acct[0], "ho": acct[1], "type": typ, "spot": spot, "amount": amt, "row": row}, **kw)

    def OUT(ts, amt, spot, row, typ="sell", fee="0", acct=B, **kw):
        return dict({"tab": "OUT", "ts": ts, "ex": acct[0], "ho": acct[1], "type": typ, "spot": spot, "amount": amt, "fee": fee, "row": row}, **kw)

    def MOVE(ts, sent, recv, spot, row, src=B, dst=K):
        return {"tab": "INTRA", "ts": ts, "ex": src[0], "ho": src[1], "to_ex": dst[0], "to_ho": dst[1], "spot": spot, "amount": sent, "received": recv, "row": row}
    for m in ("fifo", "lifo", "hifo", "lofo"):
        # one disposal spanning lots on both sides of the one-year threshold, several types, two years
        out.append({"txs": [IN("2019-01-10T10:00:00+00:00", "1", "100", 2), IN("2020-03-01T10:00:00+00:00", "1", "300", 3),
                            IN("2020-05-01T10:00:00+00:00", "0.5", "200", 4, typ="interest"),
                            OUT("2020-09-01T10:00:00+00:00", "1.5", "500", 5), OUT("2020-09-02T10:00:00+00:00", "0.2", "500", 6, typ="gift"),
                            OUT("2021-02-01T10:00:00+00:00", "0.3", "700", 7, fee="0.01"), MOVE("2021-03-01T10:00:00+00:00", "0.4", "0.39", "800", 8)],
                    "schedule": {"1970": m}, "to": "2020-12-31", "from": "2020-01-01"})
        # equal timestamps: two disposals at the same instant, the first leaves part of a lot
        out.append({"txs": [IN("2020-01-01T00:00:00+00:00", "1", "10", 2), IN("2020-01-02T00:00:00+00:00", "1", "20", 3), IN("2020-01-03T00:00:00+00:00", "1", "5", 4),
                            OUT("2020-02-01T00:00:00+00:00", "0.6", "50", 5), OUT("2020-02-01T00:00:00+00:00", "0.9", "50", 6),
                            OUT("2020-03-01T00:00:00+00:00", "1.5", "60", 7)], "schedule": {"1970": m}})
        # three-entry schedule, disposals spanning several lots, a lot bought at the instant of a sale
        out.append({"txs": [IN("2019-06-01T00:00:00+00:00", "1", "100", 2), IN("2019-07-01T00:00:00+00:00", "1", "300", 3), IN("2019-08-01T00:00:00+00:00", "1", "200", 4),
                            OUT("2020-06-01T00:00:00+00:00", "0.5", "400", 5), OUT("2021-06-01T00:00:00+00:00", "1.2", "400", 6),
                            IN("2022-06-01T00:00:00+00:00", "1", "50", 7), OUT("2022-06-01T00:00:00+00:00", "1.8", "400", 8)],
                    "schedule": {"1970": m, "2021": "hifo", "2022": "lofo", "2020": "lifo"}})
        # mixed time zones around a disposal: a lot acquired two hours before the sale but with a later wall-clock reading
        out.append({"txs": [IN("2020-06-01T00:00:00+00:00", "1", "100", 2), IN("2020-06-02T08:00:00+09:00", "1", "300", 3),
                            OUT("2020-06-02T01:00:00+00:00", "0.5", "400", 4), IN("2020-06-02T03:00:00+00:00", "1", "900", 5),
                            OUT("2020-06-03T01:00:00+00:00", "0.7", "400", 6)], "schedule": {"1970": m}})
        # partial lots carried across a disposal that spans lots, then everything sold
        out.append({"txs": [IN("2020-01-01T00:00:00+00:00", "1", "10", 2), IN("2020-01-02T00:00:00+00:00", "0.4", "30", 3), IN("2020-01-03T00:00:00+00:00", "2", "20", 4),
                            OUT("2020-02-01T00:00:00+00:00", "1.2", "50", 5), OUT("2020-02-02T00:00:00+00:00", "0.3", "50", 6),
                            OUT("2020-02-03T00:00:00+00:00", "1.9", "50", 7)], "schedule": {"1970": m}})
    # exchange-supplied fiat values, fees of every kind
    out.append({"txs": [IN("2020-01-01T00:00:00+00:00", "2", "100", 2, fiat_in_no_fee="205", fiat_fee="3"), IN("2020-01-05T00:00:00+00:00", "1", "110", 3, fiat_in_no_fee="111"),
                        IN("2020-02-01T00:00:00+00:00", "0.5", "120", 4, typ="interest"),
                        OUT("2020-03-01T00:00:00+00:00", "1.5", "150", 5, fee="0.01", fiat_out_no_fee="226"), OUT("2020-03-02T00:00:00+00:00", "0", "150", 6, typ="fee", fee="0.02"),
                        OUT("2020-03-03T00:00:00+00:00", "1.9", "150", 7)], "schedule": {"1970": "fifo"}})
    # huge / tiny magnitudes
    out.append({"txs": [IN("2020-01-01T00:00:00+00:00", "123456789.12345678901", "0.00000123", 2), IN("2020-01-02T00:00:00+00:00", "0.00000000001", "9999999.99", 3),
                        OUT("2020-02-01T00:00:00+00:00", "123456789.12345678", "0.00000456", 4, fee="0.00000000901"),
                        MOVE("2020-02-02T00:00:00+00:00", "0.00000000001", "0", "1234567.89", 5)], "schedule": {"1970": "fifo"}})
    # staking loss, lost, donate; self transfer with fee
    out.append({"txs": [IN("2020-01-01T00:00:00+00:00", "5", "10", 2), OUT("2020-02-01T00:00:00+00:00", "1", "20", 3, typ="staking"), OUT("2020-02-02T00:00:00+00:00", "1", "20", 4, typ="lost"),
                        OUT("2020-02-03T00:00:00+00:00", "1", "20", 5, typ="donate"), MOVE("2020-02-04T00:00:00+00:00", "1", "0.9", "20", 6, src=B, dst=B),
                        IN("2020-02-05T00:00:00+00:00", "1", "20", 7, typ="gift"), IN("2020-02-06T00:00:00+00:00", "1", "20", 8, typ="hardfork"),
                        IN("2020-02-07T00:00:00+00:00", "1", "20", 9, typ="mining"), IN("2020-02-08T00:00:00+00:00", "1", "20", 10, typ="income")],
                "schedule": {"1970": "fifo"}})
    # balances: several accounts, to-date in the middle, transient overdraft later refilled, dust
    out.append({"txs": [IN("2020-01-01T00:00:00+00:00", "1", "10", 2, acct=B), IN("2020-01-01T00:00:00+00:00", "3", "10", 3, acct=("BlockFi", "Alice")),
                        MOVE("2020-01-05T00:00:00+00:00", "1", "0.99", "10", 4, src=("BlockFi", "Alice"), dst=K), OUT("2020-01-06T00:00:00+00:00", "0.5", "10", 5, acct=K),
                        OUT("2020-07-01T00:00:00+00:00", "1", "10", 6, acct=B), IN("2020-07-02T00:00:00+00:00", "1", "10", 7, acct=K)],
                "schedule": {"1970": "fifo"}, "to": "2020-03-01", "allow_negative": False})
    out.append({"txs": [IN("2020-01-01T00:00:00+00:00", "1", "10", 2, acct=B), IN("2020-01-01T00:00:00+00:00", "5", "10", 3, acct=K),
                        OUT("2020-01-05T00:00:00+00:00", "1.5", "10", 4, acct=B), IN("2020-01-06T00:00:00+00:00", "1", "10", 5, acct=B)],
                "schedule": {"1970": "fifo"}, "allow_negative": False})
    out.append({"txs": [IN("2020-01-01T00:00:00+00:00", "0.33333333333", "10", 2), IN("2020-01-02T00:00:00+00:00", "0.33333333333", "10", 3),
                        IN("2020-01-03T00:00:00+00:00", "0.33333333334", "10", 4), OUT("2020-01-05T00:00:00+00:00", "1", "10", 5),
                        IN("2020-01-05T00:00:00+00:00", "1", "10", 6), OUT("2020-01-05T00:00:00+00:00", "1", "10", 7)],
                "schedule": {"1970": "fifo"}, "allow_negative": False})
    # overdrafts: through a transfer only; by 0.004 (must be rejected); by 4e-11 (dust: the statement leaves it open, 0 is never rejected)
    out.append({"txs": [IN("2020-01-01T00:00:00+00:00", "1", "10", 2, acct=B), IN("2020-01-01T00:00:00+00:00", "5", "10", 3, acct=K),
                        MOVE("2020-01-05T00:00:00+00:00", "1.5", "1.5", "10", 4, src=B, dst=K)], "schedule": {"1970": "fifo"}, "allow_negative": False})
    out.append({"txs": [IN("2020-01-01T00:00:00+00:00", "1", "10", 2, acct=B), IN("2020-01-01T00:00:00+00:00", "5", "10", 3, acct=K),
                        OUT("2020-01-05T00:00:00+00:00", "1.004", "10", 4, acct=B)], "schedule": {"1970": "fifo"}, "allow_negative": False})
    out.append({"txs": [IN("2020-01-01T00:00:00+00:00", "1", "10", 2, acct=B), IN("2020-01-01T00:00:00+00:00", "5", "10", 3, acct=K),
                        MOVE("2020-01-05T00:00:00+00:00", "1.0000003", "1", "10", 4, src=B, dst=K), IN("2020-01-06T00:00:00+00:00", "1", "10", 5, acct=B)],
                "schedule": {"1970": "fifo"}, "allow_negative": False})
    out.append({"txs": [IN("2020-01-01T00:00:00+00:00", "1", "10", 2, acct=B), OUT("2020-01-05T00:00:00+00:00", "1", "10", 3, acct=B),
                        IN("2020-01-06T00:00:00+00:00", "1", "10", 4, acct=B), OUT("2020-01-07T00:00:00+00:00", "1", "10", 5, acct=B)],
                "schedule": {"1970": "fifo"}, "allow_negative": False})
    # same-instant buy + sell on one account; mixed offsets near the window bounds
    out.append({"txs": [IN("2020-12-31T21:30:00-05:00", "1", "10", 2), OUT("2021-01-01T03:00:00+00:00", "0.4", "20", 3), IN("2021-01-01T12:00:00+09:00", "1", "30", 4),
                        OUT("2021-12-31T22:00:00-05:00", "0.5", "40", 5)], "schedule": {"1970": "fifo"}, "from": "2021-01-01", "to": "2021-12-31"})
    for m in ("fifo", "lifo", "hifo", "lofo"):
        # sub-second timestamps: a lot bought half a second AFTER a sale must not be offered to it
        out.append({"txs": [IN("2020-05-01T10:00:00+00:00", "10", "100", 2), OUT("2020-05-01T12:00:00.250000+00:00", "4", "300", 3),
                            IN("2020-05-01T12:00:00.750000+00:00", "5", "500", 4), OUT("2020-05-02T12:00:00+00:00", "11", "400", 5)], "schedule": {"1970": m}})
        # one lot sold in three pieces across two years, to-date between them, mid-year from-date
        out.append({"txs": [IN("2020-01-10T10:00:00+00:00", "10", "100", 2), OUT("2020-06-01T10:00:00+00:00", "4", "300", 3),
                            OUT("2021-02-01T10:00:00+00:00", "3", "400", 4), OUT("2021-08-01T10:00:00+00:00", "2", "500", 5), OUT("2022-03-01T10:00:00+00:00", "1", "600", 6)],
                    "schedule": {"1970": m}, "from": "2021-06-01", "to": "2022-06-30"})
    for m in ("lifo", "hifo", "lofo", "fifo"):
        # method change at New Year in a zone east of UTC: the first disposal of the new (local) year is still in the old year in UTC; a lot
        # bought three hours after it - before UTC midnight - must not be offered to it, whatever the new method prefers (seed C09-5)
        out.append({"txs": [IN("2020-06-01T10:00:00+09:00", "10", "200", 2), OUT("2021-01-01T02:00:00+09:00", "3", "250", 3),
                            IN("2021-01-01T05:00:00+09:00", "5", "300" if m != "lofo" else "100", 4), OUT("2021-02-01T10:00:00+09:00", "4", "260", 5)],
                    "schedule": {"1970": "fifo", "2021": m}})
    for sc in out:
        sc.setdefault("asset", "B1")
        sc.setdefault("allow_negative", True)
        sc.setdefault("country", "us")
    return out


# ------------------------------------------------------------------ regions of known findings (characterising predicates on a scenario)
def region_non_monotone_local_dates(sc):
    """DESIGN 9.2: some transaction is not earlier in time than another but carries an earlier local calendar date (mixed UTC offsets)."""
    txs = sc["txs"]
    return any(a is not b and inst(a["ts"]) <= inst(b["ts"]) and local_date(a["ts"]) > local_date(b["ts"]) for a in txs for b in txs)


def region_same_instant_different_local_year(sc):
    """DESIGN 9.3: two taxable events at the same instant fall in different local years that a schedule assigns different methods."""
    ev = [t for t in sc["txs"] if taxable(t)]
    return any(inst(a["ts"]) == inst(b["ts"]) and local_year(a["ts"]) != local_year(b["ts"]) and method_for(sc, a) != method_for(sc, b) for a in ev for b in ev)


REGIONS = {"non_monotone_local_dates": region_non_monotone_local_dates, "same_instant_different_local_year": region_same_instant_different_local_year}


GEN_FLAGS = {
    "C01": dict(earn=True, schedule=True, tz_mix=True, intra=True), "C02": dict(earn=True, schedule=True, intra=True), "C03": dict(earn=True, intra=True),
    "C04": dict(earn=True, intra=True), "C05": dict(earn=True, tz_mix=True), "C06": dict(earn=True, windows=True, tz_mix=True),
    "C07": dict(earn=True, windows=True, strict_balances=False, intra=True, tz_mix=True), "C08": dict(earn=False, strict_balances=True, windows=True, intra=True, tz_mix=True),
    "C09": dict(earn=True, schedule=True, tz_mix=True), "C10": dict(earn=True, windows=True, tz_mix=True),
}


def search(pid, n_random, seed, known=None, stop_at=6):
    """Runs the curated scenarios and `n_random` seeded random ones for one property; returns (evaluations, failures)."""
    rnd = random.Random(seed * 7919 + int(pid[1:]))
    fails, evals = [], 0
    scs = list(curated())
    for _ in range(n_random):
        scs.append(random_scenario(rnd, **GEN_FLAGS.get(pid, {})))
    for sc in scs:
        evals += 1
        try:
            res = [r for r in run_scenario(sc, [pid]) if r[0] == pid]
        except Exception as exc:      # a crash of rp2 on a valid history is reported for the property being checked
            import traceback
            res = [(pid, f"run crashed: {type(exc).__name__}: {exc} :: {traceback.format_exc()[-400:]}")]
        if res:
            clean = {k: v for k, v in sc.items() if not k.startswith("_")}
            regs = [n for n, f in REGIONS.items() if f(clean)]
            if regs and sum(1 for f in fails if f["regions"] == regs) >= 2:
                continue            # enough examples inside this region (a known-finding candidate); keep searching outside it
            fails.append({"scenario": clean, "what": [w for _, w in res][:4], "regions": regs})
            if sum(1 for f in fails if not f["regions"]) >= stop_at:
                break
    return evals, fails
