"""Process-level bounded stand-in (BOUNDED, never counted as proved): generated .ini/.ods pairs through the real country entry points of the tree
under test (one fresh process per run), reports re-opened with ezodf and compared with what the statement of each property requires.
Covers C11-C20.  Runs inside a fresh interpreter with <repo>/src first on sys.path (see pyvc.replay.run_cli_e2e).
"""
import datetime as dt
import hashlib
import json
import os
import random
import re
import shutil
import tempfile
from concurrent.futures import ThreadPoolExecutor
from fractions import Fraction as Fr

from harness import e2e, odsgen, clirun
import threading

EZODF_LOCK = clirun._LOCK        # ezodf/lxml (and the in-process rp2 calls) are not safe across threads: serialised; only the CLI subprocesses run in parallel

REPO = os.environ.get("RP2_VERIF_REPO", "/repo")
METHODS = ["fifo", "lifo", "hifo", "lofo"]
COUNTRIES = {"us": ["open_positions", "rp2_full_report", "tax_report_us"], "es": ["open_positions", "rp2_full_report"], "ie": ["open_positions", "rp2_full_report", "tax_report_ie"],
             "jp": ["open_positions", "rp2_full_report", "tax_report_jp"], "generic": ["open_positions", "rp2_full_report"]}
ROUTE = {"sell": "Capital Gains", "gift": "Gifts", "donate": "Donations", "fee": "Investment Expenses", "lost": "Investment Expenses", "move": "Investment Expenses",
         "airdrop": "Airdrops", "hardfork": "Hard Forks", "income": "Income", "interest": "Interest", "mining": "Mining", "staking": "Staking", "wages": "Wages"}


# ------------------------------------------------------------------ scenarios
def multi_scenarios(rnd, n, **flags):
    """Multi-asset scenarios: curated pairs plus random ones (each asset an independent small history; rows are assigned by the sheet writer)."""
    cur = e2e.curated()
    pairs = [(0, 8), (1, 2), (4, 20), (3, 21), (5, 9), (23, 0), (12, 16)]
    out = []
    for a, b in pairs:
        if a < len(cur) and b < len(cur):
            out.append({"assets": {"B1": json.loads(json.dumps(cur[a]["txs"])), "B2": json.loads(json.dumps(cur[b]["txs"]))}})
    # all 13 taxable types in one run, three assets, two holders
    ts = lambda d: f"2020-{d // 28 + 1:02d}-{d % 28 + 1:02d}T10:00:00+00:00"
    all_types = [{"tab": "IN", "ts": ts(0), "ex": "Coinbase", "ho": "Bob", "type": "buy", "spot": "100", "amount": "10"},
                 {"tab": "IN", "ts": ts(1), "ex": "Kraken", "ho": "Alice", "type": "buy", "spot": "110", "amount": "5"}]
    for i, t in enumerate(["airdrop", "hardfork", "income", "interest", "mining", "staking", "wages", "gift", "donate"]):
        all_types.append({"tab": "IN", "ts": ts(3 + i), "ex": "Coinbase", "ho": "Bob", "type": t, "spot": str(100 + i), "amount": "0.5"})
    for i, t in enumerate(["sell", "gift", "donate", "lost", "staking"]):
        all_types.append({"tab": "OUT", "ts": ts(40 + i), "ex": "Coinbase", "ho": "Bob", "type": t, "spot": str(200 + i), "amount": "1", "fee": "0.01" if i % 2 else "0"})
    all_types.append({"tab": "OUT", "ts": ts(50), "ex": "Coinbase", "ho": "Bob", "type": "fee", "spot": "210", "amount": "0", "fee": "0.02"})
    all_types.append({"tab": "INTRA", "ts": ts(60), "ex": "Coinbase", "ho": "Bob", "to_ex": "Kraken", "to_ho": "Alice", "spot": "220", "amount": "2", "received": "1.99"})
    all_types.append({"tab": "INTRA", "ts": ts(61), "ex": "Kraken", "ho": "Alice", "to_ex": "BlockFi", "to_ho": "Alice", "spot": "220", "amount": "1", "received": "1"})
    out.append({"assets": {"B1": json.loads(json.dumps(all_types)), "B2": json.loads(json.dumps(cur[0]["txs"])), "B3": json.loads(json.dumps(all_types[:2] + all_types[11:13]))}})
    # sparse, unordered years; a disposal-only year; income-only asset; fully sold asset
    y = lambda yr, m=6, d=1: f"{yr}-{m:02d}-{d:02d}T12:00:00+00:00"
    out.append({"assets": {"B1": [{"tab": "IN", "ts": y(2021), "ex": "Coinbase", "ho": "Bob", "type": "buy", "spot": "300", "amount": "1"},
                                  {"tab": "IN", "ts": y(2018), "ex": "Coinbase", "ho": "Bob", "type": "buy", "spot": "100", "amount": "2"},
                                  {"tab": "OUT", "ts": y(2020), "ex": "Coinbase", "ho": "Bob", "type": "sell", "spot": "200", "amount": "0.5", "fee": "0"},
                                  {"tab": "OUT", "ts": y(2023), "ex": "Coinbase", "ho": "Bob", "type": "sell", "spot": "400", "amount": "1.5", "fee": "0.1"}],
                           "B2": [{"tab": "IN", "ts": y(2019), "ex": "Kraken", "ho": "Alice", "type": "interest", "spot": "10", "amount": "1"},
                                  {"tab": "IN", "ts": y(2022), "ex": "Kraken", "ho": "Alice", "type": "staking", "spot": "12", "amount": "1"}],
                           "B3": [{"tab": "IN", "ts": y(2019, 1), "ex": "BlockFi", "ho": "Bob", "type": "buy", "spot": "5", "amount": "4"},
                                  {"tab": "OUT", "ts": y(2019, 9), "ex": "BlockFi", "ho": "Bob", "type": "sell", "spot": "8", "amount": "4", "fee": "0"}]}})
    # 23 distinct holders (one Total line each in the balances table of the Tax sheet)
    many = [{"tab": "IN", "ts": f"2020-01-{i + 1:02d}T10:00:00+00:00", "ex": "Coinbase", "ho": f"H{i:02d}", "type": "buy", "spot": "100", "amount": "1"} for i in range(23)]
    many.append({"tab": "OUT", "ts": "2020-03-01T10:00:00+00:00", "ex": "Coinbase", "ho": "H00", "type": "sell", "spot": "200", "amount": "0.5", "fee": "0"})
    out.append({"assets": {"B1": many}, "holders": [f"H{i:02d}" for i in range(23)]})
    # many lots consumed by one disposal: many fractions per taxable event
    lots = [{"tab": "IN", "ts": f"2020-01-{i + 1:02d}T10:00:00+00:00", "ex": "Coinbase", "ho": "Bob", "type": "buy", "spot": str(100 + i), "amount": "0.1"} for i in range(28)]
    lots.append({"tab": "OUT", "ts": "2020-03-01T10:00:00+00:00", "ex": "Coinbase", "ho": "Bob", "type": "sell", "spot": "200", "amount": "2.75", "fee": "0"})
    out.append({"assets": {"B1": lots}})
    # acquisitions paid with a crypto fee (each is split into the acquisition and an artificial fee-only disposal)
    cf = lambda p: [{"tab": "IN", "ts": y(2020, 1), "ex": "Coinbase", "ho": "Bob", "type": "buy", "spot": str(100 * p), "amount": "2", "crypto_fee": "0.01"},
                    {"tab": "IN", "ts": y(2020, 2), "ex": "Coinbase", "ho": "Bob", "type": "buy", "spot": str(120 * p), "amount": "1", "crypto_fee": "0.02"},
                    {"tab": "IN", "ts": y(2020, 3), "ex": "Coinbase", "ho": "Bob", "type": "interest", "spot": str(130 * p), "amount": "0.5"},
                    {"tab": "OUT", "ts": y(2020, 6), "ex": "Coinbase", "ho": "Bob", "type": "sell", "spot": str(200 * p), "amount": "1.5", "fee": "0.01"},
                    {"tab": "OUT", "ts": y(2021, 6), "ex": "Coinbase", "ho": "Bob", "type": "sell", "spot": str(300 * p), "amount": "0.5", "fee": "0"}]
    out.append({"assets": {"B1": cf(1), "B2": cf(3)}})
    # fees given in fiat only (acquisition and disposal), a donation and a gift
    out.append({"assets": {"B1": [{"tab": "IN", "ts": y(2020, 1), "ex": "Kraken", "ho": "Alice", "type": "buy", "spot": "100", "amount": "3", "fiat_fee": "4"},
                                  {"tab": "IN", "ts": y(2020, 2), "ex": "Kraken", "ho": "Alice", "type": "gift", "spot": "110", "amount": "1"},
                                  {"tab": "OUT", "ts": y(2020, 5), "ex": "Kraken", "ho": "Alice", "type": "sell", "spot": "200", "amount": "1", "fee": "0", "fiat_fee": "3"},
                                  {"tab": "OUT", "ts": y(2020, 7), "ex": "Kraken", "ho": "Alice", "type": "donate", "spot": "220", "amount": "0.5", "fee": "0"},
                                  {"tab": "OUT", "ts": y(2021, 7), "ex": "Kraken", "ho": "Alice", "type": "gift", "spot": "300", "amount": "0.5", "fee": "0.01"}]}})
    for _ in range(n):
        k = rnd.choice([1, 2, 2, 3])
        sc = {"assets": {}}
        for i in range(k):
            sub = e2e.random_scenario(rnd, **flags)
            sc["assets"][f"B{i + 1}"] = sub["txs"]
        out.append(sc)
    return out


def windows_for(sc, rnd):
    days = sorted({e2e.local_date(t["ts"]) for txs in sc["assets"].values() for t in txs})
    pool = days + [days[0] - dt.timedelta(days=1), days[-1] + dt.timedelta(days=1), dt.date(days[0].year, 6, 30), dt.date(days[-1].year, 1, 1)]
    a, b = sorted([rnd.choice(pool), rnd.choice(pool)])
    d = rnd.choice(days)
    return [(None, None), (a, None), (None, b), (a, b), (d, d)]          # the last one is a one-day window (from-date == to-date)


# ------------------------------------------------------------------ expectations computed in this process from the same files
def country_obj(name):
    from harness import rp2h
    return rp2h.country(name, 365)


def expected(ini, ods, country, schedule, fd, td, allow_negative=True, assets=None):
    """ComputedData per asset through the public API on the very files the CLI reads (fresh engine per call)."""
    import importlib
    from prezzemolo.avl_tree import AVLTree
    from rp2.accounting_engine import AccountingEngine
    from rp2.configuration import Configuration, MIN_DATE, MAX_DATE
    from rp2.ods_parser import open_ods, parse_ods
    from rp2.tax_engine import compute_tax
    cfg = Configuration(ini, country_obj(country), fd or MIN_DATE, td or MAX_DATE, allow_negative)
    y2m = AVLTree()
    for year, m in sorted((int(y), m) for y, m in schedule.items()):
        y2m.insert_node(year, importlib.import_module(f"rp2.plugin.accounting_method.{m}").AccountingMethod())
    eng = AccountingEngine(y2m)
    handle = open_ods(cfg, ods)
    out = {}
    for a in sorted(assets or cfg.assets):
        idata = parse_ods(cfg, a, handle)
        out[a] = (idata, compute_tax(cfg, eng, idata))
    return cfg, out


def cli_args(run, outdir, ini, ods):
    a = ["-o", outdir]
    if run.get("allow_negative", True):
        a.append("-n")
    if run.get("method"):
        a += ["-m", run["method"]]
    if run.get("from"):
        a += ["-f", run["from"].isoformat()]
    if run.get("to"):
        a += ["-t", run["to"].isoformat()]
    if run.get("lang"):
        a += ["-g", run["lang"]]
    return a + [ini, ods]


def do_run(sc, run, workdir, layout=None, structure=None, audit=False, env_extra=None, keep_out=False):
    """Materialises the scenario, runs the CLI once; returns dict(rc, out, files, ini, ods, outdir, events)."""
    os.makedirs(workdir, exist_ok=True)
    with EZODF_LOCK:
        ini, ods = odsgen.materialize(sc, workdir, layout, structure, run.get("config_methods"))
    outdir = os.path.join(workdir, "out")
    if not keep_out:
        shutil.rmtree(outdir, ignore_errors=True)
    os.makedirs(outdir, exist_ok=True)
    r = clirun.run_cli(run.get("country", "us"), cli_args(run, outdir, ini, ods), REPO, workdir, audit=audit, env_extra=env_extra)
    r.update({"ini": ini, "ods": ods, "outdir": outdir, "files": sorted(os.listdir(outdir))})
    return r


def fnum(x):
    return float(x) if x is not None and x != "" else None


def close(a, b, rel=1e-9):
    if a is None or b is None:
        return a is None and (b is None or b == 0) or (b is None and a == 0)
    try:
        a, b = float(a), float(b)
    except (TypeError, ValueError):
        return False        # a text where a number belongs is a mismatch, not a harness error
    return abs(a - b) <= rel * max(abs(a), abs(b), 1e-12) or abs(a - b) < 1e-13


HL = re.compile(r'^(?:of:)?=HYPERLINK\("#(?P<sheet>[^"]*?)\.a(?P<row>\d+):z(?P=row)"; ?(?P<val>.*)\)$', re.S)


def cell_val(cell):
    """(value, link) of a report cell: link = (sheet, row) if the cell is a HYPERLINK formula."""
    v, f = cell
    if f:
        m = HL.match(f)
        if m:
            raw = m.group("val")
            if raw.startswith('"') and raw.endswith('"'):
                val = raw[1:-1]
            else:
                try:
                    val = float(raw)
                except ValueError:
                    val = raw
            return val, (m.group("sheet"), int(m.group("row")))
    return v, None


def find_row(rows, text, col=0, start=0):
    for i in range(start, len(rows)):
        v = rows[i][col][0] if col < len(rows[i]) else None
        if isinstance(v, str) and v.startswith(text):
            return i
    return None


def data_rows(rows, title, key_col):
    """Rows of a report table: from 3 below the title row while the key column is non-empty."""
    t = find_row(rows, title)
    if t is None:
        return None, []
    out = []
    i = t + 3
    while i < len(rows) and key_col < len(rows[i]) and rows[i][key_col][0] not in (None, "") or (i < len(rows) and rows[i][key_col][1]):
        out.append((i, rows[i]))
        i += 1
    return t, out


def ts_str(t):
    return str(t)[:19]


# ------------------------------------------------------------------ C13 / C19: the full report
def check_full_report(sheets, exp, run, schedule, props):
    out = []
    fd, td = run.get("from"), run.get("to")
    link_rows = {}
    for asset, (idata, cd, *_rest) in exp.items():
        io = sheets.get(f"{asset} In-Out")
        tax = sheets.get(f"{asset} Tax")
        if io is None or tax is None:
            out.append(("C13", f"sheets of asset {asset} missing"))
            continue
        # ---- In-Out sheet: three tables, rows = the filtered sets in order
        specs = [("In-Flow Detail", cd.in_transaction_set, idata.unfiltered_in_transaction_set, "IN"), ("Out-Flow Detail", cd.out_transaction_set, idata.unfiltered_out_transaction_set, "OUT"),
                 ("Intra-Flow Detail", cd.intra_transaction_set, idata.unfiltered_intra_transaction_set, "INTRA")]
        for title, fset, uset, tab in specs:
            _, rows = data_rows(io, title, 1)
            want = list(fset)
            if len(rows) != len(want):
                out.append(("C13", f"{asset} {title}: {len(rows)} rows shown, {len(want)} transactions in the window"))
                continue
            run_sum, run_fee = {}, {}
            s1 = s2 = Fr(0)
            for t in uset:
                if tab == "IN":
                    s1 += Fr(str(t.crypto_in)); s2 += Fr(str(t.crypto_fee))
                elif tab == "OUT":
                    s1 += Fr(str(t.crypto_out_no_fee)); s2 += Fr(str(t.crypto_fee))
                else:
                    s2 += Fr(str(t.crypto_fee))
                run_sum[t.internal_id], run_fee[t.internal_id] = s1, s2
            for (ri, row), t in zip(rows, want):
                link_rows[(asset, tab, t.internal_id)] = ri + 1
                v = lambda c: row[c][0]
                bad = []
                if str(v(1))[:19] != ts_str(t.timestamp):
                    bad.append(f"timestamp {v(1)} != {t.timestamp}")
                if tab == "IN":
                    chk = [(3, t.exchange), (4, t.holder), (5, t.transaction_type.value.upper())]
                    nums = [(6, t.spot_price), (7, t.crypto_in), (8, run_sum[t.internal_id]), (9, t.fiat_fee), (10, t.fiat_in_no_fee), (11, t.fiat_in_with_fee)]
                    sold = sum((Fr(str(g.crypto_amount)) for g in cd.gain_loss_set if g.acquired_lot is not None and g.acquired_lot.internal_id == t.internal_id), Fr(0)) / Fr(str(t.crypto_in))
                    if not close(v(0) or 0, sold):
                        bad.append(f"sold% {v(0)} != {float(sold)}")
                elif tab == "OUT":
                    chk = [(3, t.exchange), (4, t.holder), (5, t.transaction_type.value.upper())]
                    nums = [(6, t.spot_price), (7, t.crypto_out_no_fee), (8, t.crypto_fee), (9, run_sum[t.internal_id]), (10, run_fee[t.internal_id]), (11, t.fiat_out_no_fee), (12, t.fiat_fee)]
                else:
                    chk = [(3, t.from_exchange), (4, t.from_holder), (5, t.to_exchange), (6, t.to_holder)]
                    nums = [(7, t.spot_price), (8, t.crypto_sent), (9, t.crypto_received), (10, t.crypto_fee), (11, run_fee[t.internal_id]), (12, t.fiat_fee)]
                for c, w in chk:
                    if v(c) != w:
                        bad.append(f"col {c}: {v(c)!r} != {w!r}")
                for c, w in nums:
                    if not close(v(c), Fr(str(w)) if not isinstance(w, Fr) else w):
                        bad.append(f"col {c}: {v(c)!r} != {float(Fr(str(w)) if not isinstance(w, Fr) else w)!r}")
                if bad:
                    out.append(("C13", f"{asset} {title} row {ri + 1} (input row {t.internal_id}): " + "; ".join(bad[:3])))
        # ---- Tax sheet
        _, srows = data_rows(tax, "Gain / Loss Summary", 0)
        ylist = list(cd.yearly_gain_loss_list)
        if len(srows) != len(ylist):
            out.append(("C13", f"{asset} yearly summary: {len(srows)} lines shown, {len(ylist)} computed"))
        else:
            for (ri, row), yl in zip(srows, ylist):
                w = [yl.year, yl.asset, yl.fiat_gain_loss, "LONG" if yl.is_long_term_capital_gains else "SHORT", yl.transaction_type.value.upper(), yl.crypto_amount, yl.fiat_amount, yl.fiat_cost_basis]
                for c, x in enumerate(w):
                    got = row[c][0]
                    ok = (got == x) if isinstance(x, str) else close(got, Fr(str(x)))
                    if not ok:
                        out.append(("C13", f"{asset} yearly summary row {ri + 1} col {c}: {got!r} != {x!r}"))
                        break
        _, brows = data_rows(tax, "Account Balances", 0)
        bal = list(cd.balance_set)
        want_rows = []
        totals = {}
        for b in bal:
            want_rows.append((b.exchange, b.holder, asset, b.acquired_balance, b.sent_balance, b.received_balance, b.final_balance))
            totals[b.holder] = totals.get(b.holder, Fr(0)) + Fr(str(b.final_balance))
        got_rows = [tuple(c[0] for c in row[:7]) for _, row in brows]
        plain = [g for g in got_rows if g[0] != "Total"]
        tot = [g for g in got_rows if g[0] == "Total"]
        if len(plain) != len(want_rows) or any(g[:3] != w[:3] or not all(close(g[i], Fr(str(w[i]))) for i in range(3, 7)) for g, w in zip(plain, want_rows)):
            out.append(("C13", f"{asset} account balances table {plain} differs from the computed balances {[(w[0], w[1], float(w[6])) for w in want_rows]}"))
        if sorted((g[1], round(float(g[6] or 0), 9)) for g in tot) != sorted((h, round(float(v), 9)) for h, v in totals.items()):
            out.append(("C13", f"{asset} per-holder totals {[(g[1], g[6]) for g in tot]} differ from the sums of that holder's final balances { {h: float(v) for h, v in totals.items()} }"))
        ap = find_row(tax, "Average Price")
        if ap is not None and not close(tax[ap + 3][0][0], Fr(str(cd.price_per_unit))):
            out.append(("C13", f"{asset} average price {tax[ap + 3][0][0]} != {cd.price_per_unit}"))
        dt_row, drows = data_rows(tax, "Gain / Loss Detail", 0)
        ents = list(cd.gain_loss_set)
        if len(drows) != len(ents):
            out.append(("C13", f"{asset} gain/loss detail: {len(drows)} rows shown, {len(ents)} fractions in the window"))
        else:
            run_amt = {}
            s = Fr(0)
            # running sum over the whole (unfiltered) history in chronological order
            alle = exp[asset][2] if len(exp[asset]) > 2 else None
            frac_ev, frac_lot, n_ev, n_lot = {}, {}, {}, {}
            for g in (alle if alle is not None else ents):
                s += Fr(str(g.crypto_amount))
                run_amt[g.internal_id] = s
                if td is None or g.taxable_event.timestamp.date() <= td:
                    k = g.taxable_event.internal_id
                    frac_ev[g.internal_id] = n_ev.get(k, 0) + 1
                    n_ev[k] = n_ev.get(k, 0) + 1
                    if g.acquired_lot is not None:
                        l = g.acquired_lot.internal_id
                        frac_lot[g.internal_id] = n_lot.get(l, 0) + 1
                        n_lot[l] = n_lot.get(l, 0) + 1
            year_first = {}
            for (ri, row), g in zip(drows, ents):
                year_first.setdefault(g.taxable_event.timestamp.year, ri + 1)
                bad = []
                vals = [cell_val(c) for c in row[:20]]
                ev, lot = g.taxable_event, g.acquired_lot
                if not close(vals[0][0], Fr(str(g.crypto_amount))):
                    bad.append(f"amount {vals[0][0]} != {g.crypto_amount}")
                if alle is not None and not close(vals[2][0], run_amt[g.internal_id]):
                    bad.append(f"running sum {vals[2][0]} != {float(run_amt[g.internal_id])}")
                if not close(vals[3][0], Fr(str(g.fiat_gain))):
                    bad.append(f"gain {vals[3][0]} != {g.fiat_gain}")
                if vals[4][0] != ("LONG" if g.is_long_term_capital_gains() else "SHORT"):
                    bad.append(f"flag {vals[4][0]} for a {'LONG' if g.is_long_term_capital_gains() else 'SHORT'} fraction")
                if str(vals[5][0])[:19] != ts_str(ev.timestamp):
                    bad.append(f"event timestamp {vals[5][0]} != {ev.timestamp}")
                if not close(vals[8][0], Fr(str(g.taxable_event_fiat_amount_with_fee_fraction))):
                    bad.append(f"proceeds {vals[8][0]} != {g.taxable_event_fiat_amount_with_fee_fraction}")
                # the remaining event columns: fraction of the event, its spot price and unique id
                ev_total = Fr(str(ev.crypto_balance_change))
                if ev_total != 0 and not close(vals[7][0], Fr(str(g.crypto_amount)) / ev_total, rel=1e-8):
                    bad.append(f"event fraction % {vals[7][0]} != {float(Fr(str(g.crypto_amount)) / ev_total)}")
                if not close(vals[9][0], Fr(str(ev.spot_price))):
                    bad.append(f"event spot price {vals[9][0]} != {ev.spot_price}")
                lab = str(vals[11][0])
                if alle is not None and not lab.startswith(f"{frac_ev[g.internal_id]}/{n_ev[ev.internal_id]}:"):
                    bad.append(f"event fraction label {lab[:8]!r}, expected {frac_ev[g.internal_id]}/{n_ev[ev.internal_id]}")
                if lot is not None:
                    if str(vals[12][0])[:19] != ts_str(lot.timestamp):
                        bad.append(f"lot timestamp {vals[12][0]} != {lot.timestamp}")
                    if not close(vals[16][0], Fr(str(g.fiat_cost_basis))):
                        bad.append(f"cost basis {vals[16][0]} != {g.fiat_cost_basis}")
                    lot_total = Fr(str(lot.crypto_in))
                    pct = Fr(str(g.crypto_amount)) / lot_total
                    if not close(vals[13][0], pct, rel=1e-8):
                        bad.append(f"lot fraction % {vals[13][0]} != {float(pct)}")
                    if not close(vals[14][0], Fr(str(lot.fiat_in_with_fee)) * pct, rel=1e-8):
                        bad.append(f"lot amount fraction {vals[14][0]} != {float(Fr(str(lot.fiat_in_with_fee)) * pct)}")
                    if not close(vals[15][0], Fr(str(lot.fiat_fee)) * pct, rel=1e-8):
                        bad.append(f"lot fee fraction {vals[15][0]} != {float(Fr(str(lot.fiat_fee)) * pct)}")
                    if not close(vals[17][0], Fr(str(lot.spot_price))):
                        bad.append(f"lot spot price {vals[17][0]} != {lot.spot_price}")
                    lab2 = str(vals[19][0])
                    if alle is not None and not lab2.startswith(f"{frac_lot[g.internal_id]}/{n_lot[lot.internal_id]}:"):
                        bad.append(f"lot fraction label {lab2[:8]!r}, expected {frac_lot[g.internal_id]}/{n_lot[lot.internal_id]}")
                if bad and "C13" in props:
                    out.append(("C13", f"{asset} detail row {ri + 1} (event row {ev.internal_id}, lot row {lot.internal_id if lot else None}): " + "; ".join(bad[:3])))
                # ---- C19: links of the event cells (cols 5..11) and lot cells (cols 12..19)
                if "C19" in props:
                    tab_ev = "IN" if type(ev).__name__ == "InTransaction" else ("OUT" if type(ev).__name__ == "OutTransaction" else "INTRA")
                    for cols, tx, tab in (((5, 6, 7, 8, 9, 11), ev, tab_ev), ((12, 13, 14, 16, 17, 19), lot, "IN")):
                        if tx is None:
                            continue
                        want_row = link_rows.get((asset, tab, tx.internal_id))
                        for c in cols:
                            link = vals[c][1]
                            if want_row is None and link is not None:
                                out.append(("C19", f"{asset} Tax row {ri + 1} col {c}: transaction row {tx.internal_id} is hidden by the date filter but the cell links to {link}"))
                                break
                            if want_row is not None and link != (f"{asset} In-Out", want_row):
                                out.append(("C19", f"{asset} Tax row {ri + 1} col {c}: link {link} but the transaction (input row {tx.internal_id}) is on row {want_row} of '{asset} In-Out'"))
                                break
            # summary links
            if "C19" in props:
                summ = sheets.get("Summary", [])
                for i, row in enumerate(summ[3:], start=3):
                    v0, l0 = cell_val(row[0])
                    v1, _ = cell_val(row[1])
                    if v1 != asset or v0 in (None, ""):
                        continue
                    yr = int(float(v0))
                    wantr = year_first.get(yr)
                    if l0 is None:
                        if wantr is not None:
                            out.append(("C19", f"Summary line {asset}/{yr} carries no link although the year has detail rows"))
                    elif l0 != (f"{asset} Tax", wantr):
                        out.append(("C19", f"Summary line {asset}/{yr} links to {l0}, first gain/loss row of that year is row {wantr} of '{asset} Tax'"))
    # ---- Summary sheet: one line per yearly line of every asset, in asset order, with the same figures as the asset's own summary table
    if "C13" in props:
        summ = sheets.get("Summary", [])
        lines = []
        for row in summ[3:]:
            v = [cell_val(c)[0] for c in row[:8]]
            if v[0] in (None, "") and v[1] in (None, ""):
                continue
            lines.append(v)
        want = []
        for asset in sorted(exp):
            for yl in exp[asset][1].yearly_gain_loss_list:
                want.append([yl.year, yl.asset, yl.fiat_gain_loss, "LONG" if yl.is_long_term_capital_gains else "SHORT", yl.transaction_type.value.upper(), yl.crypto_amount, yl.fiat_amount,
                             yl.fiat_cost_basis])
        if len(lines) != len(want):
            out.append(("C13", f"Summary sheet has {len(lines)} lines, the assets have {len(want)} yearly lines in all"))
        else:
            for k, (g, w) in enumerate(zip(lines, want)):
                bad = [c for c in range(8) if not ((str(g[c]) == str(w[c]) or (c == 0 and close(g[c], Fr(w[c])))) if isinstance(w[c], (str, int)) else close(g[c], Fr(str(w[c]))))]
                if bad:
                    out.append(("C13", f"Summary sheet line {k + 1} {g} differs from the computed yearly line {[str(x) for x in w]} in columns {bad}"))
                    break
    # ---- Legend
    if "C13" in props:
        leg = sheets.get("Legend", [])
        am = find_row(leg, "Accounting Method")
        if am is None:
            out.append(("C13", "Legend has no 'Accounting Method' line"))
        else:
            txt = str(leg[am][1][0] or "").upper()
            for m in set(schedule.values()):
                if m.upper() not in txt:
                    out.append(("C13", f"Legend states accounting method {txt!r}, the computation used {sorted(set(schedule.values()))}"))
                    break
            if len(schedule) > 1:
                for y, m in schedule.items():
                    if f"{y}:{m.upper()}" not in txt.replace(" ", ""):
                        out.append(("C13", f"Legend states {txt!r}: the schedule entry {y}:{m.upper()} used by the computation is missing"))
                        break
            for label, d in (("From Date Filter", fd), ("To Date Filter", td)):
                r = find_row(leg, label)
                got = str(leg[r][1][0]) if r is not None else None
                want = "non-specified" if d is None else d.isoformat()
                if got is None or (d is None) != (got == "non-specified") or (d is not None and d.isoformat() not in got):
                    out.append(("C13", f"Legend '{label}' says {got!r}, the run used {want}"))
    return out


def parse_day(txt):
    """Calendar date of a report date cell (US: mm/dd/yyyy, IE: yyyy/mm/dd)."""
    for fmt in ("%m/%d/%Y", "%Y/%m/%d", "%d/%m/%Y", "%Y-%m-%d"):
        try:
            return dt.datetime.strptime(str(txt), fmt).date()
        except ValueError:
            continue
    return None


def methods_of(country):
    return sorted(country_obj(country).get_accounting_methods())


# ------------------------------------------------------------------ C14: tax_report_us / tax_report_ie
def check_tax_report(sheets, exp, run):
    out = []
    want = {}
    for asset in sorted(exp):
        for g in exp[asset][1].gain_loss_set:
            want.setdefault(ROUTE[g.taxable_event.transaction_type.value], []).append((asset, g))
    for name, rows in sheets.items():
        if name == "Legend":
            continue
        got = []
        i = 7
        while i < len(rows) and rows[i][0][0] not in (None, ""):
            got.append((i, rows[i]))
            i += 1
        w = want.get(name, [])
        if not w:
            out.append(("C14", f"sheet '{name}' is present although no fraction belongs on it"))
            continue
        if len(got) != len(w):
            out.append(("C14", f"sheet '{name}' lists {len(got)} rows, {len(w)} fractions belong on it"))
            continue
        for (ri, row), (asset, g) in zip(got, w):
            v = lambda c: row[c][0]
            lot = g.acquired_lot
            bad = []
            if not close(v(0), Fr(str(g.crypto_amount))) or v(1) != asset:
                bad.append(f"amount/asset {v(0)} {v(1)} != {g.crypto_amount} {asset}")
            if (parse_day(v(2)) if lot else (v(2) or "")) != (lot.timestamp.date() if lot else ""):
                bad.append(f"date acquired {v(2)!r} != {lot.timestamp.date() if lot else ''}")
            if parse_day(v(3)) != g.taxable_event.timestamp.date():
                bad.append(f"date sold {v(3)!r} != {g.taxable_event.timestamp.date()}")
            if not close(v(4), Fr(str(g.taxable_event_fiat_amount_with_fee_fraction))):
                bad.append(f"proceeds {v(4)} != {g.taxable_event_fiat_amount_with_fee_fraction}")
            if lot and not close(v(5), Fr(str(g.fiat_cost_basis))):
                bad.append(f"cost basis {v(5)} != {g.fiat_cost_basis}")
            if not close(v(8), Fr(str(g.fiat_gain))):
                bad.append(f"gain {v(8)} != {g.fiat_gain}")
            if v(14) != ("LONG" if g.is_long_term_capital_gains() else "SHORT"):
                bad.append(f"{v(14)} for a {'LONG' if g.is_long_term_capital_gains() else 'SHORT'} fraction")
            if bad:
                out.append(("C14", f"sheet '{name}' row {ri + 1} ({asset} event row {g.taxable_event.internal_id}): " + "; ".join(bad[:3])))
    for name, w in want.items():
        if w and name not in sheets:
            out.append(("C14", f"sheet '{name}' is missing although {len(w)} fractions belong on it"))
    return out


# ------------------------------------------------------------------ C15: open positions
def check_open_positions(sheets, exp, run):
    out = []
    td = run.get("to")
    unreal, holders, hx = {}, {}, {}
    total_acquired_cost, realized = {}, {}
    for asset, (idata, cd, *_rest) in exp.items():
        sold = {}
        for g in cd.gain_loss_set:
            if g.acquired_lot is not None:
                sold[g.acquired_lot.internal_id] = sold.get(g.acquired_lot.internal_id, Fr(0)) + Fr(str(g.crypto_amount))
        u = Fr(0)
        tot = Fr(0)
        for t in cd.in_transaction_set:
            c = Fr(str(t.fiat_in_with_fee))
            tot += c
            u += c * (1 - sold.get(t.internal_id, Fr(0)) / Fr(str(t.crypto_in)))
        total_acquired_cost[asset] = tot
        realized[asset] = sum((Fr(str(g.fiat_cost_basis)) for g in cd.gain_loss_set), Fr(0))
        if u > Fr(5, 10 ** 14):
            unreal[asset] = u
            for b in cd.balance_set:
                fb = Fr(str(b.final_balance))
                if fb > Fr(5, 10 ** 14):
                    holders.setdefault(asset, {}).setdefault(b.holder, Fr(0))
                    holders[asset][b.holder] += fb
                    hx[(asset, b.holder, b.exchange)] = fb
        if abs(realized[asset] + u - tot) > Fr(1, 10 ** 9) * max(tot, 1):
            out.append(("C15", f"{asset}: realized cost basis {float(realized[asset])} + unrealized {float(u)} != total cost of everything acquired {float(tot)}"))
    total = sum(unreal.values(), Fr(0))
    a_rows = [r for r in sheets.get("Asset", [])[3:] if r[0][0] not in (None, "", "Grand Total", "Total")]
    x_rows = [r for r in sheets.get("Asset - Exchange", [])[3:] if r[0][0] not in (None, "", "Grand Total", "Total")]
    want_a = sorted((a, h) for a in unreal for h in holders.get(a, {}))
    want_x = sorted(k for k in hx if k[0] in unreal)
    if sorted((r[0][0], r[1][0]) for r in a_rows) != want_a:
        out.append(("C15", f"Asset sheet lists {sorted((r[0][0], r[1][0]) for r in a_rows)}, holders with a positive balance of assets with unsold lots are {want_a}"))
    if sorted((r[0][0], r[1][0], r[2][0]) for r in x_rows) != want_x:
        out.append(("C15", f"Asset - Exchange sheet lists {sorted((r[0][0], r[1][0], r[2][0]) for r in x_rows)}, accounts with a positive balance are {want_x}"))
    wsum = Fr(0)
    for r in a_rows:
        a, h = r[0][0], r[1][0]
        if a not in unreal or h not in holders.get(a, {}):
            continue
        tb = sum(holders[a].values(), Fr(0))
        unit = unreal[a] / tb
        for c, w, what in ((2, holders[a][h], "crypto balance"), (3, unit, "per-unit cost"), (4, holders[a][h] * unit, "unrealized cost basis"), (5, holders[a][h] * unit / total, "weight")):
            if not close(r[c][0], w, 1e-8):
                out.append(("C15", f"Asset sheet {a}/{h}: {what} {r[c][0]} != {float(w)}"))
        wsum += Fr(str(r[5][0] or 0))
    if a_rows and abs(wsum - 1) > Fr(1, 10 ** 8):
        out.append(("C15", f"cost-basis weights add up to {float(wsum)}, not 100%"))
    for r in x_rows:
        k = (r[0][0], r[1][0], r[2][0])
        if k in hx and not close(r[3][0], hx[k], 1e-8):
            out.append(("C15", f"Asset - Exchange {k}: balance {r[3][0]} != {float(hx[k])}"))
    return out


# ------------------------------------------------------------------ C20: Japanese report
def check_jp_report(sheets, exp, run):
    out = []
    years_all = set()
    for asset, (idata, cd, *_rest) in sorted(exp.items()):
        per_year = {}
        for name, tab in (("unfiltered_in_transaction_set", "IN"), ("unfiltered_out_transaction_set", "OUT"), ("unfiltered_intra_transaction_set", "INTRA")):
            for t in getattr(idata, name):
                per_year.setdefault(t.timestamp.year, []).append((t.timestamp, tab, t))
        ys = sorted(per_year)
        years_all |= set(ys)
        prev = None
        for yr in ys:
            name = f"{asset}_{yr}"
            sh = sheets.get(name)
            if sh is None:
                out.append(("C20", f"no calculation sheet '{name}' although {asset} has transactions in {yr}"))
                prev = yr
                continue
            listed = sorted(per_year[yr], key=lambda x: x[0])
            feeless = lambda x: x[1] == "INTRA" and Fr(str(x[2].crypto_sent)) == Fr(str(x[2].crypto_received))
            want_rows = [x for x in listed if not feeless(x)]
            # transaction rows start at row 22 (index 21): month in col 0, day in col 1
            got = []
            i = 21
            while i < len(sh) and sh[i][0][0] not in (None, "") and isinstance(sh[i][0][0], (int, float)):
                got.append((i, sh[i]))
                i += 1
            if len(got) != len(want_rows):
                out.append(("C20", f"sheet '{name}' lists {len(got)} transactions, {len(want_rows)} of {asset} are dated {yr}"))
            else:
                for (ri, row), (tstamp, tab, t) in zip(got, want_rows):
                    if int(row[0][0]) != tstamp.month or int(row[1][0]) != tstamp.day:
                        out.append(("C20", f"sheet '{name}' row {ri + 1}: month/day {row[0][0]}/{row[1][0]} != {tstamp.month}/{tstamp.day} (input row {t.internal_id})"))
                        break
                    # exchange, type, purchased amount / yen, sold amount / yen, fee (the columns the statement lists)
                    v = lambda c: row[c][0]
                    F = lambda x: Fr(str(x))
                    bad = []
                    if tab == "IN":
                        fee = F(t.crypto_fee) * F(t.spot_price) if F(t.crypto_fee) > 0 else F(t.fiat_fee)
                        if v(2) != t.exchange or str(v(3)).upper() != t.transaction_type.value.upper():
                            bad.append(f"exchange/type {v(2)}/{v(3)}")
                        if not close(v(4), F(t.crypto_in)) or not close(v(5), F(t.crypto_in) * F(t.spot_price)):
                            bad.append(f"purchased {v(4)} / {v(5)} != {t.crypto_in} / {float(F(t.crypto_in) * F(t.spot_price))}")
                        if not close(v(8) or 0, fee):
                            bad.append(f"fee {v(8)} != {float(fee)}")
                    elif tab == "OUT":
                        fee = F(t.crypto_fee) * F(t.spot_price) if F(t.crypto_fee) > 0 else F(t.fiat_fee)
                        if v(2) != t.exchange or str(v(3)).upper() != t.transaction_type.value.upper():
                            bad.append(f"exchange/type {v(2)}/{v(3)}")
                        if not close(v(6), F(t.crypto_out_with_fee)):
                            bad.append(f"sold amount {v(6)} != {t.crypto_out_with_fee}")
                        if t.transaction_type.value != "donate" and not close(v(7), F(t.crypto_out_no_fee) * F(t.spot_price)):
                            bad.append(f"sold yen {v(7)!r} != {float(F(t.crypto_out_no_fee) * F(t.spot_price))}")
                        if t.transaction_type.value == "donate" and isinstance(v(7), (int, float)) and v(7) != 0:
                            bad.append(f"a donation shows sale proceeds {v(7)!r}")
                        if not close(v(8) or 0, fee):
                            bad.append(f"fee {v(8)} != {float(fee)}")
                    else:
                        feec = F(t.crypto_sent) - F(t.crypto_received)
                        if not close(v(6), feec) or not close(v(7), feec * F(t.spot_price)):
                            bad.append(f"transfer fee {v(6)} / {v(7)} != {float(feec)} / {float(feec * F(t.spot_price))}")
                    if bad:
                        out.append(("C20", f"sheet '{name}' row {ri + 1} (input row {t.internal_id}): " + "; ".join(bad[:3])))
                        break
            # opening balance cells: row 20 (index 19), columns H/I hold `0` or a reference to the previous year's closing cells
            n_rows = len(want_rows)
            open_idx = 21 + n_rows + 8          # the two opening-balance cells (quantity, yen) sit in column E, 8 and 9 rows below the last transaction row
            cells = [sh[r][4] for r in (open_idx, open_idx + 1) if r < len(sh)]
            refs = [c for c in cells if c[1] and "'" in str(c[1])]
            if prev is None and any(c[0] not in (0, 0.0) for c in cells if not c[1]):
                out.append(("C20", f"sheet '{name}': first year of the asset but the opening balance is {[c[0] for c in cells]} instead of 0"))
            if prev is None:
                if refs:
                    out.append(("C20", f"sheet '{name}' is the asset's first year but its opening balance refers to {refs[0][1]}"))
            else:
                want_sheet = f"{asset}_{prev}"
                bad = [c[1] for c in refs if f"'{want_sheet}'" not in str(c[1])]
                if not refs:
                    out.append(("C20", f"sheet '{name}': opening balance does not refer to the closing balance of '{want_sheet}'"))
                elif bad:
                    out.append(("C20", f"sheet '{name}': opening balance refers to {bad[0]} instead of the closing balance of '{want_sheet}' (most recent earlier year)"))
                else:
                    # the referenced rows must be the rows where that sheet's closing balances were written: 8 and 9 rows below its last transaction row
                    psh = sheets.get(want_sheet)
                    if psh is not None:
                        n_prev = len([x for x in per_year[prev] if not feeless(x)])
                        rows_ref = sorted({int(m) for c in refs for m in re.findall(r"\.I(\d+)", str(c[1]))})
                        want_ref = [22 + n_prev + 8, 22 + n_prev + 9]
                        if rows_ref and rows_ref != want_ref:
                            out.append(("C20", f"sheet '{name}': opening balance refers to rows {rows_ref} of '{want_sheet}', its closing balances are on rows {want_ref}"))
            prev = yr
        extra = [n for n in sheets if n.startswith(asset + "_") and n[len(asset) + 1:].isdigit() and int(n[len(asset) + 1:]) not in per_year]
        if extra:
            out.append(("C20", f"calculation sheets {extra} for years in which {asset} has no transaction"))
    for yr in sorted(years_all):
        if f"{yr}_Summary" not in sheets and not any(n.endswith("Summary") and str(yr) in n for n in sheets):
            out.append(("C20", f"no summary sheet for {yr}"))
    return out


# ------------------------------------------------------------------ drivers
def expected_both(ini, ods, country, schedule, fd, td, allow_negative=True):
    with EZODF_LOCK:
        return _expected_both(ini, ods, country, schedule, fd, td, allow_negative)


def _expected_both(ini, ods, country, schedule, fd, td, allow_negative=True):
    cfg, win = expected(ini, ods, country, schedule, fd, td, allow_negative)
    if fd is None and td is None:
        return {a: (i, c, list(c.gain_loss_set)) for a, (i, c) in win.items()}
    _, full = expected(ini, ods, country, schedule, None, None, True)
    return {a: (win[a][0], win[a][1], list(full[a][1].gain_loss_set)) for a in win}


def schedule_of(run, country):
    if run.get("config_methods"):
        return {str(y): m for y, m in run["config_methods"].items()}
    if run.get("method"):
        return {"1970": run["method"]}
    return {"1970": country_obj(country).get_default_accounting_method()}


def region_tags(sc, run):
    tags = []
    for a, txs in sc["assets"].items():
        one = {"txs": txs, "schedule": schedule_of(run, run.get("country", "us"))}
        for n, f in e2e.REGIONS.items():
            if f(one) and n not in tags:
                tags.append(n)
    return tags


def report_path(r, country, name):
    for f in r["files"]:
        if f.endswith(name + ".ods"):
            return os.path.join(r["outdir"], f)
    return None


def check_reports(pid, sc, run, workdir):
    """One CLI run + comparison of the reports the property is about with values computed in this process from the same files."""
    country = run.get("country", "us")
    r = do_run(sc, run, workdir)
    res = []
    sched = schedule_of(run, country)
    if r["rc"] != 0:
        res.append((pid if pid != "C16" else "C16", f"run exited with status {r['rc']}: {r['out'][-300:]}"))
        return r, res
    try:
        exp = expected_both(r["ini"], r["ods"], country, sched, run.get("from"), run.get("to"), run.get("allow_negative", True))
    except Exception as exc:       # the API rejects what the CLI accepted
        return r, [(pid, f"CLI run succeeded but the public API raised {type(exc).__name__}: {exc}")]
    if pid in ("C13", "C19"):
        p = report_path(r, country, "rp2_full_report")
        res += [x for x in check_full_report(clirun.read_sheets(p), exp, run, sched, {pid}) if x[0] == pid] if p else [(pid, "rp2_full_report.ods was not written")]
    elif pid == "C14":
        p = report_path(r, country, f"tax_report_{country}")
        res += check_tax_report(clirun.read_sheets(p), exp, run) if p else [(pid, f"tax_report_{country}.ods was not written")]
    elif pid == "C15":
        p = report_path(r, country, "open_positions")
        res += check_open_positions(clirun.read_sheets(p), exp, run) if p else [(pid, "open_positions.ods was not written")]
    elif pid == "C20":
        p = report_path(r, country, "tax_report_jp")
        res += check_jp_report(clirun.read_sheets(p), exp, run) if p else [(pid, "tax_report_jp.ods was not written")]
    return r, res


def runs_for(pid, sc, rnd, thorough):
    """The option combinations tried for one scenario of one property."""
    wins = windows_for(sc, rnd)
    pick = lambda c: rnd.choice(methods_of(c))
    m = pick("us")
    if pid in ("C13", "C19"):
        runs = [{"country": "us", "method": m, "from": f, "to": t} for f, t in (wins if thorough else [wins[0], rnd.choice(wins[1:])])]
        if rnd.random() < 0.4:
            c = rnd.choice(["us", "ie", "generic"])
            runs.append({"country": c, "config_methods": {2018: pick(c), 2020: pick(c), 2021: pick(c)}})
        return runs
    if pid == "C14":
        return [{"country": c, "method": pick(c), "from": f, "to": t} for c in ("us", "ie") for f, t in ([wins[0], rnd.choice(wins[1:])] if thorough else [rnd.choice(wins)])]
    if pid == "C15":
        out = []
        for _, t in (wins[0], wins[2]):
            c = rnd.choice(["us", "ie", "jp", "generic"])
            out.append({"country": c, "method": pick(c), "to": t, "lang": None})
        return out
    if pid == "C20":
        return [{"country": "jp", "method": rnd.choice(["fifo", "lifo"]) if False else None, "lang": "en"}]
    return [{"country": "us", "method": m}]


def search(pid, n_random, seed, stop_at=4):
    rnd = random.Random(seed * 104729 + int(pid[1:]))
    thorough = n_random > 40
    flags = dict(earn=True, intra=True, tz_mix=(pid in ("C13", "C19", "C20")), strict_balances=False)
    scs = multi_scenarios(rnd, n_random, **flags)
    jobs = []
    for i, sc in enumerate(scs):
        for j, run in enumerate(runs_for(pid, sc, rnd, thorough)):
            if run.get("country") == "jp" and run.get("lang") is None:
                run["lang"] = "en"
            jobs.append((i, j, sc, run))
    root = tempfile.mkdtemp(prefix="rp2cli_")
    fails, evals = [], 0

    def one(job):
        i, j, sc, run = job
        wd = os.path.join(root, f"s{i}_{j}")
        try:
            sc2 = json.loads(json.dumps(sc))
            r, res = check_reports(pid, sc2, run, wd)
            return job, r, res, sc2
        except Exception as exc:
            import traceback
            return job, None, [("HARNESS", f"{type(exc).__name__}: {exc} :: {traceback.format_exc()[-500:]}")], sc
        finally:
            shutil.rmtree(wd, ignore_errors=True)
    try:
        with ThreadPoolExecutor(max_workers=int(os.environ.get("VERIF_JOBS", "12"))) as pool:
            for job, r, res, sc2 in pool.map(one, jobs):
                evals += 1
                harness_err = [w for p, w in res if p == "HARNESS"]
                if harness_err:
                    fails.append({"harness_error": harness_err[0], "scenario": sc2, "run": _j(job[3]), "regions": ["harness"], "what": harness_err})
                    continue
                mine = [w for p, w in res if p == pid]
                if mine:
                    regs = region_tags(sc2, job[3]) + cli_regions(pid, sc2, job[3], mine)
                    if regs and sum(1 for f in fails if f["regions"] == regs) >= 2:
                        continue
                    fails.append({"scenario": sc2, "run": _j(job[3]), "what": mine[:4], "regions": regs})
    finally:
        shutil.rmtree(root, ignore_errors=True)
    return evals, fails


def _j(run):
    return {k: (v.isoformat() if isinstance(v, dt.date) else v) for k, v in run.items()}


def cli_regions(pid, sc, run, what):
    """Characterising predicates of the known findings that live at report level (DESIGN section 9)."""
    tags = []
    txt = " ".join(what)
    if run.get("country") == "jp":
        years = {a: sorted({e2e.local_year(t["ts"]) for t in txs}) for a, txs in sc["assets"].items()}
        first_seen = {a: [] for a in sc["assets"]}
        for a, txs in sc["assets"].items():
            for tab in ("IN", "OUT", "INTRA"):
                for t in sorted([t for t in txs if t["tab"] == tab], key=lambda t: e2e.inst(t["ts"])):
                    y = e2e.local_year(t["ts"])
                    if y not in first_seen[a]:
                        first_seen[a].append(y)
        if any(ys != list(range(ys[0], ys[-1] + 1)) or first_seen[a] != ys for a, ys in years.items() if ys):
            tags.append("jp_years_sparse_or_first_seen_out_of_order")
    return tags


# ------------------------------------------------------------------ C16: every supported option combination runs to completion
def languages_of(country):
    """Languages for which the country ships a template of any of its default generators (from the data directory of the tree under test)."""
    d = os.path.join(REPO, "src", "rp2", "plugin", "report", "data", country)
    langs = set()
    for f in os.listdir(d) if os.path.isdir(d) else []:
        m = re.match(r"template_(.+?)_((?:[a-z]{2})(?:_[A-Z]{2})?)\.ods$", f)
        if m:
            langs.add(m.group(2))
    return sorted(langs)


def _parallel(jobs, fn):
    with ThreadPoolExecutor(max_workers=int(os.environ.get("VERIF_JOBS", "12"))) as pool:
        return list(pool.map(fn, jobs))


def search_C16(n_random, seed):
    rnd = random.Random(seed * 7 + 16)
    thorough = n_random > 40
    scs = multi_scenarios(rnd, 2 if not thorough else 8, earn=True, intra=True)
    scs = [scs[0], scs[7], scs[8]] + scs[9:]
    cells = []
    for c in COUNTRIES:
        for lang in [None] + languages_of(c):
            for m in [None] + methods_of(c):
                cells.append((c, lang, m))
    if not thorough:
        keep = [x for x in cells if x[1] is None and x[2] is None]          # every entry point with its default options, always
        keep += rnd.sample([x for x in cells if x not in keep], min(10, len(cells) - len(keep)))
        cells = keep
    jobs = []
    # schedules given in the configuration ([accounting_methods]) instead of -m: one entry, several entries
    for c in ("us", "generic", "ie"):
        ms = methods_of(c)
        for cm in ({2019: ms[0]}, {1970: ms[-1]}, {2018: ms[0], 2020: ms[-1], 2021: ms[len(ms) // 2]}):
            jobs.append((len(jobs), scs[1], {"country": c, "lang": None, "method": None, "from": None, "to": None, "config_methods": cm}))
    for k, (c, lang, m) in enumerate(cells):
        sc = scs[k % len(scs)]
        wins = windows_for(sc, rnd)
        for w in (wins if thorough else [wins[0], rnd.choice(wins[1:])]):
            if c == "jp" and w[0] is not None and w[1] is not None:
                continue        # rejected on purpose by tax_report_jp ("To and From Dates can not be specified"): not a supported combination
            jobs.append((len(jobs), sc, {"country": c, "lang": lang, "method": m, "from": w[0], "to": w[1]}))
    root = tempfile.mkdtemp(prefix="rp2cli_")

    def one(job):
        i, sc, run = job
        wd = os.path.join(root, f"r{i}")
        try:
            sc2 = json.loads(json.dumps(sc))
            r = do_run(sc2, run, wd)
            want = COUNTRIES[run["country"]]
            missing = [g for g in want if not any(f.endswith(g + ".ods") for f in r["files"])]
            res = []
            if r["rc"] != 0:
                res.append(f"{run['country']} {_j(run)} exited with status {r['rc']}: {r['out'][-260:]}")
            elif missing:
                res.append(f"{run['country']} {_j(run)} exited 0 but did not write {missing}")
            return sc2, run, res
        finally:
            shutil.rmtree(wd, ignore_errors=True)
    fails = []
    try:
        for sc2, run, res in _parallel(jobs, one):
            if res:
                regs = region_tags(sc2, run)
                if run["country"] == "jp" and run["lang"] is None:
                    regs.append("jp_default_language_has_no_templates")
                if regs and sum(1 for f in fails if f["regions"] == regs) >= 2:
                    continue
                fails.append({"scenario": sc2, "run": _j(run), "what": res, "regions": regs})
    finally:
        shutil.rmtree(root, ignore_errors=True)
    return len(jobs), fails


# ------------------------------------------------------------------ C18: no network, no subprocess, writes confined
def search_C18(n_random, seed):
    rnd = random.Random(seed * 7 + 18)
    scs = multi_scenarios(rnd, 1, earn=True, intra=True)
    jobs = []
    for k, c in enumerate(COUNTRIES):
        jobs.append((len(jobs), scs[k % 3], {"country": c, "lang": "en" if c == "jp" else None}, None, None))
        # an invalid input (unknown asset sheet) and an invalid option for every entry point: the error paths must stay silent too
        jobs.append((len(jobs), scs[k % 3], {"country": c, "lang": "en" if c == "jp" else None}, {"B1": {"drop_end": "IN"}}, None))
    jobs.append((len(jobs), scs[0], {"country": "us"}, None, {"RP2_ENABLE_PROFILER": "1"}))
    if n_random > 40:
        # thorough: every entry point x every method / shipped language / window kind as well
        more = multi_scenarios(rnd, 6, earn=True, intra=True)
        for c in COUNTRIES:
            for m in methods_of(c):
                sc = rnd.choice(more)
                w = rnd.choice(windows_for(sc, rnd)[:3])
                jobs.append((len(jobs), sc, {"country": c, "lang": "en" if c == "jp" else None, "method": m, "from": w[0], "to": w[1]}, None, None))
            for lang in languages_of(c):
                jobs.append((len(jobs), rnd.choice(more), {"country": c, "lang": lang}, None, None))
    root = tempfile.mkdtemp(prefix="rp2cli_")

    def digest(path):
        with open(path, "rb") as f:
            return hashlib.sha256(f.read()).hexdigest()

    def tree(d):
        out = {}
        for base, _, files in os.walk(d):
            for f in files:
                out[os.path.relpath(os.path.join(base, f), d)] = 1
        return out

    def one(job):
        i, sc, run, structure, envx = job
        wd = os.path.join(root, f"r{i}")
        try:
            sc2 = json.loads(json.dumps(sc))
            os.makedirs(wd, exist_ok=True)
            with EZODF_LOCK:
                ini, ods = odsgen.materialize(sc2, wd, None, structure, None)
            before = (digest(ini), digest(ods))
            outdir = os.path.join(wd, "out")
            os.makedirs(outdir, exist_ok=True)
            r = clirun.run_cli(run["country"], cli_args(run, outdir, ini, ods), REPO, wd, audit=True, env_extra=envx)
            res = []
            for ev, arg in (r["events"] or []):
                if ev.startswith(("socket.", "subprocess", "os.system", "os.exec", "os.spawn", "os.posix_spawn", "os.fork", "urllib", "http", "ftplib", "smtplib")):
                    res.append(f"{ev} {arg[:120]}")
                elif ev == "open-write" or ev in ("os.rename", "os.remove", "os.unlink", "os.mkdir"):
                    paths = re.findall(r"/[^'\", )]+", arg) if ev != "open-write" else [arg]
                    if ev == "os.mkdir" and "'log'" in arg:
                        continue
                    for p in paths:
                        ap = os.path.abspath(os.path.join(wd, p))
                        if not (ap.startswith(outdir + os.sep) or ap.startswith(os.path.join(wd, "log") + os.sep) or ap == os.path.join(wd, "log") or "rp2audit_" in ap):
                            res.append(f"write outside the output and log directories: {ev} {p}")
            if r["events"] is None:
                res.append("audit trail missing (the run did not finish normally): " + r["out"][-200:])
            if (digest(ini), digest(ods)) != before:
                res.append("config file or input spreadsheet was modified")
            stray = [f for f in tree(wd) if not (f.startswith("out" + os.sep) or f.startswith("log" + os.sep) or f in ("config.ini", "input.ods"))]
            if stray:
                res.append(f"files created outside the output and log directories: {stray}")
            return sc2, run, res
        finally:
            shutil.rmtree(wd, ignore_errors=True)
    fails = []
    try:
        for sc2, run, res in _parallel(jobs, one):
            if res:
                fails.append({"scenario": sc2, "run": _j(run), "what": res[:4], "regions": []})
    finally:
        shutil.rmtree(root, ignore_errors=True)
    return len(jobs), fails


# ------------------------------------------------------------------ C17: deterministic, order- and asset-independent
def normalized(sheets):
    """Report contents up to row numbers of the input: cell values and formulas of every sheet (notes / unique ids are kept)."""
    return {name: [[(v if not isinstance(v, float) else round(v, 12), f) for v, f in row] for row in rows] for name, rows in sheets.items()}


def fractions_of(exp):
    return {a: [(str(g.taxable_event.timestamp), str(g.acquired_lot.timestamp) if g.acquired_lot else None, str(g.crypto_amount), str(g.fiat_gain)) for g in cd.gain_loss_set]
            for a, (i, cd, *_r) in exp.items()}


def search_C17(n_random, seed):
    rnd = random.Random(seed * 7 + 17)
    thorough = n_random > 40
    scs = multi_scenarios(rnd, 2 if not thorough else 10, earn=True, intra=True)
    picks = [scs[0], scs[7]] + scs[9:]
    # lots bought inside the hour that a DST zone repeats (05:00Z-07:00Z on 2020-11-01 for US Eastern): results must not depend on the machine's TZ
    picks.append({"assets": {"B1": [{"tab": "IN", "ts": "2020-10-30T10:00:00+00:00", "ex": "Coinbase", "ho": "Bob", "type": "buy", "spot": "90", "amount": "1"},
                                    {"tab": "IN", "ts": "2020-11-01T05:30:00+00:00", "ex": "Coinbase", "ho": "Bob", "type": "buy", "spot": "130", "amount": "1"},
                                    {"tab": "IN", "ts": "2020-11-01T06:10:00+00:00", "ex": "Coinbase", "ho": "Bob", "type": "buy", "spot": "100", "amount": "1"},
                                    {"tab": "OUT", "ts": "2020-11-01T06:05:00+00:00", "ex": "Coinbase", "ho": "Bob", "type": "sell", "spot": "200", "amount": "0.5", "fee": "0"},
                                    {"tab": "OUT", "ts": "2020-11-02T06:20:00+00:00", "ex": "Coinbase", "ho": "Bob", "type": "sell", "spot": "210", "amount": "0.5", "fee": "0"}]},
                  "method": "hifo"})
    root = tempfile.mkdtemp(prefix="rp2cli_")
    fails, evals = [], 0

    def one(job):
        k, sc = job
        res = []
        m = sc.get("method") or rnd.choice(METHODS)
        run = {"country": "us", "method": m}
        outs = []
        # (a) hash seeds, dirty output directory, time zone of the machine
        tzs = ["UTC", "UTC", "EST5EDT,M3.2.0,M11.1.0"]
        for j, hs in enumerate(["0", "1", "4242"]):
            wd = os.path.join(root, f"s{k}_{j}")
            sc2 = json.loads(json.dumps(sc))
            os.makedirs(os.path.join(wd, "out"), exist_ok=True)
            if j == 2:
                with open(os.path.join(wd, "out", f"{m}_rp2_full_report.ods"), "w") as f:
                    f.write("stale file from an earlier run")
                with open(os.path.join(wd, "out", "unrelated.txt"), "w") as f:
                    f.write("x")
            r = do_run(sc2, run, wd, env_extra={"PYTHONHASHSEED": hs, "TZ": tzs[j]}, keep_out=True)
            if r["rc"] != 0:
                res.append(f"run with PYTHONHASHSEED={hs} exited {r['rc']}: {r['out'][-200:]}")
                continue
            outs.append({n: normalized(clirun.read_sheets(os.path.join(r["outdir"], n))) for n in r["files"] if n.endswith(".ods")})
            shutil.rmtree(wd, ignore_errors=True)
        for j in range(1, len(outs)):
            for n in outs[0]:
                if outs[j].get(n) != outs[0][n]:
                    diff = [s for s in outs[0][n] if outs[j].get(n, {}).get(s) != outs[0][n][s]]
                    res.append(f"{n} differs between hash seeds / output directory states / TZ settings (sheets {diff[:3]})")
        # (b) row / table permutation with distinct timestamps, (c) asset subsets: compared on the computed fractions through the public API
        wd = os.path.join(root, f"p{k}")
        os.makedirs(wd, exist_ok=True)
        try:
            sc2 = json.loads(json.dumps(sc))
            distinct = all(len({e2e.inst(t["ts"]) for t in txs}) == len(txs) for txs in sc2["assets"].values())
            with EZODF_LOCK:
                ini, ods = odsgen.materialize(sc2, wd)
            base = fractions_of(expected_both(ini, ods, "us", {"1970": m}, None, None))
            if distinct:
                sc3 = json.loads(json.dumps(sc))
                for a in sc3["assets"]:
                    rnd.shuffle(sc3["assets"][a])
                lay = odsgen.default_layout()
                lay["order"] = rnd.sample(["IN", "OUT", "INTRA"], 3)
                wd2 = os.path.join(wd, "perm")
                os.makedirs(wd2, exist_ok=True)
                with EZODF_LOCK:
                    ini2, ods2 = odsgen.materialize(sc3, wd2, lay)
                perm = fractions_of(expected_both(ini2, ods2, "us", {"1970": m}, None, None))
                if perm != base:
                    res.append("computed fractions change when rows are reordered within the tables / tables within the sheet (timestamps distinct)")
            if len(sc["assets"]) > 1:
                a0 = sorted(sc["assets"])[-1]
                sc4 = {"assets": {a0: json.loads(json.dumps(sc["assets"][a0]))}}
                # same sheet row numbers as in the full file: same layout, one sheet only
                wd3 = os.path.join(wd, "single")
                os.makedirs(wd3, exist_ok=True)
                with EZODF_LOCK:
                    ini3, ods3 = odsgen.materialize(sc4, wd3)
                single = fractions_of(expected_both(ini3, ods3, "us", {"1970": m}, None, None))
                if single[a0] != base[a0]:
                    res.append(f"results of asset {a0} differ when it is processed alone and together with {sorted(set(sc['assets']) - {a0})}")
        finally:
            shutil.rmtree(wd, ignore_errors=True)
        return sc, run, res
    try:
        for sc, run, res in _parallel(list(enumerate(picks)), one):
            evals += 4
            if res:
                fails.append({"scenario": sc, "run": _j(run), "what": res[:4], "regions": region_tags(sc, run)})
    finally:
        shutil.rmtree(root, ignore_errors=True)
    return evals, fails


# ------------------------------------------------------------------ C11: parsed transactions equal the spreadsheet rows for any column layout
def dec11(x):
    from decimal import Decimal
    return Decimal(f"{float(x):.11f}")


def search_C11(n_random, seed):
    from decimal import Decimal
    rnd = random.Random(seed * 7 + 11)
    thorough = n_random > 40
    n = 12 if not thorough else 150
    fails, evals = [], 0
    root = tempfile.mkdtemp(prefix="rp2cli_")
    precise = ["27345.12345678", "1234.56789012", "0.00000000001", "123456.78901234567", "0.33333333333", "98765.4321"]
    try:
        for k in range(n):
            sub = e2e.random_scenario(rnd, earn=True, intra=True)
            txs = sub["txs"]
            for t in txs:
                if rnd.random() < 0.35:
                    t["spot"] = rnd.choice(precise)
                if t["tab"] == "IN" and rnd.random() < 0.35:
                    t["amount"] = rnd.choice(precise[:2] + ["2.5", "0.12345678901"])
                if t["tab"] == "IN" and "fiat_fee" not in t and rnd.random() < 0.4:
                    t["crypto_fee"] = rnd.choice(["0.01", "0.00012345678", "0.5"])
                    if rnd.random() < 0.6 and "." not in t["ts"][:26]:
                        t["ts"] = t["ts"][:19] + rnd.choice([".750000", ".000001", ".5"]) + t["ts"][19:]        # sub-second instants survive the fee split
                if t["tab"] == "IN" and t.get("fiat_in_no_fee") is None and rnd.random() < 0.25:
                    t["fiat_in_with_fee"] = None
            layout = odsgen.permuted_layout(rnd) if k % 3 else odsgen.default_layout()
            sc = {"assets": {"B1": txs}}
            wd = os.path.join(root, f"c{k}")
            os.makedirs(wd, exist_ok=True)
            res = []
            try:
                with EZODF_LOCK:
                    ini, ods = odsgen.materialize(sc, wd, layout)
                    from rp2.configuration import Configuration
                    from rp2.ods_parser import open_ods, parse_ods
                    cfg = Configuration(ini, country_obj("us"))
                    idata = parse_ods(cfg, "B1", open_ods(cfg, ods))
                got = {"IN": list(idata.unfiltered_in_transaction_set), "OUT": list(idata.unfiltered_out_transaction_set), "INTRA": list(idata.unfiltered_intra_transaction_set)}
                mapped = lambda tab, f: f in layout[tab]
                for tab in ("IN", "OUT", "INTRA"):
                    want = [t for t in txs if t["tab"] == tab]
                    real = [g for g in got[tab] if int(g.internal_id) > 0]
                    art = [g for g in got[tab] if int(g.internal_id) <= 0]
                    if sorted(int(g.internal_id) for g in real) != sorted(t["row"] for t in want):
                        res.append(f"{tab} table: parsed rows {sorted(int(g.internal_id) for g in real)}, sheet rows {sorted(t['row'] for t in want)}")
                        continue
                    byrow = {int(g.internal_id): g for g in real}
                    for t in want:
                        g = byrow[t["row"]]
                        bad = []
                        if g.timestamp != e2e.parse_ts(t["ts"]):
                            bad.append(f"timestamp {g.timestamp} != {t['ts']}")
                        if tab == "INTRA":
                            if (g.from_exchange, g.from_holder, g.to_exchange, g.to_holder) != (t["ex"], t["ho"], t["to_ex"], t["to_ho"]):
                                bad.append("accounts")
                            nums = [("spot_price", t["spot"]), ("crypto_sent", t["amount"]), ("crypto_received", t["received"])]
                        else:
                            if (g.exchange, g.holder, g.transaction_type.value) != (t["ex"], t["ho"], t["type"]):
                                bad.append(f"exchange/holder/type {(g.exchange, g.holder, g.transaction_type.value)} != {(t['ex'], t['ho'], t['type'])}")
                            if tab == "IN":
                                nums = [("spot_price", t["spot"]), ("crypto_in", t["amount"])]
                                if t.get("crypto_fee") is not None and mapped("IN", "crypto_fee"):
                                    fee = dec11(t["crypto_fee"])
                                    if Decimal(str(g.crypto_fee)) != 0:
                                        bad.append(f"crypto fee left on the acquisition: {g.crypto_fee}")
                                    if abs(Decimal(str(g.fiat_fee)) - fee * dec11(t["spot"])) > Decimal("1e-20") * max(1, fee * dec11(t["spot"])):
                                        bad.append(f"fiat value of the crypto fee {g.fiat_fee} != {fee * dec11(t['spot'])}")
                                    # cost basis of the split acquisition: supplied values, or crypto_in*spot (+ the fee's fiat value)
                                    no_fee = dec11(t["fiat_in_no_fee"]) if t.get("fiat_in_no_fee") is not None and mapped("IN", "fiat_in_no_fee") else dec11(t["amount"]) * dec11(t["spot"])
                                    with_fee = dec11(t["fiat_in_with_fee"]) if t.get("fiat_in_with_fee") is not None and mapped("IN", "fiat_in_with_fee") else no_fee + fee * dec11(t["spot"])
                                    for fld, want_v in (("fiat_in_no_fee", no_fee), ("fiat_in_with_fee", with_fee)):
                                        if abs(Decimal(str(getattr(g, fld))) - want_v) > Decimal("1e-18") * max(1, abs(want_v)):
                                            bad.append(f"{fld} of the split acquisition {getattr(g, fld)} != {want_v}")
                                    twins = [a for a in got["OUT"] if int(a.internal_id) <= 0 and a.timestamp == g.timestamp and a.exchange == g.exchange and a.holder == g.holder
                                             and Decimal(str(a.crypto_fee)) == fee and Decimal(str(a.crypto_out_no_fee)) == 0 and a.transaction_type.value == "fee"
                                             and Decimal(str(a.spot_price)) == dec11(t["spot"])]
                                    if len(twins) != 1:
                                        bad.append(f"{len(twins)} artificial fee-only disposals for the crypto fee of row {t['row']} (expected exactly 1)")
                                else:
                                    if t.get("fiat_fee") is not None and mapped("IN", "fiat_fee"):
                                        nums.append(("fiat_fee", t["fiat_fee"]))
                                for f in ("fiat_in_no_fee", "fiat_in_with_fee"):
                                    if t.get(f) is not None and mapped("IN", f):
                                        nums.append((f, t[f]))
                            else:
                                nums = [("spot_price", t["spot"]), ("crypto_out_no_fee", t["amount"]), ("crypto_fee", t.get("fee", "0"))]
                        for f, w in nums:
                            if Decimal(str(getattr(g, f))) != dec11(w):
                                bad.append(f"{f} {getattr(g, f)} != {dec11(w)} (cell {w})")
                        if bad:
                            res.append(f"{tab} row {t['row']}: " + "; ".join(bad[:3]))
                    n_art_want = sum(1 for t in txs if t["tab"] == "IN" and t.get("crypto_fee") is not None and mapped("IN", "crypto_fee")) if tab == "OUT" else 0
                    if len(art) != n_art_want:
                        res.append(f"{tab} table: {len(art)} artificial transactions, expected {n_art_want}")
            except Exception as exc:
                import traceback
                res.append(f"valid input rejected: {type(exc).__name__}: {exc} :: {traceback.format_exc()[-300:]}")
            finally:
                shutil.rmtree(wd, ignore_errors=True)
            evals += 1
            if res:
                fails.append({"scenario": sc, "run": {"layout": {k2: v for k2, v in layout.items()}}, "what": res[:4], "regions": []})
                if len(fails) >= 4:
                    break
    finally:
        shutil.rmtree(root, ignore_errors=True)
    return evals, fails


# ------------------------------------------------------------------ C12: malformed or contradictory input is rejected
def fault_cases(rnd, sc):
    """(description, mutated scenario, structure, ini mutation, extra cli args) for every documented fault class at a random applicable position."""
    cases = []
    txs = sc["assets"]["B1"]
    ins = [i for i, t in enumerate(txs) if t["tab"] == "IN"]
    outs = [i for i, t in enumerate(txs) if t["tab"] == "OUT"]
    xs = [i for i, t in enumerate(txs) if t["tab"] == "INTRA"]

    def mut(i, **kw):
        s2 = json.loads(json.dumps(sc))
        s2["assets"]["B1"][i].update(kw)
        return s2

    def other_asset(i, **kw):
        # B2 is a configured asset, but only sheet B1 is processed (-a B1): the row is rejected for not belonging to its sheet, not for being unknown
        s2 = mut(i, asset_cell="B2", **kw)
        s2["config_assets"] = ["B1", "B2"]
        return s2
    any_i = lambda: rnd.choice(range(len(txs)))
    cases.append(("unknown exchange", mut(any_i(), ex="Binance7"), None, None, []))
    cases.append(("unknown holder", mut(any_i(), ho="Mallory"), None, None, []))
    i = any_i()
    cases.append(("timestamp without time zone", mut(i, ts=txs[i]["ts"][:19]), None, None, []))
    cases.append(("row whose asset differs from its sheet", other_asset(any_i()), None, None, ["-a", "B1"]))
    cases.append(("unknown asset in a row", mut(any_i(), asset_cell="ZZZ"), None, None, []))
    if ins:
        i = rnd.choice(ins)
        cases.append(("OUT-only type in the IN table", mut(i, type="sell"), None, None, []))
        cases.append(("non-positive amount acquired", mut(i, amount=rnd.choice(["0", "-1"]), type="buy"), None, None, []))
        cases.append(("zero spot price on an acquisition", mut(i, spot="0"), None, None, []))
        cases.append(("both crypto and fiat fee on an acquisition", mut(i, crypto_fee="0.01", fiat_fee="1"), None, None, []))
        cases.append(("non-numeric amount", mut(i, amount="lots"), None, None, []))
        cases.append(("row whose asset differs from its sheet (IN row with a crypto fee)", other_asset(i, crypto_fee="0.001", type="buy"), None, None, ["-a", "B1"]))
    if outs:
        i = rnd.choice(outs)
        cases.append(("IN-only type in the OUT table", mut(i, type="buy"), None, None, []))
        cases.append(("negative amount sold", mut(i, amount="-0.5", type="sell"), None, None, []))
        cases.append(("non-numeric spot price", mut(i, spot="n/a"), None, None, []))
    if xs:
        i = rnd.choice(xs)
        cases.append(("more received than sent", mut(i, received=str(float(txs[i]["amount"]) + 1)), None, None, []))
        cases.append(("non-positive amount sent", mut(i, amount="0", received="0"), None, None, []))
    for what, st in (("missing TABLE END", {"drop_end": rnd.choice(["IN"] + (["OUT"] if outs else []))}), ("nested table", {"nested": "IN"}), ("repeated table", {"repeat": "IN"}),
                     ("data outside a table", {"data_outside": True}), ("repeated table after all tables were closed", {"repeat_end": "OUT" if outs else "IN"})):
        cases.append((what, sc, {"B1": st}, None, []))
    noin = json.loads(json.dumps(sc))
    noin["assets"]["B1"] = [t for t in txs if t["tab"] != "IN"]
    if noin["assets"]["B1"]:
        cases.append(("missing IN table", noin, None, None, []))
    cases.append(("config: section missing", sc, None, lambda s: s.replace("[out_header]", "[out_headerx]"), []))
    cases.append(("config: mandatory field missing", sc, None, lambda s: re.sub(r"\ncrypto_in = \d+", "", s), []))
    cases.append(("config: two fields on one column", sc, None, lambda s: re.sub(r"\nholder = \d+", "\nholder = 0", s, count=1), []))
    cases.append(("config: unknown header keyword", sc, None, lambda s: s.replace("[in_header]\n", "[in_header]\nbogus_field = 17\n"), []))
    cases.append(("config: non-integer column", sc, None, lambda s: re.sub(r"\nspot_price = \d+", "\nspot_price = eight", s, count=1), []))
    cases.append(("options: -m together with [accounting_methods]", sc, None, lambda s: s + "\n[accounting_methods]\n2019 = fifo\n", ["-m", "lifo"]))
    cases.append(("options: unsupported accounting method", sc, None, None, ["-m", "wac"]))
    cases.append(("options: from-date after to-date", sc, None, None, ["-f", "2021-01-01", "-t", "2020-01-01"]))
    cases.append(("options: deprecated plugin option", sc, None, None, ["-l", "x"]))
    cases.append(("options: -a names an asset the configuration does not know", sc, None, None, ["-a", "ZZZ"]))
    return cases


def search_C12(n_random, seed):
    rnd = random.Random(seed * 7 + 12)
    thorough = n_random > 40
    base = [s for s in multi_scenarios(rnd, 0)]
    pool = []
    cur = e2e.curated()
    for idx in (0, 20) + ((4, 21, 22) if thorough else ()):
        if idx < len(cur):
            pool.append({"assets": {"B1": json.loads(json.dumps(cur[idx]["txs"]))}})
    jobs = []
    for sc in pool:
        jobs.append((len(jobs), "valid input (control)", sc, None, None, []))
        cs = fault_cases(rnd, sc)
        for c in (cs if thorough else cs):
            jobs.append((len(jobs),) + c)
    root = tempfile.mkdtemp(prefix="rp2cli_")

    def one(job):
        i, what, sc, structure, ini_mut, extra = job
        wd = os.path.join(root, f"f{i}")
        try:
            sc2 = json.loads(json.dumps(sc))
            os.makedirs(wd, exist_ok=True)
            with EZODF_LOCK:
                ini, ods = odsgen.materialize(sc2, wd, None, structure, None)
            if ini_mut:
                txt = open(ini).read()
                new = ini_mut(txt)
                if new == txt:
                    return what, sc2, [f"harness: config mutation for '{what}' did not apply"], True
                open(ini, "w").write(new)
            outdir = os.path.join(wd, "out")
            os.makedirs(outdir, exist_ok=True)
            r = clirun.run_cli("us", ["-n", "-o", outdir] + list(extra) + [ini, ods], REPO, wd)
            files = [f for f in os.listdir(outdir) if f.endswith(".ods")]
            res = []
            if what.startswith("valid input"):
                if r["rc"] != 0:
                    res.append(f"valid input rejected: {r['out'][-260:]}")
            else:
                if r["rc"] == 0:
                    res.append(f"{what}: accepted (exit status 0)")
                if files:
                    res.append(f"{what}: reports were written {files}")
                if r["rc"] != 0 and not r["out"].strip():
                    res.append(f"{what}: rejected without any error message")
            return what, sc2, res, False
        finally:
            shutil.rmtree(wd, ignore_errors=True)
    fails = []
    try:
        for what, sc2, res, harness_err in _parallel(jobs, one):
            if res:
                fails.append({"scenario": sc2, "run": {"fault": what}, "what": res, "regions": ["harness"] if harness_err else []})
    finally:
        shutil.rmtree(root, ignore_errors=True)
    return len(jobs), fails


# ------------------------------------------------------------------ replay of one failing case
def _date(x):
    return dt.date.fromisoformat(x) if isinstance(x, str) and re.match(r"^\d{4}-\d\d-\d\d$", x) else x


def replay(pid, scenario, run):
    """Re-runs one recorded case natively; returns the list of violations of `pid` it shows (empty = does not reproduce)."""
    run = {k: _date(v) for k, v in (run or {}).items()}
    if "config_methods" in run and run["config_methods"]:
        run["config_methods"] = {int(k): v for k, v in run["config_methods"].items()}
    root = tempfile.mkdtemp(prefix="rp2cli_")
    try:
        if pid in ("C13", "C14", "C15", "C19", "C20"):
            _, res = check_reports(pid, json.loads(json.dumps(scenario)), run, os.path.join(root, "r"))
            return [w for p, w in res if p == pid]
        if pid == "C16":
            r = do_run(json.loads(json.dumps(scenario)), run, os.path.join(root, "r"))
            want = COUNTRIES[run.get("country", "us")]
            missing = [g for g in want if not any(f.endswith(g + ".ods") for f in r["files"])]
            return ([f"exited with status {r['rc']}: {r['out'][-300:]}"] if r["rc"] != 0 else []) + ([f"did not write {missing}"] if r["rc"] == 0 and missing else [])
        fn = globals().get("search_" + pid)
        evals, fails = fn(4, 0)
        return [w for f in fails for w in f["what"]]
    finally:
        shutil.rmtree(root, ignore_errors=True)
