"""python -m harness.cli_main <pid> <n_random> <seed>   (fresh interpreter, <repo>/src first on sys.path, RP2_VERIF_REPO set)"""
import json
import sys


def main() -> int:
    from harness import cli
    pid, n, seed = sys.argv[1], int(sys.argv[2]), int(sys.argv[3])
    if "--scenario" in sys.argv:
        case = json.load(open(sys.argv[sys.argv.index("--scenario") + 1]))
        what = cli.replay(pid, case["scenario"], case.get("run"))
        print("E2E-RESULT " + json.dumps({"evaluations": 1, "failures": [{"scenario": case["scenario"], "run": case.get("run"), "what": what, "regions": []}] if what else []}, default=str))
        return 0
    fn = getattr(cli, "search_" + pid, None)
    evals, fails = fn(n, seed) if fn else cli.search(pid, n, seed)
    print("E2E-RESULT " + json.dumps({"evaluations": evals, "failures": fails}, default=str))
    return 0


if __name__ == "__main__":
    sys.exit(main())
