"""Native harness helpers (import the *real* rp2 of the tree under test).  Used by replays and bounded stand-ins only."""
import datetime as dt
import os
import tempfile
from decimal import Decimal
from fractions import Fraction

INI = """[general]
assets = B1, B2, B3
exchanges = Coinbase, Kraken, BlockFi
holders = Bob, Alice

[in_header]
timestamp = 0
asset = 6
exchange = 1
holder = 2
transaction_type = 5
spot_price = 8
crypto_in = 7
fiat_fee = 11
fiat_in_no_fee = 9
fiat_in_with_fee = 10
notes = 12

[out_header]
timestamp = 0
asset = 6
exchange = 1
holder = 2
transaction_type = 5
spot_price = 8
crypto_out_no_fee = 7
crypto_fee = 9
notes = 12

[intra_header]
timestamp = 0
asset = 6
from_exchange = 1
from_holder = 2
to_exchange = 3
to_holder = 4
spot_price = 8
crypto_sent = 7
crypto_received = 10
notes = 12
"""

_cfg_dir = None


def config_path(text: str = INI) -> str:
    global _cfg_dir
    if _cfg_dir is None:
        import atexit
        import shutil
        _cfg_dir = tempfile.mkdtemp(prefix="rp2cfg_")
        atexit.register(shutil.rmtree, _cfg_dir, True)
    p = os.path.join(_cfg_dir, f"cfg_{abs(hash(text))}.ini")
    with open(p, "w") as f:
        f.write(text)
    return p


def country(name: str = "us", generic_days=None):
    import importlib
    if name == "generic":
        os.environ["CURRENCY_CODE"] = "usd"
        os.environ["LONG_TERM_CAPITAL_GAINS"] = str(generic_days if generic_days is not None else 365)
        return importlib.import_module("rp2.plugin.country.generic").Generic()
    mod = importlib.import_module(f"rp2.plugin.country.{name}")
    return getattr(mod, name.upper())()


def configuration(country_name: str = "us", generic_days=None, from_date=None, to_date=None, allow_negative=False, ini: str = INI):
    from rp2.configuration import Configuration, MIN_DATE, MAX_DATE
    return Configuration(config_path(ini), country(country_name, generic_days), from_date or MIN_DATE, to_date or MAX_DATE, allow_negative)


def iso(inst_us: int, off_s: int) -> str:
    """ISO string of the aware datetime with UTC instant `inst_us` (microseconds since the epoch) and offset `off_s` seconds."""
    tz = dt.timezone(dt.timedelta(seconds=off_s))
    d = dt.datetime(1970, 1, 1, tzinfo=dt.timezone.utc) + dt.timedelta(microseconds=inst_us)
    return d.astimezone(tz).isoformat()


def D(x):
    from rp2.rp2_decimal import RP2Decimal
    if isinstance(x, str) and "/" in x:
        f = Fraction(x)
        return RP2Decimal(Decimal(f.numerator) / Decimal(f.denominator))
    return RP2Decimal(str(x))


def _name(v, pool, default):
    return v if isinstance(v, str) and v in pool else default


def build_tx(cfg, d, asset="B1"):
    """Real transaction object whose stored fields are those of `d` (a decode_tx dictionary): optional exchange-supplied
    columns are passed explicitly so that the constructor stores the model's values.  Raises what the constructor raises."""
    from rp2.in_transaction import InTransaction
    from rp2.out_transaction import OutTransaction
    from rp2.intra_transaction import IntraTransaction
    ts = iso(d["timestamp"]["inst"], d["timestamp"]["off"]) if isinstance(d["timestamp"], dict) else d["timestamp"]
    row = d.get("row") if isinstance(d.get("row"), int) else 1
    ex = lambda k: _name(d.get(k), ("Coinbase", "Kraken", "BlockFi"), "Coinbase")
    ho = lambda k: _name(d.get(k), ("Bob", "Alice"), "Bob")
    if d["cls"] == "InTransaction":
        return InTransaction(cfg, ts, asset, ex("exchange"), ho("holder"), d["type"].lower(), D(d["spot_price"]), D(d["crypto_in"]),
                             crypto_fee=None, fiat_in_no_fee=D(d["fiat_in_no_fee"]) if "fiat_in_no_fee" in d else None,
                             fiat_in_with_fee=D(d["fiat_in_with_fee"]) if "fiat_in_with_fee" in d else None,
                             fiat_fee=D(d["fiat_fee"]) if "fiat_fee" in d else None, row=row)
    if d["cls"] == "OutTransaction":
        return OutTransaction(cfg, ts, asset, ex("exchange"), ho("holder"), d["type"].lower(), D(d["spot_price"]), D(d["crypto_out_no_fee"]), D(d["crypto_fee"]),
                              crypto_out_with_fee=D(d["crypto_out_with_fee"]) if "crypto_out_with_fee" in d else None,
                              fiat_out_no_fee=D(d["fiat_out_no_fee"]) if "fiat_out_no_fee" in d else None,
                              fiat_fee=D(d["fiat_fee"]) if "fiat_fee" in d else None, row=row)
    if d["cls"] == "IntraTransaction":
        return IntraTransaction(cfg, ts, asset, ex("from_exchange"), ho("from_holder"), ex("to_exchange"), ho("to_holder"), D(d["spot_price"]),
                                D(d["crypto_sent"]), D(d["crypto_received"]), row=row)
    raise ValueError(f"unknown transaction class {d['cls']}")


def F(x):
    """Exact rational value of a Decimal / numeric string."""
    from fractions import Fraction
    return Fraction(str(x)) if not isinstance(x, Fraction) else x
