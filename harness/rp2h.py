"""Native harness helpers (import the *real* rp2 of the tree under test).  Used by replays and bounded stand-ins only."""
import datetime as dt
import os
import tempfile
from decimal import Decimal
from fractions import Fraction

INI = """[general]
assets = B1, B2, B3
exchanges = Coinbase, Kraken, BlockFi
holders = Bob, Alice

[in_header]
timestamp = 0
asset = 6
exchange = 1
holder = 2
transaction_type = 5
spot_price = 8
crypto_in = 7
fiat_fee = 11
fiat_in_no_fee = 9
fiat_in_with_fee = 10
notes = 12

[out_header]
timestamp = 0
asset = 6
exchange = 1
holder = 2
transaction_type = 5
spot_price = 8
crypto_out_no_fee = 7
crypto_fee = 9
notes = 12

[intra_header]
timestamp = 0
asset = 6
from_exchange = 1
from_holder = 2
to_exchange = 3
to_holder = 4
spot_price = 8
crypto_sent = 7
crypto_received = 10
notes = 12
"""

_cfg_dir = None


def config_path(text: str = INI) -> str:
    global _cfg_dir
    if _cfg_dir is None:
        _cfg_dir = tempfile.mkdtemp(prefix="rp2cfg_")
    p = os.path.join(_cfg_dir, f"cfg_{abs(hash(text))}.ini")
    with open(p, "w") as f:
        f.write(text)
    return p


def country(name: str = "us", generic_days=None):
    import importlib
    if name == "generic":
        os.environ["CURRENCY_CODE"] = "usd"
        os.environ["LONG_TERM_CAPITAL_GAINS"] = str(generic_days if generic_days is not None else 365)
        return importlib.import_module("rp2.plugin.country.generic").Generic()
    mod = importlib.import_module(f"rp2.plugin.country.{name}")
    return getattr(mod, name.upper())()


def configuration(country_name: str = "us", generic_days=None, from_date=None, to_date=None, allow_negative=False, ini: str = INI):
    from rp2.configuration import Configuration, MIN_DATE, MAX_DATE
    return Configuration(config_path(ini), country(country_name, generic_days), from_date or MIN_DATE, to_date or MAX_DATE, allow_negative)


def iso(inst_us: int, off_s: int) -> str:
    """ISO string of the aware datetime with UTC instant `inst_us` (microseconds since the epoch) and offset `off_s` seconds."""
    tz = dt.timezone(dt.timedelta(seconds=off_s))
    d = dt.datetime(1970, 1, 1, tzinfo=dt.timezone.utc) + dt.timedelta(microseconds=inst_us)
    return d.astimezone(tz).isoformat()


def D(x):
    from rp2.rp2_decimal import RP2Decimal
    if isinstance(x, str) and "/" in x:
        f = Fraction(x)
        return RP2Decimal(Decimal(f.numerator) / Decimal(f.denominator))
    return RP2Decimal(str(x))
