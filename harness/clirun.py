"""Runs an rp2 country entry point of the tree under test in a fresh interpreter (one process per run, like a user would), optionally under
an audit hook that records network / process / file-write events.  Bounded stand-in machinery: nothing here is a proof."""
import json
import os
import subprocess
import sys
import tempfile
import threading

_LOCK = threading.RLock()

BOOT = r'''
import json, os, sys
EVENTS = []
AUDIT = os.environ.get("RP2H_AUDIT")
if AUDIT:
    WATCH = ("socket.", "subprocess.Popen", "os.system", "os.exec", "os.spawn", "os.posix_spawn", "os.fork", "urllib.Request", "http.client", "ftplib", "smtplib")
    def hook(ev, args):
        if ev.startswith(WATCH):
            EVENTS.append([ev, repr(args)[:200]])
        elif ev == "open":
            path, mode = args[0], args[1]
            if isinstance(mode, str) and any(c in mode for c in "wax+"):
                EVENTS.append(["open-write", str(path)])
        elif ev in ("os.remove", "os.rename", "os.mkdir", "os.rmdir", "shutil.rmtree", "os.unlink", "os.truncate", "os.chmod"):
            EVENTS.append([ev, repr(args)[:200]])
    sys.addaudithook(hook)
country = sys.argv[1]
sys.argv = ["rp2_" + country] + sys.argv[2:]
import importlib
mod = importlib.import_module("rp2.plugin.country." + country)
rc = 0
try:
    mod.rp2_entry()
except SystemExit as e:
    rc = e.code if isinstance(e.code, int) else (0 if e.code is None else 1)
finally:
    if AUDIT:
        with open(AUDIT, "w") as f:
            json.dump(EVENTS, f)
sys.exit(rc)
'''


def run_cli(country, args, repo, cwd, audit=False, env_extra=None, timeout=180):
    env = dict(os.environ)
    env["PYTHONPATH"] = os.path.join(os.path.abspath(repo), "src")
    env.pop("RP2H_AUDIT", None)
    audit_path = None
    if audit:
        fd, audit_path = tempfile.mkstemp(prefix="rp2audit_", suffix=".json")
        os.close(fd)
        env["RP2H_AUDIT"] = audit_path
    env.update(env_extra or {})
    if country == "generic":
        env.setdefault("CURRENCY_CODE", "usd")
        env.setdefault("LONG_TERM_CAPITAL_GAINS", "365")
    try:
        p = subprocess.run([sys.executable, "-c", BOOT, country] + list(args), cwd=cwd, env=env, capture_output=True, text=True, timeout=timeout)
        rc, out = p.returncode, (p.stdout + p.stderr)
    except subprocess.TimeoutExpired:
        rc, out = -9, "timeout"
    events = None
    if audit_path:
        try:
            with open(audit_path) as f:
                events = json.load(f)
        except (OSError, ValueError):
            events = None
        os.unlink(audit_path)
    return {"rc": rc, "out": out[-3000:], "events": events}


def read_sheets(path):
    """{sheet name: list of rows, each a list of (value, formula)} of an ODS file, via ezodf."""
    import ezodf
    with _LOCK:
        doc = ezodf.opendoc(path)
        out = {}
        for sh in doc.sheets:
            rows = []
            for r in sh.rows():
                rows.append([(c.value, c.formula) for c in r])
            out[sh.name] = rows
        return out
