"""Runs inside a fresh interpreter with the tree under test first on sys.path:  python -m harness.e2e_main <pid> <n_random> <seed> [--scenario file]"""
import json
import sys


def main() -> int:
    from harness import e2e
    pid, n, seed = sys.argv[1], int(sys.argv[2]), int(sys.argv[3])
    if "--scenario" in sys.argv:
        sc = json.load(open(sys.argv[sys.argv.index("--scenario") + 1]))
        res = [w for p, w in e2e.run_scenario(sc, [pid]) if p == pid]
        print("E2E-RESULT " + json.dumps({"evaluations": 1, "failures": [{"scenario": sc, "what": res}] if res else []}, default=str))
        return 0
    evals, fails = e2e.search(pid, n, seed)
    print("E2E-RESULT " + json.dumps({"evaluations": evals, "failures": fails}, default=str))
    return 0


if __name__ == "__main__":
    sys.exit(main())
