"""Generated inputs for the process-level bounded stand-ins: an .ini + .ods pair from a multi-asset scenario and a column layout.

A multi-asset scenario is {"assets": {"B1": [tx, ...], "B2": [...]}, ...}; transactions are the dictionaries of harness/e2e.py
(tab IN/OUT/INTRA, ts, ex, ho, type, spot, amount, fee / received, optional fiat columns, row is assigned here = 1-based sheet row).
A layout assigns a column to every field of every table (any permutation, extra unmapped columns, table order, blank rows).
"""
import os

FIELDS = {
    "IN": ["timestamp", "asset", "exchange", "holder", "transaction_type", "spot_price", "crypto_in", "crypto_fee", "fiat_in_no_fee", "fiat_in_with_fee", "fiat_fee", "notes"],
    "OUT": ["timestamp", "asset", "exchange", "holder", "transaction_type", "spot_price", "crypto_out_no_fee", "crypto_fee", "fiat_out_no_fee", "fiat_fee", "notes"],
    "INTRA": ["timestamp", "asset", "from_exchange", "from_holder", "to_exchange", "to_holder", "spot_price", "crypto_sent", "crypto_received", "notes"],
}
SECTION = {"IN": "in_header", "OUT": "out_header", "INTRA": "intra_header"}
NUMERIC = {"spot_price", "crypto_in", "crypto_fee", "fiat_in_no_fee", "fiat_in_with_fee", "fiat_fee", "crypto_out_no_fee", "fiat_out_no_fee", "crypto_sent", "crypto_received"}
EXCHANGES = ["Coinbase", "Kraken", "BlockFi"]
HOLDERS = ["Bob", "Alice"]


def default_layout():
    """The layout of config/test_data.ini plus the optional columns (first column holds the mandatory timestamp)."""
    return {"IN": {"timestamp": 0, "exchange": 1, "holder": 2, "transaction_type": 5, "asset": 6, "crypto_in": 7, "spot_price": 8, "fiat_in_no_fee": 9,
                   "fiat_in_with_fee": 10, "fiat_fee": 11, "notes": 12, "crypto_fee": 13},
            "OUT": {"timestamp": 0, "exchange": 1, "holder": 2, "transaction_type": 5, "asset": 6, "crypto_out_no_fee": 7, "spot_price": 8, "crypto_fee": 9,
                    "fiat_out_no_fee": 10, "fiat_fee": 11, "notes": 12},
            "INTRA": {"timestamp": 0, "from_exchange": 1, "from_holder": 2, "to_exchange": 3, "to_holder": 4, "asset": 6, "crypto_sent": 7, "spot_price": 8,
                      "crypto_received": 10, "notes": 12},
            "order": ["IN", "OUT", "INTRA"], "blank_rows": 1, "width": 15}


def permuted_layout(rnd):
    """A random valid layout: the first column holds a mandatory field (timestamp / exchange ...), every other field anywhere, extra columns."""
    lay = {"order": rnd.sample(["IN", "OUT", "INTRA"], 3), "blank_rows": rnd.choice([0, 1, 3]), "width": 18}
    for tab, fields in FIELDS.items():
        cols = list(range(1, lay["width"]))
        rnd.shuffle(cols)
        first = rnd.choice(["timestamp", "asset", "exchange" if tab != "INTRA" else "from_exchange"])
        m = {first: 0}
        for f in fields:
            if f != first:
                m[f] = cols.pop()
        # optional columns may be left unmapped
        for opt in ("notes", "fiat_in_no_fee", "fiat_in_with_fee", "fiat_out_no_fee"):
            if opt in m and opt != first and rnd.random() < 0.3:
                del m[opt]
        lay[tab] = m
    return lay


def row_values(t, asset, layout):
    tab = t["tab"]
    m = layout[tab]
    vals = {"timestamp": t["ts"], "asset": t.get("asset_cell", asset), "spot_price": t.get("spot"), "notes": t.get("notes", f"row note {t.get('row', '')}")}
    if tab == "IN":
        vals.update({"exchange": t["ex"], "holder": t["ho"], "transaction_type": t["type"].upper(), "crypto_in": t["amount"], "crypto_fee": t.get("crypto_fee"),
                     "fiat_in_no_fee": t.get("fiat_in_no_fee"), "fiat_in_with_fee": t.get("fiat_in_with_fee"), "fiat_fee": t.get("fiat_fee")})
    elif tab == "OUT":
        vals.update({"exchange": t["ex"], "holder": t["ho"], "transaction_type": t["type"].upper(), "crypto_out_no_fee": t["amount"], "crypto_fee": t.get("fee", "0"),
                     "fiat_out_no_fee": t.get("fiat_out_no_fee"), "fiat_fee": t.get("fiat_fee")})
    else:
        vals.update({"from_exchange": t["ex"], "from_holder": t["ho"], "to_exchange": t["to_ex"], "to_holder": t["to_ho"], "crypto_sent": t["amount"],
                     "crypto_received": t["received"]})
    row = [None] * layout["width"]
    for f, c in m.items():
        v = vals.get(f)
        if v is None:
            continue
        if f in NUMERIC and not isinstance(v, str):
            row[c] = v
        elif f in NUMERIC:
            try:
                row[c] = float(v)
            except ValueError:
                row[c] = v              # deliberately non-numeric (fault injection)
        else:
            row[c] = v
    for c in range(layout["width"]):
        if row[c] is None and c not in m.values() and c % 5 == 4:
            row[c] = f"custom {c}"      # unmapped extra column with the user's own data
    return row


def sheet_rows(txs, asset, layout, structure=None):
    """List of rows (lists of cell values) of one asset sheet; assigns t['row'] = 1-based sheet row.  `structure` can break the table
    structure on purpose: {'drop_end': 'IN'}, {'nested': 'OUT'}, {'repeat': 'IN'}, {'data_outside': True}, {'no_header': 'IN'}."""
    structure = structure or {}
    rows = []
    w = layout["width"]
    for tab in layout["order"]:
        sel = [t for t in txs if t["tab"] == tab]
        if not sel and tab != "IN":
            continue
        for _ in range(layout["blank_rows"]):
            rows.append([None] * w)
        if structure.get("data_outside") and tab == layout["order"][0]:
            rows.append(["stray text"] + [None] * (w - 1))
        rows.append([tab] + [None] * (w - 1))
        if structure.get("no_header") != tab:
            hdr = [None] * w
            for f, c in layout[tab].items():
                hdr[c] = f
            if hdr[0] is None:
                hdr[0] = "header"
            rows.append(hdr)
        for t in sel:
            rows.append(row_values(t, asset, layout))
            t["row"] = len(rows)
            if structure.get("nested") == tab and t is sel[0]:
                rows.append(["INTRA" if tab != "INTRA" else "OUT"] + [None] * (w - 1))
        if structure.get("drop_end") != tab:
            rows.append(["TABLE END"] + [None] * (w - 1))
        if structure.get("repeat") == tab:
            rows.append([tab] + [None] * (w - 1))
            hdr = [None] * w
            hdr[0] = "header"
            rows.append(hdr)
            if sel:
                rows.append(row_values(sel[0], asset, layout))
            rows.append(["TABLE END"] + [None] * (w - 1))
    rep = structure.get("repeat_end")
    if rep:
        # a second table of a type that was already filled, after every other table has been closed
        sel = [t for t in txs if t["tab"] == rep]
        rows.append([None] * w)
        rows.append([rep] + [None] * (w - 1))
        hdr = [None] * w
        hdr[0] = "header"
        rows.append(hdr)
        if sel:
            rows.append(row_values(sel[-1], asset, layout))
        rows.append(["TABLE END"] + [None] * (w - 1))
    return rows


def write_ods(path, assets_rows):
    import ezodf
    doc = ezodf.newdoc(doctype="ods", filename=path)
    for asset, rows in assets_rows.items():
        width = max(len(r) for r in rows) if rows else 1
        sh = ezodf.Sheet(asset, size=(max(len(rows), 1), width))
        for i, r in enumerate(rows):
            for j, v in enumerate(r):
                if v is not None:
                    sh[i, j].set_value(v)
        doc.sheets += sh
    doc.save()


def write_ini(path, assets, layout, methods=None, extra="", holders=None, exchanges=None):
    lines = ["[general]", "assets = " + ", ".join(assets), "exchanges = " + ", ".join(exchanges or EXCHANGES), "holders = " + ", ".join(holders or HOLDERS), ""]
    for tab in ("IN", "OUT", "INTRA"):
        lines.append(f"[{SECTION[tab]}]")
        for f, c in layout[tab].items():
            lines.append(f"{f} = {c}")
        lines.append("")
    if methods:
        lines.append("[accounting_methods]")
        for y, m in sorted(methods.items()):
            lines.append(f"{y} = {m}")
        lines.append("")
    with open(path, "w") as f:
        f.write("\n".join(lines) + extra)


def materialize(scenario, directory, layout=None, structure=None, config_methods=None):
    """Writes <directory>/config.ini and <directory>/input.ods for a multi-asset scenario; returns their paths."""
    layout = layout or default_layout()
    rows = {a: sheet_rows(txs, a, layout, (structure or {}).get(a)) for a, txs in scenario["assets"].items()}
    ini, ods = os.path.join(directory, "config.ini"), os.path.join(directory, "input.ods")
    write_ini(ini, scenario.get("config_assets", sorted(scenario["assets"])), layout, config_methods, holders=scenario.get("holders"), exchanges=scenario.get("exchanges"))
    write_ods(ods, rows)
    return ini, ods
